//! Coverage-guided variant of C09's round-trip part: libFuzzer mutates the choice tape of the
//! rule-text grammar; the oracle (print -> parse, RuleDef -> JSON -> Rule) runs inside the target.
#![no_main]
use libfuzzer_sys::fuzz_target;

fuzz_target!(|data: &[u8]| {
    if let Err(e) = ilverif::props::c09::fuzz_one(data) {
        panic!("C09 violated: {e}");
    }
});
