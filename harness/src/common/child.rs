//! Run one check of one case in a child process of this binary, under a memory limit and a
//! wall-clock limit. Used where the engine may diverge without honouring its cancel flag: a hang
//! or an out-of-memory abort of the child is "inconclusive" (discarded), never a verdict.

use super::runner::{CheckResult, Fail};
use serde::{de::DeserializeOwned, Serialize};
use std::io::{Read, Write};
use std::os::unix::process::CommandExt;
use std::process::{Command, Stdio};
use std::time::{Duration, Instant};

#[derive(Debug)]
pub enum ChildOutcome {
    /// the child ran the check to completion
    Done(CheckResult, Option<String>),
    Timeout,
    Died(String),
}

/// Protocol: the child prints one line `RESULT {"fail": null|Fail, "discard": null|string}`.
pub fn child_report(res: &CheckResult, discard: &Option<String>) {
    let js = serde_json::json!({"fail": res.as_ref().err(), "discard": discard});
    println!("RESULT {js}");
}

pub fn run_child<T: Serialize>(internal_cmd: &str, case: &T, mem_bytes: u64, timeout: Duration) -> ChildOutcome {
    let exe = std::env::current_exe().expect("current_exe");
    let mut cmd = Command::new(exe);
    cmd.arg(internal_cmd).stdin(Stdio::piped()).stdout(Stdio::piped()).stderr(Stdio::null());
    unsafe {
        cmd.pre_exec(move || {
            let lim = libc::rlimit { rlim_cur: mem_bytes, rlim_max: mem_bytes };
            libc::setrlimit(libc::RLIMIT_AS, &lim);
            Ok(())
        });
    }
    let mut child = match cmd.spawn() {
        Ok(c) => c,
        Err(e) => return ChildOutcome::Died(format!("spawn failed: {e}")),
    };
    if let Some(mut si) = child.stdin.take() {
        let _ = si.write_all(serde_json::to_string(case).unwrap_or_default().as_bytes());
    }
    let t0 = Instant::now();
    loop {
        match child.try_wait() {
            Ok(Some(status)) => {
                let mut out = String::new();
                if let Some(mut so) = child.stdout.take() {
                    let _ = so.read_to_string(&mut out);
                }
                for line in out.lines() {
                    if let Some(js) = line.strip_prefix("RESULT ") {
                        if let Ok(v) = serde_json::from_str::<serde_json::Value>(js) {
                            let discard = v.get("discard").and_then(|d| d.as_str()).map(str::to_string);
                            let fail: Option<Fail> = v.get("fail").and_then(|f| serde_json::from_value(f.clone()).ok());
                            return ChildOutcome::Done(fail.map_or(Ok(()), Err), discard);
                        }
                    }
                }
                return ChildOutcome::Died(format!("child exited with {status} without a result"));
            }
            Ok(None) => {
                if t0.elapsed() > timeout {
                    let _ = child.kill();
                    let _ = child.wait();
                    return ChildOutcome::Timeout;
                }
                std::thread::sleep(Duration::from_millis(5));
            }
            Err(e) => return ChildOutcome::Died(format!("wait failed: {e}")),
        }
    }
}

pub fn read_case_from_stdin<T: DeserializeOwned>() -> Result<T, String> {
    let mut s = String::new();
    std::io::stdin().read_to_string(&mut s).map_err(|e| e.to_string())?;
    serde_json::from_str(&s).map_err(|e| e.to_string())
}
