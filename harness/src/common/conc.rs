//! Shared driver of the schedule-driven checks (C15, C17, C20): runs per-thread operation lists
//! against one `StorageEngine` under a generated schedule (E4), records the invocation/response
//! history, copies the data directory aside at every scheduling step (process-crash images) and
//! judges the served, restarted and crash-recovered states with the history checker.

use crate::common::lin::{self, HOp, Log, Op, Res, Row, State};
use crate::common::sched::{self, RunInfo};
use crate::common::store::{itup, open_store, Scratch};
use inputlayer::value::Value;
use inputlayer::StorageEngine;
use serde::{Deserialize, Serialize};
use std::collections::{BTreeMap, BTreeSet};
use std::path::{Path, PathBuf};
use std::sync::atomic::{AtomicBool, Ordering};
use std::sync::Arc;
use std::time::Duration;

#[derive(Clone, Debug, Serialize, Deserialize)]
pub struct ConcCase {
    pub buffer_size: usize,
    /// executed sequentially before the threads start
    pub init: Vec<Op>,
    pub threads: Vec<Vec<Op>>,
    pub schedule: Vec<u16>,
    /// stress mode: the threads race under the OS scheduler instead of the generated schedule
    #[serde(default)]
    pub free: bool,
    /// probability (x/65536) that the thread that ran last keeps the turn at a scheduling step
    #[serde(default)]
    pub sticky: u16,
}

impl ConcCase {
    pub fn text(&self) -> String {
        let mut s = format!("{}buffer_size {}; init: [{}]", if self.free { "[free-running threads] " } else { "" }, self.buffer_size, self.init.iter().map(|o| o.text()).collect::<Vec<_>>().join("; "));
        for (i, t) in self.threads.iter().enumerate() {
            s.push_str(&format!("\nT{i}: {}", t.iter().map(|o| o.text()).collect::<Vec<_>>().join("; ")));
        }
        s
    }
}

pub const ARITY: usize = 2;

/// Execute one operation against the engine. `ineffective` is set when the engine itself reports
/// that a write had no effect (duplicate insert / absent delete).
pub fn exec_op(st: &StorageEngine, op: &Op, ineffective: &AtomicBool) -> Res {
    let e = |e: inputlayer::storage::StorageError| Res::Err(e.to_string());
    match op {
        Op::Insert { kg, rel, rows } => {
            let mut distinct: Vec<&Row> = Vec::new();
            for r in rows {
                if !distinct.contains(&r) {
                    distinct.push(r);
                }
            }
            match st.insert_tuples_into(kg, rel, rows.iter().map(|r| itup(r)).collect()) {
                Ok((new, _dup)) => {
                    if new < distinct.len() {
                        ineffective.store(true, Ordering::SeqCst);
                    }
                    Res::Ok
                }
                Err(x) => e(x),
            }
        }
        Op::Delete { kg, rel, rows } => {
            let distinct: BTreeSet<&Row> = rows.iter().collect();
            match st.delete_tuples_from(kg, rel, rows.iter().map(|r| itup(r)).collect()) {
                Ok(n) => {
                    if n < distinct.len() {
                        ineffective.store(true, Ordering::SeqCst);
                    }
                    Res::Ok
                }
                Err(x) => e(x),
            }
        }
        Op::CreateKg(k) => st.create_knowledge_graph(k).map(|_| Res::Ok).unwrap_or_else(e),
        Op::DropKg(k) => st.drop_knowledge_graph(k).map(|_| Res::Ok).unwrap_or_else(e),
        Op::Save(k) => st.save_knowledge_graph(k).map(|_| Res::Ok).unwrap_or_else(e),
        Op::Compact => st.compact_all().map(|_| Res::Ok).unwrap_or_else(e),
        Op::AddRule { kg, rule } => match inputlayer::statement::parse_rule_definition(&rule.text()) {
            Ok(def) => st.register_rule_in(kg, &def).map(|_| Res::Ok).unwrap_or_else(e),
            Err(x) => Res::Err(format!("rule text rejected: {x}")),
        },
        Op::Query { kg, rel } => {
            let vars: Vec<String> = (0..ARITY).map(|i| format!("X{i}")).collect();
            let q = format!("__q({}) <- {}({})", vars.join(", "), rel, vars.join(", "));
            match st.execute_query_with_rules_tuples_on(kg, &q) {
                Ok(ts) => {
                    let mut out = BTreeSet::new();
                    for t in ts {
                        let row: Option<Row> = t.values().iter().map(|v| if let Value::Int64(i) = v { Some(*i) } else { None }).collect();
                        match row {
                            Some(r) => {
                                out.insert(r);
                            }
                            None => return Res::Err(format!("non-integer value in answer {t}")),
                        }
                    }
                    Res::Rows(out)
                }
                Err(x) => {
                    let m = x.to_string();
                    if m.contains("KnowledgeGraphNotFound") || m.to_lowercase().contains("knowledge graph") {
                        Res::Err(m)
                    } else {
                        // a relation nobody has written yet is unknown to the engine: an empty answer
                        Res::Rows(BTreeSet::new())
                    }
                }
            }
        }
    }
}

/// The state the engine serves: every knowledge graph's base relations as the published
/// snapshot holds them (what queries read).
pub fn observe(st: &StorageEngine) -> Result<State, String> {
    let mut out = State::default();
    for kg in st.list_knowledge_graphs() {
        let snap = st.get_snapshot_for(&kg).map_err(|e| format!("snapshot of {kg}: {e}"))?;
        let mut rels: BTreeMap<String, BTreeSet<Row>> = BTreeMap::new();
        for (name, tuples) in snap.input_tuples.iter() {
            let mut set = BTreeSet::new();
            for t in tuples {
                let row: Option<Row> = t.values().iter().map(|v| if let Value::Int64(i) = v { Some(*i) } else { None }).collect();
                set.insert(row.ok_or_else(|| format!("non-integer tuple {t} in {kg}.{name}"))?);
            }
            if set.len() != tuples.len() {
                return Err(format!("relation {kg}.{name} holds a tuple twice: {tuples:?}"));
            }
            if !set.is_empty() {
                rels.insert(name.clone(), set);
            }
        }
        out.kgs.insert(kg, rels);
    }
    Ok(out)
}

fn copy_dir(from: &Path, to: &Path) -> std::io::Result<()> {
    std::fs::create_dir_all(to)?;
    for e in std::fs::read_dir(from)? {
        let e = e?;
        let p = e.path();
        let dst = to.join(e.file_name());
        if e.file_type()?.is_dir() {
            copy_dir(&p, &dst)?;
        } else {
            std::fs::copy(&p, &dst)?;
        }
    }
    Ok(())
}

fn fingerprint(dir: &Path, h: &mut std::collections::hash_map::DefaultHasher) {
    use std::hash::Hash;
    let mut names: Vec<PathBuf> = std::fs::read_dir(dir).map(|d| d.filter_map(|e| e.ok().map(|e| e.path())).collect()).unwrap_or_default();
    names.sort();
    for p in names {
        p.file_name().hash(h);
        if p.is_dir() {
            fingerprint(&p, h);
        } else {
            std::fs::read(&p).unwrap_or_default().hash(h);
        }
    }
}

pub struct Image {
    pub step: usize,
    pub site: &'static str,
    pub events: usize,
    pub dir: PathBuf,
}

pub struct Outcome {
    pub info: RunInfo,
    pub history: Vec<HOp>,
    pub log: Arc<Log>,
    pub init_state: State,
    pub served: Result<State, String>,
    pub restarted: Result<State, String>,
    /// (image, recovered state or the error recovery ended with)
    pub images: Vec<(Image, Result<State, String>)>,
    pub ineffective: bool,
    pub panicked: bool,
}

/// Run the case. `with_images`: take and recover process-crash images at every scheduling step.
pub fn run_case(tag: &str, c: &ConcCase, with_images: bool) -> Result<Outcome, String> {
    let scratch = Scratch::new(tag);
    let data = scratch.path.join("data");
    let imgs = scratch.path.join("img");
    std::fs::create_dir_all(&data).map_err(|e| e.to_string())?;
    let bs = c.buffer_size;
    let open = |dir: &Path| open_store(dir, |cfg| cfg.storage.persist.buffer_size = bs);
    let st = Arc::new(open(&data)?);
    let ineffective = Arc::new(AtomicBool::new(false));
    for op in &c.init {
        let _ = exec_op(&st, op, &ineffective);
    }
    let init_state = observe(&st)?;
    let log = Arc::new(Log::default());
    let images: Arc<parking_lot::Mutex<Vec<Image>>> = Arc::new(parking_lot::Mutex::new(Vec::new()));
    let hook: Option<sched::StepHook> = if with_images {
        let (log, images, data, imgs) = (log.clone(), images.clone(), data.clone(), imgs.clone());
        let mut last: Option<(u64, usize)> = None;
        Some(Box::new(move |step, trace| {
            use std::hash::Hasher;
            let mut h = std::collections::hash_map::DefaultHasher::new();
            fingerprint(&data, &mut h);
            let key = (h.finish(), log.len());
            if last == Some(key) {
                return;
            }
            last = Some(key);
            let dir = imgs.join(format!("{step}"));
            if copy_dir(&data, &dir).is_ok() {
                images.lock().push(Image { step, site: trace[step].site, events: key.1, dir });
            }
        }))
    } else {
        None
    };
    let bodies: Vec<Box<dyn FnOnce(usize) -> () + Send>> = c
        .threads
        .iter()
        .map(|ops| {
            let (st, log, ops, ineffective) = (st.clone(), log.clone(), ops.clone(), ineffective.clone());
            Box::new(move |tid: usize| {
                for (i, op) in ops.iter().enumerate() {
                    log.inv(tid, i, op);
                    let r = exec_op(&st, op, &ineffective);
                    log.ret(tid, i, r);
                }
            }) as Box<dyn FnOnce(usize) -> () + Send>
        })
        .collect();
    let (results, info) = sched::run(c.schedule.clone(), bodies, if c.free { None } else { hook }, Duration::from_secs(60), c.free, c.sticky);
    let panicked = results.iter().any(|r| r.is_none()) && !info.stuck;
    let history = log.history(usize::MAX);
    let served = observe(&st);
    if info.stuck {
        // threads may still hold the engine: leak it rather than block on them
        std::mem::forget(st);
        std::mem::forget(scratch);
        return Ok(Outcome { info, history, log, init_state, served, restarted: Err("stuck".into()), images: Vec::new(), ineffective: ineffective.load(Ordering::SeqCst), panicked });
    }
    drop(st);
    let restarted = open(&data).and_then(|s| observe(&s));
    let mut out_images = Vec::new();
    if with_images {
        let taken: Vec<Image> = std::mem::take(&mut *images.lock());
        let mut seen: BTreeSet<(u64, usize)> = BTreeSet::new();
        for im in taken {
            use std::hash::Hasher;
            let mut h = std::collections::hash_map::DefaultHasher::new();
            fingerprint(&im.dir, &mut h);
            if !seen.insert((h.finish(), im.events)) {
                continue;
            }
            // shard metadata holds absolute batch paths: recover at the original location
            let _ = std::fs::remove_dir_all(&data);
            copy_dir(&im.dir, &data).map_err(|e| e.to_string())?;
            let rec = crate::common::runner::guarded(|| open(&data).and_then(|s| observe(&s))).unwrap_or_else(|p| Err(format!("recovery panicked: {p}")));
            out_images.push((im, rec));
        }
    }
    Ok(Outcome { info, history, log, init_state, served, restarted, images: out_images, ineffective: ineffective.load(Ordering::SeqCst), panicked })
}

/// Check a state against the history: is there a linearization after which the model equals it?
pub fn explains(init: &State, ops: &[HOp], seen: &State) -> bool {
    let mut want = seen.clone();
    want.normalise();
    lin::linearize(init, ops, &|s| {
        let mut s = s.clone();
        s.normalise();
        s == want
    })
    .is_some()
}
