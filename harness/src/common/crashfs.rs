//! E3 — crash-state engine: parses the mutation log written by shim/fsrec.so, rebuilds directory
//! images from any prefix of it (process-crash model, incl. torn writes) or with unsynced
//! suffixes dropped (power-loss model), at the ORIGINAL absolute path.

use std::collections::{BTreeMap, BTreeSet};
use std::path::{Path, PathBuf};

#[derive(Clone, Debug, PartialEq, Eq)]
pub enum Rec {
    Open { path: String, creat: bool, trunc: bool, existed: bool },
    Write { path: String, off: u64, data: Vec<u8> },
    Truncate { path: String, len: u64 },
    Rename { from: String, to: String },
    Unlink(String),
    Mkdir(String),
    Rmdir(String),
    SyncFile(String),
    SyncDir(String),
    Marker(String),
}

fn unhex(s: &str) -> Vec<u8> {
    let b = s.as_bytes();
    let v = |c: u8| -> u8 {
        match c {
            b'0'..=b'9' => c - b'0',
            b'a'..=b'f' => c - b'a' + 10,
            _ => 0,
        }
    };
    (0..b.len() / 2).map(|i| (v(b[2 * i]) << 4) | v(b[2 * i + 1])).collect()
}

pub fn parse_log(path: &Path) -> Result<Vec<Rec>, String> {
    let text = std::fs::read_to_string(path).map_err(|e| format!("read log {}: {e}", path.display()))?;
    let mut out = Vec::new();
    for line in text.lines() {
        if line.len() < 2 {
            continue;
        }
        let (k, rest) = line.split_at(2);
        let rec = match k {
            "O " => {
                let mut it = rest.splitn(3, ' ');
                let flags = u32::from_str_radix(it.next().unwrap_or("0"), 16).unwrap_or(0);
                let existed = it.next() == Some("1");
                let p = it.next().unwrap_or("").to_string();
                Rec::Open { path: p, creat: flags & (libc::O_CREAT as u32) != 0, trunc: flags & (libc::O_TRUNC as u32) != 0, existed }
            }
            "W " => {
                let mut it = rest.splitn(3, ' ');
                let off = it.next().unwrap_or("0").parse().unwrap_or(0);
                let data = unhex(it.next().unwrap_or(""));
                Rec::Write { path: it.next().unwrap_or("").to_string(), off, data }
            }
            "T " => {
                let mut it = rest.splitn(2, ' ');
                let len = it.next().unwrap_or("0").parse().unwrap_or(0);
                Rec::Truncate { path: it.next().unwrap_or("").to_string(), len }
            }
            "R " => {
                let mut it = rest.splitn(2, '\t');
                Rec::Rename { from: it.next().unwrap_or("").to_string(), to: it.next().unwrap_or("").to_string() }
            }
            "U " => Rec::Unlink(rest.to_string()),
            "D " => Rec::Mkdir(rest.to_string()),
            "X " => Rec::Rmdir(rest.to_string()),
            "S " => Rec::SyncFile(rest.to_string()),
            "Y " => Rec::SyncDir(rest.to_string()),
            "M " => Rec::Marker(rest.to_string()),
            _ => continue,
        };
        out.push(rec);
    }
    Ok(out)
}

/// In-memory file tree.
#[derive(Clone, Debug, Default)]
pub struct Vfs {
    pub files: BTreeMap<String, Vec<u8>>,
    pub dirs: BTreeSet<String>,
}

impl Vfs {
    pub fn apply(&mut self, r: &Rec) {
        match r {
            Rec::Open { path, creat, trunc, .. } => {
                if *creat && !self.files.contains_key(path) {
                    self.files.insert(path.clone(), Vec::new());
                }
                if *trunc {
                    if let Some(f) = self.files.get_mut(path) {
                        f.clear();
                    }
                }
            }
            Rec::Write { path, off, data } => {
                let f = self.files.entry(path.clone()).or_default();
                let end = *off as usize + data.len();
                if f.len() < end {
                    f.resize(end, 0);
                }
                f[*off as usize..end].copy_from_slice(data);
            }
            Rec::Truncate { path, len } => {
                if let Some(f) = self.files.get_mut(path) {
                    f.resize(*len as usize, 0);
                }
            }
            Rec::Rename { from, to } => {
                if let Some(f) = self.files.remove(from) {
                    self.files.insert(to.clone(), f);
                } else if self.dirs.contains(from) {
                    // directory rename: move the whole subtree
                    let prefix = format!("{from}/");
                    let moved: Vec<(String, Vec<u8>)> = self.files.iter().filter(|(k, _)| k.starts_with(&prefix)).map(|(k, v)| (k.clone(), v.clone())).collect();
                    for (k, v) in moved {
                        self.files.remove(&k);
                        self.files.insert(format!("{to}/{}", &k[prefix.len()..]), v);
                    }
                    let dmoved: Vec<String> = self.dirs.iter().filter(|d| *d == from || d.starts_with(&prefix)).cloned().collect();
                    for d in dmoved {
                        self.dirs.remove(&d);
                        self.dirs.insert(if d == *from { to.clone() } else { format!("{to}/{}", &d[prefix.len()..]) });
                    }
                }
            }
            Rec::Unlink(p) => {
                self.files.remove(p);
            }
            Rec::Mkdir(p) => {
                self.dirs.insert(p.clone());
            }
            Rec::Rmdir(p) => {
                self.dirs.remove(p);
            }
            Rec::SyncFile(_) | Rec::SyncDir(_) | Rec::Marker(_) => {}
        }
    }

    /// Write the tree below `root` (which is wiped first).
    pub fn materialize(&self, root: &Path) -> Result<(), String> {
        let _ = std::fs::remove_dir_all(root);
        std::fs::create_dir_all(root).map_err(|e| e.to_string())?;
        for d in &self.dirs {
            std::fs::create_dir_all(d).map_err(|e| format!("mkdir {d}: {e}"))?;
        }
        for (p, data) in &self.files {
            if let Some(parent) = Path::new(p).parent() {
                std::fs::create_dir_all(parent).map_err(|e| format!("mkdir {}: {e}", parent.display()))?;
            }
            std::fs::write(p, data).map_err(|e| format!("write {p}: {e}"))?;
        }
        Ok(())
    }
}

/// One crash image: which records are applied, and how.
#[derive(Clone, Debug)]
pub struct Cut {
    /// records [0, upto) are applied completely
    pub upto: usize,
    /// if Some(n): record `upto` is a write and only its first n bytes reach the file
    pub torn: Option<usize>,
    /// power-loss model: indices (< upto) of records dropped because they were never synced
    pub dropped: BTreeSet<usize>,
}

pub fn build(log: &[Rec], cut: &Cut) -> Vfs {
    let mut v = Vfs::default();
    for (i, r) in log.iter().enumerate().take(cut.upto) {
        if cut.dropped.contains(&i) {
            continue;
        }
        v.apply(r);
    }
    if let (Some(n), Some(Rec::Write { path, off, data })) = (cut.torn, log.get(cut.upto)) {
        v.apply(&Rec::Write { path: path.clone(), off: *off, data: data[..n.min(data.len())].to_vec() });
    }
    v
}

/// Process-crash cut points: after every record, plus torn variants of every write.
pub fn process_crash_cuts(log: &[Rec]) -> Vec<Cut> {
    // A run of >= 8 consecutive writes that extend the same file (an unbuffered serializer emitting
    // a JSON document token by token) is one logical write: it is cut before its first record,
    // after its first, in the middle, before its last and after its last record (each with the
    // torn variants of the record there) instead of after every token.
    let mut skip = vec![false; log.len() + 1];
    let mut i = 0;
    while i < log.len() {
        if let Rec::Write { path, off, data } = &log[i] {
            let mut j = i;
            let mut end = *off + data.len() as u64;
            while let Some(Rec::Write { path: p2, off: o2, data: d2 }) = log.get(j + 1) {
                if p2 == path && *o2 == end {
                    end += d2.len() as u64;
                    j += 1;
                } else {
                    break;
                }
            }
            if j - i + 1 >= 8 {
                let mid = i + (j - i) / 2;
                for k in i + 1..=j {
                    if k != i + 1 && k != mid && k != j {
                        skip[k] = true;
                    }
                }
            }
            i = j + 1;
        } else {
            i += 1;
        }
    }
    let mut cuts = Vec::new();
    for i in 0..=log.len() {
        if skip[i] {
            continue;
        }
        // a cut right after a marker or sync adds no new state: skip cuts whose last record changed nothing
        if i > 0 && matches!(log[i - 1], Rec::Marker(_) | Rec::SyncFile(_) | Rec::SyncDir(_)) && i != log.len() {
            continue;
        }
        cuts.push(Cut { upto: i, torn: None, dropped: BTreeSet::new() });
        if let Some(Rec::Write { data, .. }) = log.get(i) {
            let mut lens = BTreeSet::new();
            if data.len() > 1 {
                lens.insert(1);
                lens.insert(data.len() / 2);
                lens.insert(data.len() - 1);
            }
            for n in lens {
                cuts.push(Cut { upto: i, torn: Some(n), dropped: BTreeSet::new() });
            }
        }
    }
    cuts
}

/// Power-loss variants of a cut at `upto`: for each file the suffix of data written since its
/// last fsync may be missing; for each directory the suffix of entry operations (create, rename,
/// unlink, mkdir, rmdir) since the last fsync of that directory may be missing. `choice` selects
/// the variant: bit i of choice decides for the i-th object (file or directory with unsynced
/// operations) whether its whole unsynced suffix is dropped (a coarse but valid subset of what
/// POSIX permits; `frac` additionally keeps a prefix of each dropped suffix: 0 = drop all).
pub fn power_loss_cut(log: &[Rec], upto: usize, choice: u64, keep_frac_num: usize) -> Cut {
    fn parent(p: &str) -> String {
        Path::new(p).parent().map(|x| x.display().to_string()).unwrap_or_default()
    }
    // unsynced data records per file, unsynced entry records per directory
    let mut file_unsynced: BTreeMap<String, Vec<usize>> = BTreeMap::new();
    let mut dir_unsynced: BTreeMap<String, Vec<usize>> = BTreeMap::new();
    for (i, r) in log.iter().enumerate().take(upto) {
        match r {
            Rec::Write { path, .. } | Rec::Truncate { path, .. } => file_unsynced.entry(path.clone()).or_default().push(i),
            Rec::Open { path, creat, trunc, existed } => {
                if *trunc {
                    file_unsynced.entry(path.clone()).or_default().push(i);
                }
                if *creat && !*existed {
                    dir_unsynced.entry(parent(path)).or_default().push(i);
                }
            }
            Rec::SyncFile(p) => {
                file_unsynced.remove(p);
            }
            Rec::SyncDir(p) => {
                dir_unsynced.remove(p);
            }
            Rec::Rename { from, to } => {
                dir_unsynced.entry(parent(to)).or_default().push(i);
                if parent(from) != parent(to) {
                    dir_unsynced.entry(parent(from)).or_default().push(i);
                }
                // data follows the inode: pending data of `from` now belongs to `to`
                if let Some(v) = file_unsynced.remove(from) {
                    file_unsynced.entry(to.clone()).or_default().extend(v);
                }
            }
            Rec::Unlink(p) | Rec::Mkdir(p) | Rec::Rmdir(p) => dir_unsynced.entry(parent(p)).or_default().push(i),
            Rec::Marker(_) => {}
        }
    }
    let mut dropped = BTreeSet::new();
    let mut bit = 0;
    for (_, idxs) in file_unsynced.iter().chain(dir_unsynced.iter()) {
        if choice >> (bit % 64) & 1 == 1 {
            let keep = idxs.len() * keep_frac_num / 4;
            for i in idxs.iter().skip(keep) {
                dropped.insert(*i);
            }
        }
        bit += 1;
    }
    // a dropped file creation drops everything done to that file afterwards
    let mut never_created: BTreeSet<String> = BTreeSet::new();
    for (i, r) in log.iter().enumerate().take(upto) {
        match r {
            Rec::Open { path, creat: true, existed: false, .. } if dropped.contains(&i) => {
                never_created.insert(path.clone());
            }
            Rec::Open { path, creat: true, .. } if !dropped.contains(&i) => {
                never_created.remove(path);
            }
            Rec::Write { path, .. } | Rec::Truncate { path, .. } if never_created.contains(path) => {
                dropped.insert(i);
            }
            Rec::Rename { from, .. } if never_created.contains(from) => {
                dropped.insert(i);
            }
            _ => {}
        }
    }
    Cut { upto, torn: None, dropped }
}

pub fn markers_before(log: &[Rec], upto: usize, prefix: &str) -> usize {
    log.iter().take(upto).filter(|r| matches!(r, Rec::Marker(m) if m.starts_with(prefix))).count()
}

pub fn shim_path() -> PathBuf {
    PathBuf::from("/verif/shim/fsrec.so")
}

/// Emit a marker from inside a workload child (intercepted by the shim; a no-op without it).
pub fn marker(text: &str) {
    let _ = std::fs::create_dir(format!("/__fsrec__/{text}"));
}
