//! State digest of a Handler's persistent state (facts, rules, schemas, indexes of every KG incl.
//! `_internal`, and the KG list). Used by the authorization checks (C27-C29) and by C30 to decide
//! whether a request changed anything.

use inputlayer::protocol::Handler;
use std::collections::BTreeMap;

pub type Digest = BTreeMap<String, String>;

pub fn digest(h: &Handler) -> Digest {
    let mut d = Digest::new();
    let st = h.get_storage();
    let mut kgs = st.list_knowledge_graphs();
    kgs.sort();
    d.insert("kgs".into(), kgs.join(","));
    for kg in &kgs {
        if let Ok(snap) = st.get_snapshot_for(kg) {
            for (rel, tuples) in snap.input_tuples.iter() {
                if tuples.is_empty() {
                    continue;
                }
                let mut rows: Vec<String> = tuples.iter().map(|t| format!("{t:?}")).collect();
                rows.sort();
                d.insert(format!("{kg}/facts/{rel}"), rows.join(";"));
            }
        }
        if let Ok(mut rules) = st.list_rules_in(kg) {
            rules.sort();
            for r in rules {
                let text = st.describe_rule_in(kg, &r).ok().flatten().unwrap_or_default();
                d.insert(format!("{kg}/rule/{r}"), text);
            }
        }
        if let Ok(mut schemas) = st.list_schemas_in(kg) {
            schemas.sort();
            for s in schemas {
                let text = st.get_schema_in(kg, &s).ok().flatten().map(|x| format!("{x:?}")).unwrap_or_default();
                d.insert(format!("{kg}/schema/{s}"), text);
            }
        }
    }
    drop(st);
    for kg in &kgs {
        drop_guard_indexes(h, kg, &mut d);
    }
    d
}

fn drop_guard_indexes(h: &Handler, kg: &str, d: &mut Digest) {
    if let Ok(ix) = h.list_indexes(kg) {
        let mut names: Vec<String> = ix.iter().map(|i| format!("{i:?}")).collect();
        names.sort();
        if !names.is_empty() {
            d.insert(format!("{kg}/indexes"), names.join(";"));
        }
    }
}

/// keys whose value differs between two digests (or exists in only one)
pub fn diff(a: &Digest, b: &Digest) -> Vec<String> {
    let mut out = Vec::new();
    for (k, v) in a {
        if b.get(k) != Some(v) {
            out.push(k.clone());
        }
    }
    for k in b.keys() {
        if !a.contains_key(k) {
            out.push(k.clone());
        }
    }
    out.sort();
    out.dedup();
    out
}

/// Entries of the digest that belong to knowledge graph `kg`.
pub fn kg_part(d: &Digest, kg: &str) -> Digest {
    let p = format!("{kg}/");
    d.iter().filter(|(k, _)| k.starts_with(&p)).map(|(k, v)| (k.clone(), v.clone())).collect()
}
