//! Adapters that run harness-side cases through the real engine entry points.

use super::gen::Case;
use super::prog::{KRow, N};
use inputlayer::value::{Tuple, Value};
use inputlayer::{IQLEngine, OptimizationConfig};
use std::collections::BTreeSet;
use std::sync::atomic::{AtomicBool, Ordering};
use std::sync::{Arc, Mutex, OnceLock};
use std::time::{Duration, Instant};

pub fn opt_config(mask: u8) -> OptimizationConfig {
    OptimizationConfig {
        enable_join_planning: mask & 1 != 0,
        enable_sip_rewriting: mask & 2 != 0,
        enable_subplan_sharing: mask & 4 != 0,
        enable_boolean_specialization: mask & 8 != 0,
        enable_magic_sets: mask & 16 != 0,
    }
}
pub const OPT_DEFAULT: u8 = 31;

/// resident-set size above which every running engine call is cancelled (counted as discarded)
pub const MEM_LIMIT_BYTES: u64 = 12 * 1024 * 1024 * 1024;

type WatchList = Mutex<Vec<(Instant, Arc<AtomicBool>, Arc<AtomicBool>)>>;
static WATCH: OnceLock<Arc<WatchList>> = OnceLock::new();

fn watch_list() -> Arc<WatchList> {
    WATCH
        .get_or_init(|| {
            let l: Arc<WatchList> = Arc::new(Mutex::new(Vec::new()));
            let l2 = l.clone();
            std::thread::Builder::new()
                .name("verif-watchdog".into())
                .spawn(move || loop {
                    std::thread::sleep(Duration::from_millis(20));
                    let now = Instant::now();
                    // memory guard: a runaway fixpoint can exhaust RAM long before its deadline
                    let rss_pages: u64 = std::fs::read_to_string("/proc/self/statm")
                        .ok()
                        .and_then(|s| s.split_whitespace().nth(1).and_then(|x| x.parse().ok()))
                        .unwrap_or(0);
                    let over = rss_pages * 4096 > MEM_LIMIT_BYTES;
                    let mut g = l2.lock().unwrap();
                    g.retain(|(deadline, cancel, fired)| {
                        if over || now >= *deadline {
                            fired.store(true, Ordering::SeqCst);
                            cancel.store(true, Ordering::SeqCst);
                            false
                        } else {
                            Arc::strong_count(cancel) > 1
                        }
                    });
                })
                .expect("watchdog thread");
            l
        })
        .clone()
}

/// Run `f` on this thread with the engine's cooperative cancel flag armed by a watchdog.
/// Returns (result, watchdog_fired).
pub fn with_watchdog<R>(secs: u64, f: impl FnOnce() -> R) -> (R, bool) {
    let cancel = Arc::new(AtomicBool::new(false));
    let fired = Arc::new(AtomicBool::new(false));
    watch_list().lock().unwrap().push((Instant::now() + Duration::from_secs(secs), cancel.clone(), fired.clone()));
    inputlayer::code_generator::set_query_cancel_flag(Some(cancel.clone()));
    let r = f();
    inputlayer::code_generator::set_query_cancel_flag(None);
    drop(cancel);
    (r, fired.load(Ordering::SeqCst))
}

pub fn int_tuple(row: &[i64]) -> Tuple {
    Tuple::new(row.iter().map(|v| Value::Int64(*v)).collect())
}

pub fn load_edb(engine: &mut IQLEngine, case: &Case) {
    for (rel, rows) in &case.edb {
        if rows.is_empty() {
            continue;
        }
        engine.add_tuples(rel, rows.iter().map(|r| int_tuple(r)).collect());
    }
}

#[derive(Debug)]
pub enum EngErr {
    /// the engine returned Err for the program
    Rejected(String),
    Watchdog,
}

pub struct RunCfg {
    pub mask: u8,
    pub workers: usize,
    pub max_rows: usize,
    /// run without arming the engine's cancel flag (as a plain `IQLEngine` API user does); only for
    /// programs already known to terminate
    pub no_cancel: bool,
}

impl Default for RunCfg {
    fn default() -> Self {
        RunCfg { mask: OPT_DEFAULT, workers: 1, max_rows: 0, no_cancel: false }
    }
}

/// `IQLEngine::execute_tuples` on program text + EDB.
pub fn run_iql_text(text: &str, case: &Case, cfg: &RunCfg) -> Result<Vec<Tuple>, EngErr> {
    let mut engine = IQLEngine::with_config(opt_config(cfg.mask));
    engine.set_num_workers(cfg.workers);
    engine.set_max_result_rows(cfg.max_rows);
    load_edb(&mut engine, case);
    if cfg.no_cancel {
        return engine.execute_tuples(text).map_err(EngErr::Rejected);
    }
    let (r, fired) = with_watchdog(20, || engine.execute_tuples(text));
    if fired {
        return Err(EngErr::Watchdog);
    }
    r.map_err(EngErr::Rejected)
}

pub fn run_iql(case: &Case, cfg: &RunCfg) -> Result<Vec<Tuple>, EngErr> {
    run_iql_text(&case.prog.text(), case, cfg)
}

pub fn value_key(v: &Value) -> Result<(i64, i64), String> {
    match v {
        Value::Int32(i) => Ok((*i as i64, 0)),
        Value::Int64(i) => Ok((*i, 0)),
        Value::Float64(x) => Ok(N::F(*x).key()),
        other => Err(format!("non-numeric value {other:?} in answer")),
    }
}

pub fn tuple_key(t: &Tuple) -> Result<KRow, String> {
    t.values().iter().map(value_key).collect()
}

/// Engine answer as a set of canonical rows, plus the raw row count (for duplicate detection).
pub fn key_set(ts: &[Tuple]) -> Result<BTreeSet<KRow>, String> {
    ts.iter().map(tuple_key).collect()
}

pub fn short_err(e: &str) -> String {
    // bucket engine error messages: strip quoted/numeric detail
    let mut s: String = e.chars().take(70).collect();
    if let Some(p) = s.find(':') {
        s.truncate(p);
    }
    s
}

pub fn diff_sets(got: &BTreeSet<KRow>, exp: &BTreeSet<KRow>) -> (Vec<KRow>, Vec<KRow>) {
    let missing: Vec<KRow> = exp.difference(got).take(5).cloned().collect();
    let extra: Vec<KRow> = got.difference(exp).take(5).cloned().collect();
    (missing, extra)
}
