//! G-prog / G-edb: construction-based generator of stratified programs and small EDBs, decoded
//! from a proptest-generated choice tape (so the whole case shrinks as one value and every
//! generated program is well-formed by construction).

use super::prog::*;
use proptest::prelude::*;
use serde::{Deserialize, Serialize};
use std::collections::{BTreeMap, BTreeSet};

pub struct Tape<'a> {
    t: &'a [u16],
    i: usize,
}

impl<'a> Tape<'a> {
    pub fn new(t: &'a [u16]) -> Self {
        Tape { t, i: 0 }
    }
    pub fn next(&mut self) -> u16 {
        let v = self.t.get(self.i).copied().unwrap_or(0);
        self.i += 1;
        v
    }
    /// uniform-ish choice in 0..n, monotone in the tape value (0 -> 0)
    pub fn below(&mut self, n: usize) -> usize {
        if n <= 1 {
            self.next();
            return 0;
        }
        ((self.next() as usize) * n) >> 16
    }
    /// true with probability num/den (false on a zero tape)
    pub fn chance(&mut self, num: u32, den: u32) -> bool {
        let v = self.next() as u32;
        // high values -> true, so that a shrunk (zero) tape takes the "no" branch
        v >= 65536 - (65536 * num / den).min(65536)
    }
    pub fn range(&mut self, lo: i64, hi: i64) -> i64 {
        lo + self.below((hi - lo + 1) as usize) as i64
    }
}

pub fn tape_strategy(len: usize) -> impl Strategy<Value = Vec<u16>> {
    proptest::collection::vec(any::<u16>(), len..=len)
}

#[derive(Clone, Debug, Serialize, Deserialize)]
pub struct GenOpts {
    pub max_idb: usize,
    pub max_clauses_per_rel: usize,
    pub max_body_atoms: usize,
    pub dom: i64,
    pub max_edb_rows: usize,
    pub negation: bool,
    pub self_recursion: bool,
    pub mutual_recursion: bool,
    pub aggregates: bool,
    pub arithmetic: bool,
    pub comparisons: bool,
    pub head_constants: bool,
    pub wildcards: bool,
    pub body_constants: bool,
    pub query_constants: bool,
    /// probability weights (x/16)
    pub p_recursion: u32,
    /// allow `_` in the body of aggregate clauses
    #[serde(default)]
    pub agg_wildcards: bool,
}

impl Default for GenOpts {
    fn default() -> Self {
        GenOpts {
            max_idb: 4,
            max_clauses_per_rel: 3,
            max_body_atoms: 3,
            dom: 5,
            max_edb_rows: 8,
            negation: true,
            self_recursion: true,
            mutual_recursion: true,
            aggregates: true,
            arithmetic: true,
            comparisons: true,
            head_constants: true,
            wildcards: true,
            body_constants: true,
            query_constants: true,
            p_recursion: 5,
            agg_wildcards: false,
        }
    }
}

#[derive(Clone, Debug, Serialize, Deserialize)]
pub struct Case {
    pub prog: Program,
    pub edb: Edb,
    /// arities of all relations mentioned (EDB relations may be empty)
    pub arity: BTreeMap<String, usize>,
}

impl Case {
    pub fn text(&self) -> String {
        self.prog.text()
    }
}

/// Feature vector of a program (for class histograms, non-triviality rules and known-finding
/// signatures).
#[derive(Clone, Debug, Default, Serialize)]
pub struct Features {
    pub join: bool,
    pub join_under_multi_clause_head: bool,
    pub self_recursion: bool,
    pub mutual_recursion: bool,
    pub negation: bool,
    pub negation_over_idb: bool,
    pub aggregate: bool,
    pub arithmetic: bool,
    pub comparison: bool,
    pub head_constant: bool,
    pub body_constant: bool,
    pub repeated_var_in_atom: bool,
    pub wildcard: bool,
    pub multi_clause_head: bool,
    pub query_binds_constant: bool,
    pub strata: usize,
    pub clauses: usize,
    pub cross_product: bool,
    pub recursive_with_negation: bool,
    pub agg_over_idb: bool,
    /// an aggregate head term is followed by a plain (group) term
    pub agg_not_last: bool,
}

pub fn features(p: &Program) -> Features {
    let deps = Deps::of(&p.clauses);
    let heads = p.heads();
    let mut f = Features { clauses: p.clauses.len(), strata: deps.sccs.len(), ..Default::default() };
    let mut per_head: BTreeMap<&str, usize> = BTreeMap::new();
    for c in &p.clauses {
        *per_head.entry(c.head.as_str()).or_default() += 1;
    }
    for c in &p.clauses {
        let pos: Vec<&Atom> = c.body.iter().filter_map(|l| if let Lit::Pos(a) = l { Some(a) } else { None }).collect();
        let multi = per_head[c.head.as_str()] > 1;
        if multi {
            f.multi_clause_head = true;
        }
        if pos.len() >= 2 {
            f.join = true;
            if multi {
                f.join_under_multi_clause_head = true;
            }
            // cross product: some atom shares no variable with the others
            for (i, a) in pos.iter().enumerate() {
                let va: BTreeSet<u8> = a.args.iter().filter_map(|t| if let T::V(v) = t { Some(*v) } else { None }).collect();
                let others: BTreeSet<u8> = pos
                    .iter()
                    .enumerate()
                    .filter(|(j, _)| *j != i)
                    .flat_map(|(_, b)| b.args.iter().filter_map(|t| if let T::V(v) = t { Some(*v) } else { None }))
                    .collect();
                if va.is_disjoint(&others) {
                    f.cross_product = true;
                }
            }
        }
        let mut rec_here = false;
        for l in &c.body {
            match l {
                Lit::Pos(a) => {
                    if a.rel == c.head {
                        f.self_recursion = true;
                        rec_here = true;
                    } else if deps.same_scc(&a.rel, &c.head) {
                        f.mutual_recursion = true;
                        rec_here = true;
                    }
                    if c.has_agg() && heads.contains(&a.rel) {
                        f.agg_over_idb = true;
                    }
                }
                Lit::Neg(a) => {
                    f.negation = true;
                    if heads.contains(&a.rel) {
                        f.negation_over_idb = true;
                    }
                }
                Lit::Cmp(..) => f.comparison = true,
                Lit::Bind(..) => f.arithmetic = true,
            }
            if let Lit::Pos(a) | Lit::Neg(a) = l {
                let mut seen = BTreeSet::new();
                for t in &a.args {
                    match t {
                        T::V(v) => {
                            if !seen.insert(*v) {
                                f.repeated_var_in_atom = true;
                            }
                        }
                        T::C(_) => f.body_constant = true,
                        T::W => f.wildcard = true,
                    }
                }
            }
        }
        if rec_here && c.body.iter().any(|l| matches!(l, Lit::Neg(_))) {
            f.recursive_with_negation = true;
        }
        let mut seen_agg = false;
        for h in &c.hargs {
            match h {
                HT::Agg(..) => seen_agg = true,
                _ => {
                    if seen_agg {
                        f.agg_not_last = true;
                    }
                }
            }
        }
        for h in &c.hargs {
            match h {
                HT::C(_) => f.head_constant = true,
                HT::A(_) => f.arithmetic = true,
                HT::Agg(..) => f.aggregate = true,
                HT::V(_) => {}
            }
        }
    }
    let q = p.query();
    f.query_binds_constant = q.body.iter().any(|l| matches!(l, Lit::Pos(a) if a.args.iter().any(|t| matches!(t, T::C(_)))));
    f
}

impl Features {
    pub fn classes(&self) -> Vec<&'static str> {
        let mut v = Vec::new();
        macro_rules! c {
            ($f:ident) => {
                if self.$f {
                    v.push(stringify!($f));
                }
            };
        }
        c!(join);
        c!(join_under_multi_clause_head);
        c!(self_recursion);
        c!(mutual_recursion);
        c!(negation);
        c!(negation_over_idb);
        c!(aggregate);
        c!(arithmetic);
        c!(comparison);
        c!(head_constant);
        c!(body_constant);
        c!(repeated_var_in_atom);
        c!(wildcard);
        c!(multi_clause_head);
        c!(query_binds_constant);
        c!(cross_product);
        c!(recursive_with_negation);
        c!(agg_over_idb);
        c!(agg_not_last);
        v
    }
}

struct RelInfo {
    name: String,
    arity: usize,
    /// columns that may hold non-integer values (avg) and must not be compared/joined
    float_cols: BTreeSet<usize>,
}

/// Decode one program + EDB from a tape.
pub fn decode(tape: &[u16], o: &GenOpts) -> Case {
    let mut t = Tape::new(tape);
    let n_edb = 1 + t.below(3);
    let mut rels: Vec<RelInfo> = Vec::new();
    for i in 0..n_edb {
        rels.push(RelInfo { name: format!("e{i}"), arity: 1 + t.below(3), float_cols: BTreeSet::new() });
    }
    let n_idb = 1 + t.below(o.max_idb);
    // plan IDB relations: arity, group (planned SCC id) — consecutive relations may share a group
    let mut idb: Vec<(String, usize, usize)> = Vec::new();
    let mut group = 0usize;
    for i in 0..n_idb {
        if i > 0 && !(o.mutual_recursion && t.chance(2, 16)) {
            group += 1;
        } else if i > 0 {
            // same group as previous
        }
        idb.push((format!("p{i}"), 1 + t.below(3), group));
    }
    // mutual groups need equal treatment: every member must be referenced from another member to form a
    // cycle; we force a cycle below.
    let mut clauses: Vec<Clause> = Vec::new();
    let mut done: Vec<RelInfo> = Vec::new(); // IDB relations of strictly lower groups (complete)
    let mut gi = 0usize;
    while gi < idb.len() {
        let g = idb[gi].2;
        let members: Vec<usize> = (gi..idb.len()).take_while(|&j| idb[j].2 == g).collect();
        let is_mutual = members.len() > 1;
        for (mi, &j) in members.iter().enumerate() {
            let (name, arity, _) = idb[j].clone();
            let aggregate_rel = o.aggregates && !is_mutual && t.chance(2, 16);
            if aggregate_rel {
                let c = gen_agg_clause(&mut t, o, &name, arity, &rels, &done);
                let mut fc = BTreeSet::new();
                for (k, h) in c.hargs.iter().enumerate() {
                    if matches!(h, HT::Agg(Agg::Avg, _)) {
                        fc.insert(k);
                    }
                }
                clauses.push(c);
                idb[j].1 = arity;
                // registered after the group
                done.push(RelInfo { name, arity, float_cols: fc });
                continue;
            }
            let n_cl = 1 + t.below(o.max_clauses_per_rel);
            let mut produced = 0;
            for ci in 0..n_cl {
                // recursion choice
                let mut rec_targets: Vec<(String, usize)> = Vec::new();
                if is_mutual {
                    // clause 0 of each member references the next member (forces the cycle);
                    // later clauses are base cases / free
                    if ci == 0 {
                        let nxt = members[(mi + 1) % members.len()];
                        rec_targets.push((idb[nxt].0.clone(), idb[nxt].1));
                    }
                } else if o.self_recursion && ci > 0 && t.chance(o.p_recursion, 16) {
                    rec_targets.push((name.clone(), arity));
                }
                let recursive_clause = !rec_targets.is_empty();
                let c = gen_clause(&mut t, o, &name, arity, &rels, &done, &rec_targets, recursive_clause || is_mutual);
                clauses.push(c);
                produced += 1;
            }
            let _ = produced;
        }
        // for a mutual group make sure at least one member has a non-recursive base clause
        if is_mutual {
            let j = members[0];
            let (name, arity, _) = idb[j].clone();
            let c = gen_clause(&mut t, o, &name, arity, &rels, &done, &[], true);
            clauses.push(c);
        }
        for &j in &members {
            if !done.iter().any(|r| r.name == idb[j].0) {
                done.push(RelInfo { name: idb[j].0.clone(), arity: idb[j].1, float_cols: BTreeSet::new() });
            }
        }
        gi += members.len();
    }
    // query clause over the last IDB relation (or a chosen one)
    let target = &done[done.len() - 1 - t.below(done.len().min(2))];
    let mut args = Vec::new();
    let mut hargs = Vec::new();
    let mut nv = 0u8;
    for k in 0..target.arity {
        if o.query_constants && !target.float_cols.contains(&k) && t.chance(2, 16) {
            args.push(T::C(t.range(0, o.dom - 1)));
        } else {
            args.push(T::V(nv));
            hargs.push(HT::V(nv));
            nv += 1;
        }
    }
    if hargs.is_empty() {
        // keep at least one output column
        args[0] = T::V(0);
        hargs.push(HT::V(0));
    }
    clauses.push(Clause { head: "q".into(), hargs, body: vec![Lit::Pos(Atom { rel: target.name.clone(), args })] });

    // EDB
    let mut edb: Edb = BTreeMap::new();
    let mut arity = BTreeMap::new();
    for r in &rels {
        arity.insert(r.name.clone(), r.arity);
        let n = t.below(o.max_edb_rows + 1);
        let mut rows = BTreeSet::new();
        for _ in 0..n {
            let row: Row = (0..r.arity).map(|_| t.range(0, o.dom - 1)).collect();
            rows.insert(row);
        }
        edb.insert(r.name.clone(), rows.into_iter().collect());
    }
    for r in &done {
        arity.insert(r.name.clone(), r.arity);
    }
    arity.insert("q".into(), clauses.last().unwrap().hargs.len());
    Case { prog: Program { clauses }, edb, arity }
}

fn pick_rel<'a>(t: &mut Tape, edb: &'a [RelInfo], done: &'a [RelInfo]) -> &'a RelInfo {
    let n = edb.len() + done.len();
    let i = t.below(n);
    if i < edb.len() {
        &edb[i]
    } else {
        &done[i - edb.len()]
    }
}

#[allow(clippy::too_many_arguments)]
fn gen_clause(
    t: &mut Tape,
    o: &GenOpts,
    head: &str,
    arity: usize,
    edb: &[RelInfo],
    done: &[RelInfo],
    rec_targets: &[(String, usize)],
    in_recursive_scc: bool,
) -> Clause {
    let mut body: Vec<Lit> = Vec::new();
    let mut bound: Vec<u8> = Vec::new(); // integer-valued bound variables
    let mut nextv = 0u8;
    let n_atoms = 1 + t.below(o.max_body_atoms);
    let mut atoms: Vec<(String, usize, BTreeSet<usize>)> = Vec::new();
    for (r, a) in rec_targets {
        atoms.push((r.clone(), *a, BTreeSet::new()));
    }
    while atoms.len() < n_atoms.max(rec_targets.len()) {
        let mut r = pick_rel(t, edb, done);
        if r.float_cols.len() == r.arity {
            // a relation holding only avg (float) columns cannot bind an integer variable
            r = &edb[0];
        }
        atoms.push((r.name.clone(), r.arity, r.float_cols.clone()));
    }
    // randomise position of the recursive atom
    if atoms.len() > 1 && t.chance(8, 16) {
        atoms.rotate_left(1);
    }
    for (rel, ar, fcols) in &atoms {
        let mut args = Vec::new();
        for k in 0..*ar {
            if fcols.contains(&k) {
                // float (avg) column: fresh variable used nowhere else, or wildcard
                args.push(T::W);
                continue;
            }
            let c = t.below(16);
            if !bound.is_empty() && c < 6 {
                args.push(T::V(bound[t.below(bound.len())]));
            } else if o.body_constants && c == 6 {
                args.push(T::C(t.range(0, o.dom - 1)));
            } else if o.wildcards && c == 7 {
                args.push(T::W);
            } else {
                let v = nextv;
                nextv += 1;
                args.push(T::V(v));
                bound.push(v);
            }
        }
        body.push(Lit::Pos(Atom { rel: rel.clone(), args }));
    }
    if bound.is_empty() {
        // make sure at least one variable exists: turn the first non-float argument into a variable
        'outer: for (bi, l) in body.iter_mut().enumerate() {
            if let Lit::Pos(a) = l {
                for k in 0..a.args.len() {
                    if !atoms[bi].2.contains(&k) {
                        a.args[k] = T::V(nextv);
                        bound.push(nextv);
                        nextv += 1;
                        break 'outer;
                    }
                }
            }
        }
    }
    // arithmetic binding (only outside recursive SCCs so the value domain stays finite)
    let mut extra: Vec<u8> = Vec::new();
    if o.arithmetic && !in_recursive_scc && t.chance(3, 16) {
        let e = gen_arith(t, o, &bound);
        let v = nextv;
        nextv += 1;
        body.push(Lit::Bind(v, e));
        extra.push(v);
    }
    if o.comparisons && t.chance(4, 16) {
        let a = T::V(bound[t.below(bound.len())]);
        let op = Op::ALL[t.below(6)];
        let b = if t.chance(8, 16) && bound.len() > 1 { T::V(bound[t.below(bound.len())]) } else { T::C(t.range(0, o.dom - 1)) };
        body.push(Lit::Cmp(a, op, b));
    }
    if o.negation && t.chance(4, 16) {
        // negated atom over EDB or a completed (strictly lower) IDB relation; all args bound/const/_
        let r = pick_rel(t, edb, done);
        let mut args = Vec::new();
        let mut any_var = false;
        for k in 0..r.arity {
            if r.float_cols.contains(&k) {
                args.push(T::W);
                continue;
            }
            let c = t.below(8);
            if c < 6 {
                args.push(T::V(bound[t.below(bound.len())]));
                any_var = true;
            } else if c == 6 && o.body_constants {
                args.push(T::C(t.range(0, o.dom - 1)));
            } else if o.wildcards {
                args.push(T::W);
            } else {
                args.push(T::V(bound[t.below(bound.len())]));
                any_var = true;
            }
        }
        if !any_var {
            if let Some(k) = (0..r.arity).find(|k| !r.float_cols.contains(k)) {
                args[k] = T::V(bound[0]);
                any_var = true;
            }
        }
        if any_var {
            body.push(Lit::Neg(Atom { rel: r.name.clone(), args }));
        }
    }
    // head
    let mut hargs = Vec::new();
    let pool: Vec<u8> = bound.iter().chain(extra.iter()).copied().collect();
    for k in 0..arity {
        let c = t.below(16);
        if o.head_constants && c == 0 && k > 0 {
            hargs.push(HT::C(t.range(0, o.dom - 1)));
        } else if o.arithmetic && !in_recursive_scc && c == 1 {
            hargs.push(HT::A(gen_arith(t, o, &bound)));
        } else if !extra.is_empty() && c < 6 {
            hargs.push(HT::V(extra[0]));
        } else {
            hargs.push(HT::V(pool[t.below(pool.len())]));
        }
    }
    Clause { head: head.to_string(), hargs, body }
}

fn gen_arith(t: &mut Tape, o: &GenOpts, bound: &[u8]) -> AE {
    let leaf = |t: &mut Tape| -> AE {
        if t.chance(11, 16) {
            AE::V(bound[t.below(bound.len())])
        } else {
            AE::C(t.range(1, o.dom))
        }
    };
    let op = |t: &mut Tape| [AOp::Add, AOp::Sub, AOp::Mul, AOp::Mod][t.below(4)];
    let l = AE::V(bound[t.below(bound.len())]);
    let o1 = op(t);
    let r = if o1 == AOp::Mod { AE::C(t.range(1, o.dom)) } else { leaf(t) };
    let e = AE::Bin(Box::new(l), o1, Box::new(r));
    if t.chance(3, 16) {
        let o2 = op(t);
        let r2 = if o2 == AOp::Mod { AE::C(t.range(1, o.dom)) } else { leaf(t) };
        AE::Bin(Box::new(e), o2, Box::new(r2))
    } else {
        e
    }
}

fn gen_agg_clause(t: &mut Tape, o: &GenOpts, head: &str, arity: usize, edb: &[RelInfo], done: &[RelInfo]) -> Clause {
    // body: like an ordinary non-recursive clause without arithmetic head
    let mut o2 = o.clone();
    o2.arithmetic = false;
    o2.head_constants = false;
    // `_` inside an aggregate body: the two readings of "distinct valuations" (with or without
    // anonymous variables) differ; that ambiguity is C06's business (agg_wildcards), not C01's
    o2.wildcards = o.agg_wildcards;
    let base = gen_clause(t, &o2, head, arity, edb, done, &[], false);
    let mut vars: Vec<u8> = Vec::new();
    for l in &base.body {
        if let Lit::Pos(a) = l {
            for x in &a.args {
                if let T::V(v) = x {
                    if !vars.contains(v) {
                        vars.push(*v);
                    }
                }
            }
        }
    }
    // head: some group variables (distinct) and 1-2 aggregates
    let n_agg = if arity >= 2 && t.chance(3, 16) { 2 } else { 1 };
    let n_grp = arity.saturating_sub(n_agg);
    let mut hargs = Vec::new();
    let mut used = BTreeSet::new();
    for _ in 0..n_grp {
        let v = vars[t.below(vars.len())];
        used.insert(v);
        hargs.push(HT::V(v));
    }
    let mut aggs = Vec::new();
    for _ in 0..(arity - n_grp) {
        let f = Agg::ALL[t.below(6)];
        let v = vars[t.below(vars.len())];
        aggs.push(HT::Agg(f, v));
    }
    // aggregate position: anywhere
    let pos = if hargs.is_empty() { 0 } else { t.below(hargs.len() + 1) };
    for (i, a) in aggs.into_iter().enumerate() {
        hargs.insert((pos + i).min(hargs.len()), a);
    }
    Clause { head: head.to_string(), hargs, body: base.body }
}

pub fn case_strategy(o: GenOpts) -> impl Strategy<Value = Case> {
    tape_strategy(160).prop_map(move |tape| decode(&tape, &o))
}

/// C06's generator: ONE aggregation rule over EDB relations (1-3 body atoms, joins that multiply
/// bindings, optional filter/negation, wildcards when `agg_wildcards`), values repeated on purpose
/// (small domain), plus the query clause that returns the aggregate relation unchanged.
pub fn decode_agg_case(tape: &[u16], o: &GenOpts) -> Case {
    let mut t = Tape::new(tape);
    let n_edb = 1 + t.below(3);
    let mut rels: Vec<RelInfo> = Vec::new();
    for i in 0..n_edb {
        rels.push(RelInfo { name: format!("e{i}"), arity: 1 + t.below(3), float_cols: BTreeSet::new() });
    }
    let arity = 1 + t.below(3);
    let agg = gen_agg_clause(&mut t, o, "p0", arity, &rels, &[]);
    let hv: Vec<u8> = (0..arity as u8).collect();
    let q = Clause {
        head: "q".into(),
        hargs: hv.iter().map(|v| HT::V(*v)).collect(),
        body: vec![Lit::Pos(Atom { rel: "p0".into(), args: hv.iter().map(|v| T::V(*v)).collect() })],
    };
    let mut edb: Edb = BTreeMap::new();
    let mut ar = BTreeMap::new();
    for r in &rels {
        ar.insert(r.name.clone(), r.arity);
        let n = t.below(o.max_edb_rows + 1);
        let mut rows = BTreeSet::new();
        for _ in 0..n {
            let row: Row = (0..r.arity).map(|_| t.range(0, o.dom - 1)).collect();
            rows.insert(row);
        }
        edb.insert(r.name.clone(), rows.into_iter().collect());
    }
    ar.insert("p0".into(), arity);
    ar.insert("q".into(), arity);
    Case { prog: Program { clauses: vec![agg, q] }, edb, arity: ar }
}

// ------------------------------------------------------------------------------------------------
// Structural shrinker (delta debugging on the decoded case; applied after proptest's tape shrink).

fn clause_safe(c: &Clause) -> bool {
    let mut bound: BTreeSet<u8> = BTreeSet::new();
    for l in &c.body {
        if let Lit::Pos(a) = l {
            for t in &a.args {
                if let T::V(v) = t {
                    bound.insert(*v);
                }
            }
        }
    }
    if !c.body.iter().any(|l| matches!(l, Lit::Pos(_))) {
        return false;
    }
    // binds
    let mut changed = true;
    while changed {
        changed = false;
        for l in &c.body {
            if let Lit::Bind(v, e) = l {
                let mut vs = BTreeSet::new();
                e.vars(&mut vs);
                if vs.iter().all(|x| bound.contains(x)) && bound.insert(*v) {
                    changed = true;
                }
            }
        }
    }
    for l in &c.body {
        match l {
            Lit::Neg(a) => {
                for t in &a.args {
                    if let T::V(v) = t {
                        if !bound.contains(v) {
                            return false;
                        }
                    }
                }
            }
            Lit::Cmp(a, _, b) => {
                for t in [a, b] {
                    if let T::V(v) = t {
                        if !bound.contains(v) {
                            return false;
                        }
                    }
                }
            }
            Lit::Bind(v, e) => {
                let mut vs = BTreeSet::new();
                e.vars(&mut vs);
                if !vs.iter().all(|x| bound.contains(x)) || !bound.contains(v) {
                    return false;
                }
            }
            Lit::Pos(_) => {}
        }
    }
    for h in &c.hargs {
        match h {
            HT::V(v) | HT::Agg(_, v) => {
                if !bound.contains(v) {
                    return false;
                }
            }
            HT::A(e) => {
                let mut vs = BTreeSet::new();
                e.vars(&mut vs);
                if !vs.iter().all(|x| bound.contains(x)) {
                    return false;
                }
            }
            HT::C(_) => {}
        }
    }
    true
}

fn program_closed(case: &Case) -> bool {
    // every body relation is an EDB relation or has at least one clause
    let heads = case.prog.heads();
    case.prog.clauses.iter().all(|c| {
        clause_safe(c)
            && c.body.iter().all(|l| match l {
                Lit::Pos(a) | Lit::Neg(a) => heads.contains(&a.rel) || case.edb.contains_key(&a.rel),
                _ => true,
            })
    })
}

pub fn shrink_case(case: &Case, still_fails: &dyn Fn(&Case) -> bool) -> Case {
    let mut cur = case.clone();
    let mut budget = 600usize;
    loop {
        let mut improved = false;
        // 1. drop a non-query clause
        let mut i = 0;
        while i + 1 < cur.prog.clauses.len() && budget > 0 {
            let mut c2 = cur.clone();
            c2.prog.clauses.remove(i);
            budget -= 1;
            if program_closed(&c2) && still_fails(&c2) {
                cur = c2;
                improved = true;
            } else {
                i += 1;
            }
        }
        // 2. drop a body literal
        for ci in 0..cur.prog.clauses.len() {
            let mut li = 0;
            while li < cur.prog.clauses[ci].body.len() && budget > 0 {
                let mut c2 = cur.clone();
                c2.prog.clauses[ci].body.remove(li);
                budget -= 1;
                if program_closed(&c2) && still_fails(&c2) {
                    cur = c2;
                    improved = true;
                } else {
                    li += 1;
                }
            }
        }
        // 3. drop EDB rows
        let rels: Vec<String> = cur.edb.keys().cloned().collect();
        for r in rels {
            let mut ri = 0;
            while ri < cur.edb[&r].len() && budget > 0 {
                let mut c2 = cur.clone();
                c2.edb.get_mut(&r).unwrap().remove(ri);
                budget -= 1;
                if still_fails(&c2) {
                    cur = c2;
                    improved = true;
                } else {
                    ri += 1;
                }
            }
        }
        // 4. simplify head terms (arith/const -> plain variable is not always possible; try
        //    replacing arithmetic head terms by their first variable)
        for ci in 0..cur.prog.clauses.len() {
            for hi in 0..cur.prog.clauses[ci].hargs.len() {
                if budget == 0 {
                    break;
                }
                if let HT::A(e) = &cur.prog.clauses[ci].hargs[hi] {
                    let mut vs = BTreeSet::new();
                    e.vars(&mut vs);
                    if let Some(v) = vs.iter().next() {
                        let mut c2 = cur.clone();
                        c2.prog.clauses[ci].hargs[hi] = HT::V(*v);
                        budget -= 1;
                        if still_fails(&c2) {
                            cur = c2;
                            improved = true;
                        }
                    }
                }
            }
        }
        if !improved || budget == 0 {
            break;
        }
    }
    cur
}


/// The query clause in the form the protocol handler generates for `?rel(args)`:
/// `__query__(_c0, A) <- rel(_c0, A), _c0 = 4` (all columns of the target relation are returned).
pub fn handler_style_program(case: &Case) -> Program {
    let mut p = case.prog.clone();
    let q = p.clauses.pop().expect("query clause");
    let Lit::Pos(goal) = &q.body[0] else { unreachable!() };
    let mut head = Vec::new();
    let mut args = Vec::new();
    let mut extra = Vec::new();
    for (i, t) in goal.args.iter().enumerate() {
        match t {
            T::V(v) => {
                head.push(var_name(*v));
                args.push(var_name(*v));
            }
            T::C(c) => {
                head.push(format!("_c{i}"));
                args.push(format!("_c{i}"));
                extra.push(format!("_c{i} = {c}"));
            }
            T::W => {
                head.push(format!("_p{i}"));
                args.push(format!("_p{i}"));
            }
        }
    }
    let mut body = vec![format!("{}({})", goal.rel, args.join(", "))];
    body.extend(extra);
    // rendered through a raw clause: keep it as text in a synthetic clause name
    p.clauses.push(Clause { head: format!("__RAW__{} <- {}", format!("__query__({})", head.join(", ")), body.join(", ")), hargs: vec![], body: vec![] });
    p
}

pub fn handler_style_text(case: &Case) -> String {
    let p = handler_style_program(case);
    let n = p.clauses.len();
    let mut lines: Vec<String> = p.clauses[..n - 1].iter().map(Clause::text).collect();
    lines.push(p.clauses[n - 1].head.trim_start_matches("__RAW__").to_string());
    lines.join("\n")
}

/// Reference rows for the handler-style query: full rows of the goal relation that match the
/// goal's constants and repeated variables.
pub fn handler_style_expected(case: &Case, model: &Model) -> BTreeSet<KRow> {
    let q = case.prog.query();
    let Lit::Pos(goal) = &q.body[0] else { unreachable!() };
    model
        .db
        .get(&goal.rel)
        .cloned()
        .unwrap_or_default()
        .into_iter()
        .filter(|row| {
            let mut env = BTreeMap::new();
            goal.args.iter().zip(row).all(|(t, v)| match t {
                T::C(c) => (*c, 0) == *v,
                T::V(x) => *env.entry(*x).or_insert(*v) == *v,
                T::W => true,
            })
        })
        .collect()
}


/// Root cause shared by several properties: mutually recursive relations are not evaluated to a
/// fixpoint (known finding C01-mutual-recursion) and their answers then depend on rule order.
pub const K_MUTUAL: &str = "C01-mutual-recursion";

/// While that finding is open, programs with mutual recursion are excluded by construction
/// (counted as excluded_known) in the properties it also affects.
pub fn exclude_mutual(ctx: &crate::common::Ctx, f: &Features, obs: &mut crate::common::Obs) -> bool {
    if f.mutual_recursion && ctx.is_open_known(K_MUTUAL) {
        obs.excluded_known = Some(K_MUTUAL.into());
        return true;
    }
    false
}
