//! G-hist: write histories over a small tuple domain, the set model R3 (what the relations must
//! contain, what each write must report) and the "logged-diff" model used to recognise the
//! signature of the known recovery finding.

use super::gen::Tape;
use super::store::{itup, read_relation_set, KG};
use super::val::{ints, VT};
use inputlayer::StorageEngine;
use serde::{Deserialize, Serialize};
use std::collections::{BTreeMap, BTreeSet};

pub type Row = Vec<i64>;

#[derive(Clone, Debug, Serialize, Deserialize, PartialEq, Eq, Hash)]
pub enum Op {
    /// bulk insert (may contain in-batch duplicates)
    Insert(String, Vec<Row>),
    Delete(String, Vec<Row>),
    /// StorageEngine::save_all (flush every shard)
    Save,
    /// StorageEngine::compact_all
    Compact,
    /// StorageEngine::save_knowledge_graph
    SaveKg,
    /// clean restart: save_all, drop the engine, StorageEngine::new on the same directory
    Restart,
    /// restart without a preceding save (WAL replay path); still a clean process exit
    RestartNoSave,
}

impl Op {
    pub fn short(&self) -> String {
        match self {
            Op::Insert(r, t) => format!("+{r}{t:?}"),
            Op::Delete(r, t) => format!("-{r}{t:?}"),
            Op::Save => "save".into(),
            Op::Compact => "compact".into(),
            Op::SaveKg => "savekg".into(),
            Op::Restart => "restart".into(),
            Op::RestartNoSave => "restart_nosave".into(),
        }
    }
    pub fn is_restart(&self) -> bool {
        matches!(self, Op::Restart | Op::RestartNoSave)
    }
    pub fn is_maintenance(&self) -> bool {
        !matches!(self, Op::Insert(..) | Op::Delete(..))
    }
}

pub const ARITY: usize = 2;

/// R3 restricted to facts of one KG: relation -> set of rows.
#[derive(Clone, Debug, Default, PartialEq, Eq)]
pub struct SetModel {
    pub rels: BTreeMap<String, BTreeSet<Row>>,
    /// persisted sum of +1/-1 per requested update (the logged-diff reading)
    pub logged: BTreeMap<String, BTreeMap<Row, i64>>,
    /// true once the history performed an ineffective write (duplicate insert / absent delete)
    pub ineffective_seen: bool,
}

#[derive(Clone, Debug, PartialEq, Eq)]
pub enum Expect {
    /// (new, duplicates)
    Inserted(usize, usize),
    Deleted(usize),
    None,
}

impl SetModel {
    pub fn apply(&mut self, op: &Op) -> Expect {
        match op {
            Op::Insert(r, rows) => {
                let set = self.rels.entry(r.clone()).or_default();
                let log = self.logged.entry(r.clone()).or_default();
                let (mut new, mut dup) = (0, 0);
                for row in rows {
                    *log.entry(row.clone()).or_default() += 1;
                    if set.insert(row.clone()) {
                        new += 1;
                    } else {
                        dup += 1;
                        self.ineffective_seen = true;
                    }
                }
                Expect::Inserted(new, dup)
            }
            Op::Delete(r, rows) => {
                let set = self.rels.entry(r.clone()).or_default();
                let log = self.logged.entry(r.clone()).or_default();
                let mut n = 0;
                for row in rows {
                    *log.entry(row.clone()).or_default() -= 1;
                    if set.remove(row) {
                        n += 1;
                    } else {
                        self.ineffective_seen = true;
                    }
                }
                Expect::Deleted(n)
            }
            _ => Expect::None,
        }
    }
    /// what a recovery that sums the logged diffs would produce
    pub fn logged_state(&self) -> BTreeMap<String, BTreeSet<Row>> {
        self.logged.iter().map(|(r, m)| (r.clone(), m.iter().filter(|(_, d)| **d > 0).map(|(t, _)| t.clone()).collect())).collect()
    }
    pub fn nonempty(&self) -> BTreeMap<String, BTreeSet<Row>> {
        self.rels.iter().filter(|(_, s)| !s.is_empty()).map(|(r, s)| (r.clone(), s.clone())).collect()
    }
}

pub fn strip_empty(m: &BTreeMap<String, BTreeSet<Row>>) -> BTreeMap<String, BTreeSet<Row>> {
    m.iter().filter(|(_, s)| !s.is_empty()).map(|(r, s)| (r.clone(), s.clone())).collect()
}

/// Read the live contents of the given relations through the public query path.
pub fn live_state(st: &StorageEngine, rels: &[String]) -> Result<BTreeMap<String, BTreeSet<Row>>, String> {
    let mut out = BTreeMap::new();
    for r in rels {
        let rows = read_relation_set(st, KG, r, ARITY)?;
        let mut set = BTreeSet::new();
        for t in rows {
            let row: Option<Row> = t.iter().map(|v| if let crate::common::val::V::I64(i) = v { Some(*i) } else { None }).collect();
            match row {
                Some(r) => {
                    set.insert(r);
                }
                None => return Err(format!("non-integer value read back from {r}: {t:?}")),
            }
        }
        if !set.is_empty() {
            out.insert(r.clone(), set);
        }
    }
    Ok(out)
}

/// Apply one write op to the engine; returns what it reported.
pub fn apply_engine(st: &StorageEngine, op: &Op) -> Result<Expect, String> {
    match op {
        Op::Insert(r, rows) => st.insert_tuples_into(KG, r, rows.iter().map(|x| itup(x)).collect()).map(|(n, d)| Expect::Inserted(n, d)).map_err(|e| e.to_string()),
        Op::Delete(r, rows) => st.delete_tuples_from(KG, r, rows.iter().map(|x| itup(x)).collect()).map(Expect::Deleted).map_err(|e| e.to_string()),
        Op::Save => st.save_all().map(|_| Expect::None).map_err(|e| e.to_string()),
        Op::Compact => st.compact_all().map(|_| Expect::None).map_err(|e| e.to_string()),
        Op::SaveKg => st.save_knowledge_graph(KG).map(|_| Expect::None).map_err(|e| e.to_string()),
        Op::Restart | Op::RestartNoSave => Ok(Expect::None),
    }
}

pub const RELS: [&str; 2] = ["r0", "r1"];

pub fn domain_rows() -> Vec<Row> {
    vec![vec![1, 1], vec![1, 2], vec![2, 1], vec![3, 7]]
}

/// Random history decoded from a tape: up to `max_len` ops.
pub fn decode_history(t: &mut Tape, max_len: usize, n_rels: usize, n_rows: usize, maintenance: bool) -> Vec<Op> {
    let dom = domain_rows();
    let len = 1 + t.below(max_len);
    let mut ops = Vec::new();
    for _ in 0..len {
        let rel = RELS[t.below(n_rels)].to_string();
        let k = t.below(if maintenance { 14 } else { 8 });
        let row = |t: &mut Tape| dom[t.below(n_rows)].clone();
        ops.push(match k {
            0..=2 => Op::Insert(rel, vec![row(t)]),
            3 => {
                let n = 2 + t.below(3);
                Op::Insert(rel, (0..n).map(|_| row(t)).collect())
            }
            4..=6 => Op::Delete(rel, vec![row(t)]),
            7 => {
                let n = 2 + t.below(2);
                Op::Delete(rel, (0..n).map(|_| row(t)).collect())
            }
            8 => Op::Save,
            9 => Op::Compact,
            10 => Op::SaveKg,
            11 | 12 => Op::Restart,
            _ => Op::RestartNoSave,
        });
    }
    ops
}

pub fn vt_rows(rows: &BTreeSet<Row>) -> BTreeSet<VT> {
    rows.iter().map(|r| ints(r)).collect()
}
