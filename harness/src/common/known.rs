//! Known-findings file (/verif/known_findings.json): committed, never written at run time.

use serde::Deserialize;
use serde_json::Value as J;

#[derive(Clone, Debug, Deserialize)]
pub struct Known {
    pub property: String,
    pub id: String,
    /// "open" or "fixed"
    pub status: String,
    pub what: String,
    #[serde(default)]
    pub signature: String,
    #[serde(default)]
    pub commit: Option<String>,
    #[serde(default)]
    pub witness: Option<J>,
    /// other properties whose generators are steered away from this root cause while it is open
    /// (cases are counted as excluded there; the KNOWN-FINDING line is printed by `property` only)
    #[serde(default)]
    pub also_affects: Vec<String>,
}

#[derive(Clone, Debug, Default, Deserialize)]
pub struct KnownSet {
    #[serde(default)]
    pub findings: Vec<Known>,
}

impl KnownSet {
    pub fn load() -> Self {
        let path = std::env::var("VERIF_KNOWN").unwrap_or_else(|_| "/verif/known_findings.json".to_string());
        match std::fs::read_to_string(&path) {
            Ok(s) => serde_json::from_str(&s).unwrap_or_else(|e| {
                eprintln!("known_findings.json does not parse: {e}");
                std::process::exit(2);
            }),
            Err(_) => KnownSet::default(),
        }
    }
    pub fn open(&self, prop: &str) -> Vec<&Known> {
        self.findings.iter().filter(|k| (k.property == prop || k.also_affects.iter().any(|p| p == prop)) && k.status == "open").collect()
    }
    pub fn all(&self, prop: &str) -> Vec<Known> {
        self.findings.iter().filter(|k| k.property == prop).cloned().collect()
    }
    pub fn is_open(&self, prop: &str, id: &str) -> bool {
        self.open(prop).iter().any(|k| k.id == id)
    }
}
