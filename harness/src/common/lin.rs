//! History checker for the schedule-driven properties (C15, C17, C20): a sequential model of the
//! storage engine's knowledge graphs and a linearizability search (Wing & Gong style DFS with
//! memoisation) over a recorded history of invocations and responses.

use serde::{Deserialize, Serialize};
use std::collections::{BTreeMap, BTreeSet, HashSet};

pub type Row = Vec<i64>;
pub type Rel = BTreeSet<Row>;

/// kg -> relation -> rows (empty relations are not represented)
#[derive(Clone, Debug, Default, PartialEq, Eq, Hash, PartialOrd, Ord, Serialize, Deserialize)]
pub struct State {
    pub kgs: BTreeMap<String, BTreeMap<String, Rel>>,
    /// kg -> clauses of the derived relation `d` (C20 only; not part of observed states)
    #[serde(default)]
    pub rules: BTreeMap<String, Vec<RuleKind>>,
}

/// The clauses the schedule checks register for the derived relation `d`.
#[derive(Clone, Debug, PartialEq, Eq, Hash, PartialOrd, Ord, Serialize, Deserialize)]
pub enum RuleKind {
    /// d(X, Y) <- r(X, Y)
    Copy(String),
    /// d(X, Y) <- a(X, Z), b(Z, Y)
    Join(String, String),
}

impl RuleKind {
    pub fn text(&self) -> String {
        match self {
            RuleKind::Copy(r) => format!("d(X, Y) <- {r}(X, Y)"),
            RuleKind::Join(a, b) => format!("d(X, Y) <- {a}(X, Z), {b}(Z, Y)"),
        }
    }
    fn eval(&self, rels: &BTreeMap<String, Rel>) -> Rel {
        let empty = Rel::new();
        match self {
            RuleKind::Copy(r) => rels.get(r).cloned().unwrap_or_default(),
            RuleKind::Join(a, b) => {
                let (ra, rb) = (rels.get(a).unwrap_or(&empty), rels.get(b).unwrap_or(&empty));
                let mut out = Rel::new();
                for x in ra {
                    for y in rb {
                        if x[1] == y[0] {
                            out.insert(vec![x[0], y[1]]);
                        }
                    }
                }
                out
            }
        }
    }
}

impl State {
    pub fn with_kgs(names: &[&str]) -> State {
        State { kgs: names.iter().map(|n| (n.to_string(), BTreeMap::new())).collect(), rules: BTreeMap::new() }
    }
    pub fn normalise(&mut self) {
        for rels in self.kgs.values_mut() {
            rels.retain(|_, r| !r.is_empty());
        }
    }
    pub fn render(&self) -> String {
        let mut s = String::new();
        for (k, rels) in &self.kgs {
            s.push_str(&format!("{k}{{"));
            for (r, rows) in rels {
                s.push_str(&format!("{r}:{rows:?} "));
            }
            s.push_str("} ");
        }
        s
    }
}

#[derive(Clone, Debug, PartialEq, Eq, Serialize, Deserialize)]
pub enum Op {
    Insert { kg: String, rel: String, rows: Vec<Row> },
    Delete { kg: String, rel: String, rows: Vec<Row> },
    CreateKg(String),
    DropKg(String),
    /// flush one knowledge graph's shards (no effect on the model)
    Save(String),
    /// compact every shard (no effect on the model)
    Compact,
    /// read a relation (base, or the derived relation `d`)
    Query { kg: String, rel: String },
    /// register one more clause for the derived relation `d`
    AddRule { kg: String, rule: RuleKind },
}

impl Op {
    pub fn text(&self) -> String {
        match self {
            Op::Insert { kg, rel, rows } => format!("insert {kg}.{rel} {rows:?}"),
            Op::Delete { kg, rel, rows } => format!("delete {kg}.{rel} {rows:?}"),
            Op::CreateKg(k) => format!("create_kg {k}"),
            Op::DropKg(k) => format!("drop_kg {k}"),
            Op::Save(k) => format!("save {k}"),
            Op::Compact => "compact_all".into(),
            Op::Query { kg, rel } => format!("query {kg}.{rel}"),
            Op::AddRule { kg, rule } => format!("rule {kg}: {}", rule.text()),
        }
    }
    pub fn is_write(&self) -> bool {
        matches!(self, Op::Insert { .. } | Op::Delete { .. } | Op::CreateKg(_) | Op::DropKg(_))
    }
}

/// What the engine answered (as far as the properties speak about it).
#[derive(Clone, Debug, PartialEq, Eq, Serialize, Deserialize)]
pub enum Res {
    Ok,
    Err(String),
    Rows(Rel),
}

impl Res {
    pub fn is_ok(&self) -> bool {
        !matches!(self, Res::Err(_))
    }
}

/// Apply `op` to the model; returns the model's answer class.
pub fn apply(st: &mut State, op: &Op) -> Res {
    match op {
        Op::Insert { kg, rel, rows } => match st.kgs.get_mut(kg) {
            Some(k) => {
                k.entry(rel.clone()).or_default().extend(rows.iter().cloned());
                Res::Ok
            }
            None => Res::Err("no such kg".into()),
        },
        Op::Delete { kg, rel, rows } => match st.kgs.get_mut(kg) {
            Some(k) => {
                if let Some(r) = k.get_mut(rel) {
                    for row in rows {
                        r.remove(row);
                    }
                    if r.is_empty() {
                        k.remove(rel);
                    }
                }
                Res::Ok
            }
            None => Res::Err("no such kg".into()),
        },
        Op::CreateKg(k) => {
            if st.kgs.contains_key(k) {
                Res::Err("exists".into())
            } else {
                st.kgs.insert(k.clone(), BTreeMap::new());
                Res::Ok
            }
        }
        Op::DropKg(k) => {
            st.rules.remove(k);
            if st.kgs.remove(k).is_some() {
                Res::Ok
            } else {
                Res::Err("no such kg".into())
            }
        }
        Op::Save(k) => {
            if st.kgs.contains_key(k) {
                Res::Ok
            } else {
                Res::Err("no such kg".into())
            }
        }
        Op::Compact => Res::Ok,
        Op::Query { kg, rel } => match st.kgs.get(kg) {
            Some(k) if rel == "d" => {
                let mut out = Rel::new();
                for r in st.rules.get(kg).map(|v| v.as_slice()).unwrap_or(&[]) {
                    out.extend(r.eval(k));
                }
                Res::Rows(out)
            }
            Some(k) => Res::Rows(k.get(rel).cloned().unwrap_or_default()),
            None => Res::Err("no such kg".into()),
        },
        Op::AddRule { kg, rule } => {
            if st.kgs.contains_key(kg) {
                let v = st.rules.entry(kg.clone()).or_default();
                if !v.contains(rule) {
                    v.push(rule.clone());
                }
                Res::Ok
            } else {
                Res::Err("no such kg".into())
            }
        }
    }
}

/// One operation of a history. `inv` / `ret` are positions in the global event order (`ret` =
/// None: still in flight when the history was cut; it may or may not have taken effect).
#[derive(Clone, Debug, Serialize)]
pub struct HOp {
    pub thread: usize,
    pub op: Op,
    pub inv: usize,
    pub ret: Option<(usize, Res)>,
}

/// Does the model's answer agree with the observed one? Errors are compared by class only
/// (Ok / Err); row sets exactly.
fn agrees(model: &Res, seen: &Res) -> bool {
    match (model, seen) {
        (Res::Rows(a), Res::Rows(b)) => a == b,
        (Res::Rows(_), Res::Ok) | (Res::Ok, Res::Rows(_)) => false,
        (a, b) => a.is_ok() == b.is_ok(),
    }
}

/// Search for a linearization of `ops` from `init` that respects real-time order (an operation
/// that returned before another was invoked comes first) and per-operation answers, and after which
/// `accept` holds for the model state. In-flight operations are optional and their answers are not
/// constrained. Returns the witness order (indices into `ops`) or None.
pub fn linearize(init: &State, ops: &[HOp], accept: &dyn Fn(&State) -> bool) -> Option<Vec<usize>> {
    assert!(ops.len() <= 20);
    let full_mask: u32 = ops.iter().enumerate().filter(|(_, o)| o.ret.is_some()).fold(0, |m, (i, _)| m | (1 << i));
    let mut seen: HashSet<(u32, State)> = HashSet::new();
    let mut order: Vec<usize> = Vec::new();
    fn dfs(st: &State, done: u32, ops: &[HOp], full: u32, accept: &dyn Fn(&State) -> bool, seen: &mut HashSet<(u32, State)>, order: &mut Vec<usize>) -> bool {
        if done & full == full && accept(st) {
            return true;
        }
        if !seen.insert((done, st.clone())) {
            return false;
        }
        // the earliest response among the completed operations not linearized yet: nothing invoked
        // after it may come before it
        let horizon = ops.iter().enumerate().filter(|(i, o)| done & (1 << i) == 0 && o.ret.is_some()).map(|(_, o)| o.ret.as_ref().map(|r| r.0).unwrap_or(usize::MAX)).min().unwrap_or(usize::MAX);
        for (i, o) in ops.iter().enumerate() {
            if done & (1 << i) != 0 || o.inv > horizon {
                continue;
            }
            // per-thread program order is implied by real-time order (a thread's next op is invoked
            // after its previous one returned)
            let mut st2 = st.clone();
            let r = apply(&mut st2, &o.op);
            if let Some((_, seen_res)) = &o.ret {
                if !agrees(&r, seen_res) {
                    continue;
                }
            }
            order.push(i);
            if dfs(&st2, done | (1 << i), ops, full, accept, seen, order) {
                return true;
            }
            order.pop();
        }
        false
    }
    if dfs(init, 0, ops, full_mask, accept, &mut seen, &mut order) {
        Some(order)
    } else {
        None
    }
}

/// All model states reachable at the end of some admissible linearization (for failure messages).
pub fn final_states(init: &State, ops: &[HOp], limit: usize) -> Vec<State> {
    let out = std::cell::RefCell::new(BTreeSet::new());
    let _ = linearize(init, ops, &|s| {
        let mut o = out.borrow_mut();
        if o.len() < limit {
            o.insert(s.clone());
        }
        false
    });
    out.into_inner().into_iter().collect()
}

/// Event log shared by the worker threads: positions in it are the global real-time order.
#[derive(Default)]
pub struct Log {
    events: parking_lot::Mutex<Vec<Ev>>,
}

#[derive(Clone, Debug)]
pub enum Ev {
    Inv { thread: usize, idx: usize, op: Op },
    Ret { thread: usize, idx: usize, res: Res },
}

impl Log {
    pub fn inv(&self, thread: usize, idx: usize, op: &Op) {
        self.events.lock().push(Ev::Inv { thread, idx, op: op.clone() });
    }
    pub fn ret(&self, thread: usize, idx: usize, res: Res) {
        self.events.lock().push(Ev::Ret { thread, idx, res });
    }
    pub fn len(&self) -> usize {
        self.events.lock().len()
    }
    /// The history made of the first `upto` events.
    pub fn history(&self, upto: usize) -> Vec<HOp> {
        let ev = self.events.lock();
        let mut ops: Vec<HOp> = Vec::new();
        let mut at: BTreeMap<(usize, usize), usize> = BTreeMap::new();
        for (pos, e) in ev.iter().take(upto).enumerate() {
            match e {
                Ev::Inv { thread, idx, op } => {
                    at.insert((*thread, *idx), ops.len());
                    ops.push(HOp { thread: *thread, op: op.clone(), inv: pos, ret: None });
                }
                Ev::Ret { thread, idx, res } => {
                    if let Some(i) = at.get(&(*thread, *idx)) {
                        ops[*i].ret = Some((pos, res.clone()));
                    }
                }
            }
        }
        ops
    }
}

pub fn render_history(ops: &[HOp]) -> String {
    let mut lines: Vec<(usize, String)> = Vec::new();
    for o in ops {
        lines.push((o.inv, format!("  [{}] T{} call {}", o.inv, o.thread, o.op.text())));
        if let Some((p, r)) = &o.ret {
            lines.push((*p, format!("  [{}] T{} ret  {} -> {:?}", p, o.thread, o.op.text(), r)));
        }
    }
    lines.sort();
    lines.into_iter().map(|l| l.1).collect::<Vec<_>>().join("\n")
}
