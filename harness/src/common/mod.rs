pub mod known;
pub mod runner;
pub mod val;
pub mod prog;
pub mod gen;
pub mod child;
pub mod eng;
pub mod store;
pub mod plan;
pub mod hist;
pub mod digest;
pub mod crashfs;
pub mod sched;
pub mod lin;
pub mod conc;

pub use runner::{CheckResult, Ctx, Fail, Obs, Tier};
pub use val::{V, VT};
