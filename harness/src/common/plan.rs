//! R2 — reference interpreter for IR plans over integer databases, bag semantics (multiplicities),
//! written from the documented operator meaning in `ir/mod.rs`. It never calls the engine's
//! executor or any rewrite pass.

use inputlayer::ast::{ArithExpr, ArithOp as AstOp, ComparisonOp};
use inputlayer::ir::{AggregateFunction, ArithOp, IRExpression, IRNode, Predicate};
use std::collections::{BTreeMap, BTreeSet, HashMap};

pub type Row = Vec<i64>;
/// integer rows with multiplicity; aggregates may add one float column (avg), kept as f64 bits in
/// a parallel representation
#[derive(Clone, Debug, PartialEq, Eq, PartialOrd, Ord)]
pub enum Cell {
    I(i64),
    /// f64 bits (avg results)
    F(u64),
}

pub type CRow = Vec<Cell>;
pub type Bag = BTreeMap<CRow, i64>;

#[derive(Debug)]
pub struct Unsupported(pub String);

type R<T> = Result<T, Unsupported>;

fn int(c: &Cell) -> R<i64> {
    match c {
        Cell::I(i) => Ok(*i),
        Cell::F(_) => Err(Unsupported("float cell in integer context".into())),
    }
}

fn cmp_op(op: &ComparisonOp, a: i64, b: i64) -> bool {
    match op {
        ComparisonOp::Equal => a == b,
        ComparisonOp::NotEqual => a != b,
        ComparisonOp::LessThan => a < b,
        ComparisonOp::LessOrEqual => a <= b,
        ComparisonOp::GreaterThan => a > b,
        ComparisonOp::GreaterOrEqual => a >= b,
    }
}

fn eval_arith(e: &ArithExpr, row: &CRow, map: &HashMap<String, usize>) -> R<i64> {
    match e {
        ArithExpr::Variable(v) => {
            let i = map.get(v).ok_or_else(|| Unsupported(format!("variable {v} not mapped")))?;
            int(row.get(*i).ok_or_else(|| Unsupported("column out of range".into()))?)
        }
        ArithExpr::Constant(c) => Ok(*c),
        ArithExpr::FloatConstant(_) => Err(Unsupported("float constant".into())),
        ArithExpr::Binary { op, left, right } => {
            let (a, b) = (eval_arith(left, row, map)?, eval_arith(right, row, map)?);
            match op {
                AstOp::Add => a.checked_add(b),
                AstOp::Sub => a.checked_sub(b),
                AstOp::Mul => a.checked_mul(b),
                AstOp::Mod => {
                    if b == 0 {
                        None
                    } else {
                        a.checked_rem(b)
                    }
                }
                AstOp::Div => None,
            }
            .ok_or_else(|| Unsupported("undefined arithmetic".into()))
        }
    }
}

pub fn eval_pred(p: &Predicate, row: &CRow) -> R<bool> {
    let col = |i: &usize| -> R<i64> { int(row.get(*i).ok_or_else(|| Unsupported(format!("predicate column {i} out of range ({} columns)", row.len())))?) };
    Ok(match p {
        Predicate::ColumnEqConst(c, v) => col(c)? == *v,
        Predicate::ColumnNeConst(c, v) => col(c)? != *v,
        Predicate::ColumnGtConst(c, v) => col(c)? > *v,
        Predicate::ColumnLtConst(c, v) => col(c)? < *v,
        Predicate::ColumnGeConst(c, v) => col(c)? >= *v,
        Predicate::ColumnLeConst(c, v) => col(c)? <= *v,
        Predicate::ColumnsEq(a, b) => col(a)? == col(b)?,
        Predicate::ColumnsNe(a, b) => col(a)? != col(b)?,
        Predicate::ColumnsLt(a, b) => col(a)? < col(b)?,
        Predicate::ColumnsGt(a, b) => col(a)? > col(b)?,
        Predicate::ColumnsLe(a, b) => col(a)? <= col(b)?,
        Predicate::ColumnsGe(a, b) => col(a)? >= col(b)?,
        Predicate::ColumnCompareArith(c, op, e, map) => cmp_op(op, col(c)?, eval_arith(e, row, map)?),
        Predicate::ArithCompareConst(e, op, v, map) => cmp_op(op, eval_arith(e, row, map)?, *v),
        Predicate::And(a, b) => eval_pred(a, row)? && eval_pred(b, row)?,
        Predicate::Or(a, b) => eval_pred(a, row)? || eval_pred(b, row)?,
        Predicate::True => true,
        Predicate::False => false,
        other => return Err(Unsupported(format!("predicate {other:?}"))),
    })
}

fn eval_expr(e: &IRExpression, row: &CRow) -> R<i64> {
    match e {
        IRExpression::Column(i) => int(row.get(*i).ok_or_else(|| Unsupported("expr column out of range".into()))?),
        IRExpression::IntConstant(c) => Ok(*c),
        IRExpression::Arithmetic { op, left, right } => {
            let (a, b) = (eval_expr(left, row)?, eval_expr(right, row)?);
            match op {
                ArithOp::Add => a.checked_add(b),
                ArithOp::Sub => a.checked_sub(b),
                ArithOp::Mul => a.checked_mul(b),
                ArithOp::Mod => {
                    if b == 0 {
                        None
                    } else {
                        a.checked_rem(b)
                    }
                }
                ArithOp::Div => None,
            }
            .ok_or_else(|| Unsupported("undefined arithmetic".into()))
        }
        other => Err(Unsupported(format!("expression {other:?}"))),
    }
}

fn project(row: &CRow, proj: &[usize]) -> R<CRow> {
    proj.iter().map(|i| row.get(*i).cloned().ok_or_else(|| Unsupported(format!("projection index {i} out of range ({} columns)", row.len())))).collect()
}

fn add(bag: &mut Bag, row: CRow, m: i64) {
    if m != 0 {
        *bag.entry(row).or_default() += m;
    }
}

pub type Db = BTreeMap<String, Vec<Row>>;

pub fn eval(ir: &IRNode, db: &Db) -> R<Bag> {
    Ok(match ir {
        IRNode::Scan { relation, .. } => {
            let mut b = Bag::new();
            if let Some(rows) = db.get(relation) {
                for r in rows {
                    add(&mut b, r.iter().map(|v| Cell::I(*v)).collect(), 1);
                }
            }
            b
        }
        IRNode::Map { input, projection, .. } => {
            let mut b = Bag::new();
            for (row, m) in eval(input, db)? {
                add(&mut b, project(&row, projection)?, m);
            }
            b
        }
        IRNode::Filter { input, predicate } => {
            let mut b = Bag::new();
            for (row, m) in eval(input, db)? {
                if eval_pred(predicate, &row)? {
                    add(&mut b, row, m);
                }
            }
            b
        }
        IRNode::Join { left, right, left_keys, right_keys, .. } => {
            let (l, r) = (eval(left, db)?, eval(right, db)?);
            let mut b = Bag::new();
            for (lr, lm) in &l {
                for (rr, rm) in &r {
                    if project(lr, left_keys)? == project(rr, right_keys)? {
                        let mut out = lr.clone();
                        for (i, c) in rr.iter().enumerate() {
                            if !right_keys.contains(&i) {
                                out.push(c.clone());
                            }
                        }
                        add(&mut b, out, lm * rm);
                    }
                }
            }
            b
        }
        IRNode::JoinFlatMap { left, right, left_keys, right_keys, projection, filter_predicate, .. } => {
            let (l, r) = (eval(left, db)?, eval(right, db)?);
            let mut b = Bag::new();
            for (lr, lm) in &l {
                for (rr, rm) in &r {
                    if project(lr, left_keys)? == project(rr, right_keys)? {
                        // documented unfused form: Filter(Map(Join(L, R), projection), pred) where the
                        // projection indexes the concatenation of all left and all right columns
                        let mut full = lr.clone();
                        full.extend(rr.iter().cloned());
                        let out = project(&full, projection)?;
                        if let Some(p) = filter_predicate {
                            if !eval_pred(p, &out)? {
                                continue;
                            }
                        }
                        add(&mut b, out, lm * rm);
                    }
                }
            }
            b
        }
        IRNode::FlatMap { input, projection, filter_predicate, .. } => {
            let mut b = Bag::new();
            for (row, m) in eval(input, db)? {
                let out = project(&row, projection)?;
                if let Some(p) = filter_predicate {
                    if !eval_pred(p, &out)? {
                        continue;
                    }
                }
                add(&mut b, out, m);
            }
            b
        }
        IRNode::Distinct { input } => eval(input, db)?.into_iter().filter(|(_, m)| *m > 0).map(|(r, _)| (r, 1)).collect(),
        IRNode::Union { inputs } => {
            let mut b = Bag::new();
            for i in inputs {
                for (row, m) in eval(i, db)? {
                    add(&mut b, row, m);
                }
            }
            b
        }
        IRNode::Antijoin { left, right, left_keys, right_keys, .. } => {
            let (l, r) = (eval(left, db)?, eval(right, db)?);
            let keys: BTreeSet<CRow> = r.iter().filter(|(_, m)| **m > 0).map(|(row, _)| project(row, right_keys)).collect::<R<_>>()?;
            let mut b = Bag::new();
            for (row, m) in l {
                if !keys.contains(&project(&row, left_keys)?) {
                    add(&mut b, row, m);
                }
            }
            b
        }
        IRNode::Compute { input, expressions } => {
            let mut b = Bag::new();
            for (row, m) in eval(input, db)? {
                let mut out = row.clone();
                for (_, e) in expressions {
                    // expressions see the input columns (not each other)
                    out.push(Cell::I(eval_expr(e, &row)?));
                }
                add(&mut b, out, m);
            }
            b
        }
        IRNode::Aggregate { input, group_by, aggregations, .. } => {
            let mut groups: BTreeMap<CRow, Vec<(CRow, i64)>> = BTreeMap::new();
            for (row, m) in eval(input, db)? {
                if m > 0 {
                    groups.entry(project(&row, group_by)?).or_default().push((row, m));
                }
            }
            let mut b = Bag::new();
            for (key, rows) in groups {
                let mut out = key.clone();
                for (f, col) in aggregations {
                    let vals: Vec<(i64, i64)> = rows.iter().map(|(r, m)| Ok((int(r.get(*col).ok_or_else(|| Unsupported("aggregate column out of range".into()))?)?, *m))).collect::<R<_>>()?;
                    let count: i64 = vals.iter().map(|(_, m)| m).sum();
                    let sum: i64 = vals.iter().map(|(v, m)| v * m).sum();
                    out.push(match f {
                        AggregateFunction::Count => Cell::I(count),
                        AggregateFunction::Sum => Cell::I(sum),
                        AggregateFunction::Min => Cell::I(vals.iter().map(|(v, _)| *v).min().unwrap()),
                        AggregateFunction::Max => Cell::I(vals.iter().map(|(v, _)| *v).max().unwrap()),
                        AggregateFunction::Avg => Cell::F((sum as f64 / count as f64).to_bits()),
                        AggregateFunction::CountDistinct => Cell::I(vals.iter().map(|(v, _)| *v).collect::<BTreeSet<_>>().len() as i64),
                        other => return Err(Unsupported(format!("aggregate {other:?}"))),
                    });
                }
                add(&mut b, out, 1);
            }
            b
        }
        IRNode::HnswScan { .. } => return Err(Unsupported("HnswScan".into())),
    })
}

/// Support of a bag as canonical keys comparable with `eng::key_set`.
pub fn support(b: &Bag) -> BTreeSet<Vec<(i64, i64)>> {
    b.iter()
        .filter(|(_, m)| **m > 0)
        .map(|(row, _)| {
            row.iter()
                .map(|c| match c {
                    Cell::I(i) => (*i, 0),
                    Cell::F(bits) => crate::common::prog::N::F(f64::from_bits(*bits)).key(),
                })
                .collect()
        })
        .collect()
}
