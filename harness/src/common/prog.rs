//! Harness-side program model for the stratified fragment of C01: rendering to IQL text and
//! the reference evaluator R1 (naive bottom-up, stratum by stratum, set semantics).
//! Nothing here calls the engine.

use serde::{Deserialize, Serialize};
use std::collections::{BTreeMap, BTreeSet};

pub fn var_name(i: u8) -> String {
    let c = (b'A' + (i % 26)) as char;
    if i < 26 {
        c.to_string()
    } else {
        format!("{}{}", c, i / 26)
    }
}

/// Body-atom argument.
#[derive(Clone, Debug, Serialize, Deserialize, PartialEq, Eq, Hash, PartialOrd, Ord)]
pub enum T {
    V(u8),
    C(i64),
    W,
}

#[derive(Clone, Debug, Serialize, Deserialize, PartialEq, Eq, Hash, PartialOrd, Ord)]
pub struct Atom {
    pub rel: String,
    pub args: Vec<T>,
}

#[derive(Clone, Copy, Debug, Serialize, Deserialize, PartialEq, Eq, Hash, PartialOrd, Ord)]
pub enum Op {
    Eq,
    Ne,
    Lt,
    Le,
    Gt,
    Ge,
}

impl Op {
    pub const ALL: [Op; 6] = [Op::Eq, Op::Ne, Op::Lt, Op::Le, Op::Gt, Op::Ge];
    pub fn text(self) -> &'static str {
        match self {
            Op::Eq => "=",
            Op::Ne => "!=",
            Op::Lt => "<",
            Op::Le => "<=",
            Op::Gt => ">",
            Op::Ge => ">=",
        }
    }
    pub fn holds<X: PartialOrd>(self, a: X, b: X) -> bool {
        match self {
            Op::Eq => a == b,
            Op::Ne => a != b,
            Op::Lt => a < b,
            Op::Le => a <= b,
            Op::Gt => a > b,
            Op::Ge => a >= b,
        }
    }
}

#[derive(Clone, Copy, Debug, Serialize, Deserialize, PartialEq, Eq, Hash, PartialOrd, Ord)]
pub enum AOp {
    Add,
    Sub,
    Mul,
    Mod,
}

#[derive(Clone, Debug, Serialize, Deserialize, PartialEq, Eq, Hash, PartialOrd, Ord)]
pub enum AE {
    V(u8),
    C(i64),
    Bin(Box<AE>, AOp, Box<AE>),
}

impl AE {
    pub fn text(&self) -> String {
        match self {
            AE::V(v) => var_name(*v),
            AE::C(c) => c.to_string(),
            AE::Bin(l, op, r) => {
                let o = match op {
                    AOp::Add => "+",
                    AOp::Sub => "-",
                    AOp::Mul => "*",
                    AOp::Mod => "%",
                };
                let lt = if matches!(**l, AE::Bin(..)) { format!("({})", l.text()) } else { l.text() };
                let rt = if matches!(**r, AE::Bin(..)) { format!("({})", r.text()) } else { r.text() };
                format!("{lt} {o} {rt}")
            }
        }
    }
    pub fn vars(&self, out: &mut BTreeSet<u8>) {
        match self {
            AE::V(v) => {
                out.insert(*v);
            }
            AE::C(_) => {}
            AE::Bin(l, _, r) => {
                l.vars(out);
                r.vars(out);
            }
        }
    }
    /// None = undefined (mod by zero / overflow): the generator never produces such cases.
    pub fn eval(&self, env: &BTreeMap<u8, i64>) -> Option<i64> {
        match self {
            AE::V(v) => env.get(v).copied(),
            AE::C(c) => Some(*c),
            AE::Bin(l, op, r) => {
                let (a, b) = (l.eval(env)?, r.eval(env)?);
                match op {
                    AOp::Add => a.checked_add(b),
                    AOp::Sub => a.checked_sub(b),
                    AOp::Mul => a.checked_mul(b),
                    AOp::Mod => {
                        if b == 0 {
                            None
                        } else {
                            a.checked_rem(b)
                        }
                    }
                }
            }
        }
    }
}

#[derive(Clone, Debug, Serialize, Deserialize, PartialEq, Eq, Hash, PartialOrd, Ord)]
pub enum Lit {
    Pos(Atom),
    Neg(Atom),
    /// comparison between two simple terms (variable or constant)
    Cmp(T, Op, T),
    /// `V = expr` binding a new variable
    Bind(u8, AE),
}

#[derive(Clone, Copy, Debug, Serialize, Deserialize, PartialEq, Eq, Hash, PartialOrd, Ord)]
pub enum Agg {
    Count,
    Sum,
    Min,
    Max,
    Avg,
    CountDistinct,
}

impl Agg {
    pub const ALL: [Agg; 6] = [Agg::Count, Agg::Sum, Agg::Min, Agg::Max, Agg::Avg, Agg::CountDistinct];
    pub fn text(self) -> &'static str {
        match self {
            Agg::Count => "count",
            Agg::Sum => "sum",
            Agg::Min => "min",
            Agg::Max => "max",
            Agg::Avg => "avg",
            Agg::CountDistinct => "count_distinct",
        }
    }
}

/// Head argument.
#[derive(Clone, Debug, Serialize, Deserialize, PartialEq, Eq, Hash, PartialOrd, Ord)]
pub enum HT {
    V(u8),
    C(i64),
    A(AE),
    Agg(Agg, u8),
}

#[derive(Clone, Debug, Serialize, Deserialize, PartialEq, Eq, Hash, PartialOrd, Ord)]
pub struct Clause {
    pub head: String,
    pub hargs: Vec<HT>,
    pub body: Vec<Lit>,
}

fn t_text(t: &T) -> String {
    match t {
        T::V(v) => var_name(*v),
        T::C(c) => c.to_string(),
        T::W => "_".to_string(),
    }
}

impl Atom {
    pub fn text(&self) -> String {
        format!("{}({})", self.rel, self.args.iter().map(t_text).collect::<Vec<_>>().join(", "))
    }
}

impl Lit {
    pub fn text(&self) -> String {
        match self {
            Lit::Pos(a) => a.text(),
            Lit::Neg(a) => format!("!{}", a.text()),
            Lit::Cmp(a, op, b) => format!("{} {} {}", t_text(a), op.text(), t_text(b)),
            Lit::Bind(v, e) => format!("{} = {}", var_name(*v), e.text()),
        }
    }
}

impl Clause {
    pub fn head_text(&self) -> String {
        let args: Vec<String> = self
            .hargs
            .iter()
            .map(|h| match h {
                HT::V(v) => var_name(*v),
                HT::C(c) => c.to_string(),
                HT::A(e) => e.text(),
                HT::Agg(f, v) => format!("{}<{}>", f.text(), var_name(*v)),
            })
            .collect();
        format!("{}({})", self.head, args.join(", "))
    }
    pub fn text(&self) -> String {
        if self.body.is_empty() {
            self.head_text()
        } else {
            format!("{} <- {}", self.head_text(), self.body.iter().map(Lit::text).collect::<Vec<_>>().join(", "))
        }
    }
    pub fn has_agg(&self) -> bool {
        self.hargs.iter().any(|h| matches!(h, HT::Agg(..)))
    }
    pub fn pos_rels(&self) -> Vec<&str> {
        self.body.iter().filter_map(|l| if let Lit::Pos(a) = l { Some(a.rel.as_str()) } else { None }).collect()
    }
    pub fn neg_rels(&self) -> Vec<&str> {
        self.body.iter().filter_map(|l| if let Lit::Neg(a) = l { Some(a.rel.as_str()) } else { None }).collect()
    }
}

pub type Row = Vec<i64>;
pub type Edb = BTreeMap<String, Vec<Row>>;

#[derive(Clone, Debug, Serialize, Deserialize, PartialEq, Eq)]
pub struct Program {
    /// the last clause is the query
    pub clauses: Vec<Clause>,
}

impl Program {
    pub fn text(&self) -> String {
        self.clauses.iter().map(Clause::text).collect::<Vec<_>>().join("\n")
    }
    pub fn query(&self) -> &Clause {
        self.clauses.last().expect("non-empty program")
    }
    pub fn heads(&self) -> BTreeSet<String> {
        self.clauses.iter().map(|c| c.head.clone()).collect()
    }
}

// ------------------------------------------------------------------------------------------------
// Reference values: integers, and floats only as results of avg.

#[derive(Clone, Copy, Debug, Serialize, Deserialize)]
pub enum N {
    I(i64),
    F(f64),
}

impl N {
    /// canonical key: integral values as integers, others on a 1e-6 grid (the fragment only
    /// produces small exact rationals, far from grid boundaries)
    pub fn key(self) -> (i64, i64) {
        match self {
            N::I(i) => (i, 0),
            N::F(x) => {
                if x.is_finite() && x.fract() == 0.0 && x.abs() < 9e15 {
                    (x as i64, 0)
                } else if x.is_finite() {
                    let fl = x.floor();
                    (fl as i64, ((x - fl) * 1e6).round() as i64)
                } else if x.is_nan() {
                    (i64::MIN, 1)
                } else if x > 0.0 {
                    (i64::MAX, 2)
                } else {
                    (i64::MIN, 2)
                }
            }
        }
    }
}

pub type KRow = Vec<(i64, i64)>;

pub fn krow_ints(r: &[i64]) -> KRow {
    r.iter().map(|i| (*i, 0)).collect()
}

/// Database of the reference evaluator: relation -> set of rows. Rows hold `N` via keys; the
/// integer-only part of the fragment uses (i,0).
pub type Db = BTreeMap<String, BTreeSet<KRow>>;

#[derive(Debug, Clone)]
pub enum RefError {
    Unstratified(String),
    Undefined(String),
}

fn scc_order(nodes: &[String], edges: &BTreeMap<String, BTreeSet<String>>) -> Vec<Vec<String>> {
    // Tarjan; returns SCCs in reverse topological order of the condensation (dependencies first
    // when edges go from a head to the relations it depends on).
    struct St<'a> {
        idx: BTreeMap<&'a str, usize>,
        low: BTreeMap<&'a str, usize>,
        on: BTreeSet<&'a str>,
        stack: Vec<&'a str>,
        next: usize,
        out: Vec<Vec<String>>,
    }
    fn go<'a>(v: &'a str, edges: &'a BTreeMap<String, BTreeSet<String>>, st: &mut St<'a>) {
        st.idx.insert(v, st.next);
        st.low.insert(v, st.next);
        st.next += 1;
        st.stack.push(v);
        st.on.insert(v);
        if let Some(ws) = edges.get(v) {
            for w in ws {
                let w = w.as_str();
                if !st.idx.contains_key(w) {
                    go(w, edges, st);
                    let lw = st.low[w];
                    let lv = st.low[v];
                    st.low.insert(v, lv.min(lw));
                } else if st.on.contains(w) {
                    let iw = st.idx[w];
                    let lv = st.low[v];
                    st.low.insert(v, lv.min(iw));
                }
            }
        }
        if st.low[v] == st.idx[v] {
            let mut comp = Vec::new();
            loop {
                let w = st.stack.pop().unwrap();
                st.on.remove(w);
                comp.push(w.to_string());
                if w == v {
                    break;
                }
            }
            st.out.push(comp);
        }
    }
    let mut st = St { idx: BTreeMap::new(), low: BTreeMap::new(), on: BTreeSet::new(), stack: vec![], next: 0, out: vec![] };
    for n in nodes {
        if !st.idx.contains_key(n.as_str()) {
            go(n.as_str(), edges, &mut st);
        }
    }
    st.out
}

/// Dependency analysis shared by the generator's feature vector and the evaluator.
pub struct Deps {
    /// SCCs (dependencies first)
    pub sccs: Vec<Vec<String>>,
    pub scc_of: BTreeMap<String, usize>,
}

impl Deps {
    pub fn of(clauses: &[Clause]) -> Deps {
        let heads: BTreeSet<String> = clauses.iter().map(|c| c.head.clone()).collect();
        let mut edges: BTreeMap<String, BTreeSet<String>> = BTreeMap::new();
        for c in clauses {
            let e = edges.entry(c.head.clone()).or_default();
            for l in &c.body {
                match l {
                    Lit::Pos(a) | Lit::Neg(a) => {
                        if heads.contains(&a.rel) {
                            e.insert(a.rel.clone());
                        }
                    }
                    _ => {}
                }
            }
        }
        let nodes: Vec<String> = heads.iter().cloned().collect();
        let sccs = scc_order(&nodes, &edges);
        let mut scc_of = BTreeMap::new();
        for (i, s) in sccs.iter().enumerate() {
            for r in s {
                scc_of.insert(r.clone(), i);
            }
        }
        Deps { sccs, scc_of }
    }
    pub fn same_scc(&self, a: &str, b: &str) -> bool {
        match (self.scc_of.get(a), self.scc_of.get(b)) {
            (Some(x), Some(y)) => x == y,
            _ => false,
        }
    }
    /// is the SCC of `r` recursive (size > 1 or self-loop)?
    pub fn recursive(&self, r: &str, clauses: &[Clause]) -> bool {
        let Some(i) = self.scc_of.get(r) else { return false };
        if self.sccs[*i].len() > 1 {
            return true;
        }
        clauses.iter().any(|c| c.head == r && c.body.iter().any(|l| matches!(l, Lit::Pos(a) | Lit::Neg(a) if a.rel == r)))
    }
    /// first offending (head, negated-or-aggregated relation) pair inside one SCC, if any
    pub fn unstratified(&self, clauses: &[Clause]) -> Option<(String, String)> {
        for c in clauses {
            for l in &c.body {
                match l {
                    Lit::Neg(a) if self.same_scc(&c.head, &a.rel) => return Some((c.head.clone(), a.rel.clone())),
                    Lit::Pos(a) if c.has_agg() && self.same_scc(&c.head, &a.rel) => return Some((c.head.clone(), a.rel.clone())),
                    _ => {}
                }
            }
        }
        None
    }
}

fn match_atom(a: &Atom, row: &KRow, env: &mut BTreeMap<u8, (i64, i64)>) -> bool {
    if a.args.len() != row.len() {
        return false;
    }
    for (t, v) in a.args.iter().zip(row) {
        match t {
            T::W => {}
            T::C(c) => {
                if (*c, 0) != *v {
                    return false;
                }
            }
            T::V(x) => match env.get(x) {
                Some(b) => {
                    if b != v {
                        return false;
                    }
                }
                None => {
                    env.insert(*x, *v);
                }
            },
        }
    }
    true
}

fn term_val(t: &T, env: &BTreeMap<u8, (i64, i64)>) -> Option<(i64, i64)> {
    match t {
        T::V(v) => env.get(v).copied(),
        T::C(c) => Some((*c, 0)),
        T::W => None,
    }
}

/// All satisfying valuations of the body (assignments to its named variables).
pub fn body_valuations(c: &Clause, db: &Db) -> Result<Vec<BTreeMap<u8, (i64, i64)>>, RefError> {
    let empty = BTreeSet::new();
    let mut envs: Vec<BTreeMap<u8, (i64, i64)>> = vec![BTreeMap::new()];
    // positive atoms first (order-independent semantics), then binds, then filters
    for l in &c.body {
        if let Lit::Pos(a) = l {
            let rows = db.get(&a.rel).unwrap_or(&empty);
            let mut next = Vec::new();
            for env in &envs {
                for row in rows {
                    let mut e = env.clone();
                    if match_atom(a, row, &mut e) {
                        next.push(e);
                    }
                }
            }
            envs = next;
        }
    }
    // binds may depend on each other: iterate until all applied
    let binds: Vec<(&u8, &AE)> = c.body.iter().filter_map(|l| if let Lit::Bind(v, e) = l { Some((v, e)) } else { None }).collect();
    let mut pending: Vec<(&u8, &AE)> = binds;
    let mut progress = true;
    while !pending.is_empty() && progress {
        progress = false;
        let mut rest = Vec::new();
        for (v, e) in pending {
            let mut vs = BTreeSet::new();
            e.vars(&mut vs);
            let ready = envs.first().map_or(true, |env| vs.iter().all(|x| env.contains_key(x)));
            if !ready {
                rest.push((v, e));
                continue;
            }
            progress = true;
            let mut next = Vec::new();
            for env in &envs {
                let ienv: BTreeMap<u8, i64> = env.iter().filter(|(_, k)| k.1 == 0).map(|(x, k)| (*x, k.0)).collect();
                let val = e.eval(&ienv).ok_or_else(|| RefError::Undefined(format!("{} undefined", e.text())))?;
                match env.get(v) {
                    Some(b) => {
                        if *b == (val, 0) {
                            next.push(env.clone());
                        }
                    }
                    None => {
                        let mut e2 = env.clone();
                        e2.insert(*v, (val, 0));
                        next.push(e2);
                    }
                }
            }
            envs = next;
        }
        pending = rest;
    }
    if !pending.is_empty() && !envs.is_empty() {
        return Err(RefError::Undefined("bind over unbound variable".into()));
    }
    let mut out = Vec::new();
    'env: for env in envs {
        for l in &c.body {
            match l {
                Lit::Cmp(a, op, b) => {
                    let (x, y) = (term_val(a, &env), term_val(b, &env));
                    let (Some(x), Some(y)) = (x, y) else { return Err(RefError::Undefined("comparison over unbound variable".into())) };
                    if !op.holds(x, y) {
                        continue 'env;
                    }
                }
                Lit::Neg(a) => {
                    let rows = db.get(&a.rel).unwrap_or(&empty);
                    for row in rows {
                        let mut e = env.clone();
                        let before = e.len();
                        if match_atom(a, row, &mut e) {
                            if e.len() != before {
                                return Err(RefError::Undefined("negated atom binds a new variable".into()));
                            }
                            continue 'env;
                        }
                    }
                }
                _ => {}
            }
        }
        out.push(env);
    }
    out.sort();
    out.dedup();
    Ok(out)
}

fn head_rows(c: &Clause, db: &Db) -> Result<BTreeSet<KRow>, RefError> {
    let vals = body_valuations(c, db)?;
    let mut out = BTreeSet::new();
    if !c.has_agg() {
        for env in &vals {
            let mut row = Vec::new();
            for h in &c.hargs {
                match h {
                    HT::V(v) => row.push(*env.get(v).ok_or_else(|| RefError::Undefined("unbound head var".into()))?),
                    HT::C(k) => row.push((*k, 0)),
                    HT::A(e) => {
                        let ienv: BTreeMap<u8, i64> = env.iter().filter(|(_, k)| k.1 == 0).map(|(x, k)| (*x, k.0)).collect();
                        row.push((e.eval(&ienv).ok_or_else(|| RefError::Undefined(e.text()))?, 0));
                    }
                    HT::Agg(..) => unreachable!(),
                }
            }
            out.insert(row);
        }
        return Ok(out);
    }
    // (thread-local switch WILDCARDS_AS_VARS: the alternative reading, used only to recognise
    // the signature of a known finding, counts named variables only)
    // Aggregates range over distinct valuations of ALL body variables; every `_` in a positive
    // atom is its own anonymous variable (the engine and standard Datalog read it that way:
    // c(G, count<V>) <- s(G, V, _) counts distinct (G, V, _) bindings).
    let named = {
        let mut c2 = c.clone();
        let mut k = 200u8;
        let as_vars = WILDCARDS_AS_VARS.with(|w| w.get());
        for l in &mut c2.body {
            if let Lit::Pos(a) = l {
                for t in &mut a.args {
                    if as_vars && matches!(t, T::W) {
                        *t = T::V(k);
                        k += 1;
                    }
                }
            }
        }
        c2
    };
    let vals = body_valuations(&named, db)?;
    // group by the plain head terms
    let mut groups: BTreeMap<KRow, Vec<&BTreeMap<u8, (i64, i64)>>> = BTreeMap::new();
    for env in &vals {
        let mut g = Vec::new();
        for h in &c.hargs {
            match h {
                HT::V(v) => g.push(*env.get(v).ok_or_else(|| RefError::Undefined("unbound head var".into()))?),
                HT::C(k) => g.push((*k, 0)),
                HT::A(e) => {
                    let ienv: BTreeMap<u8, i64> = env.iter().filter(|(_, k)| k.1 == 0).map(|(x, k)| (*x, k.0)).collect();
                    g.push((e.eval(&ienv).ok_or_else(|| RefError::Undefined(e.text()))?, 0));
                }
                HT::Agg(..) => {}
            }
        }
        groups.entry(g).or_default().push(env);
    }
    for (g, envs) in groups {
        let mut row = Vec::new();
        let mut gi = 0;
        for h in &c.hargs {
            match h {
                HT::Agg(f, v) => {
                    let xs: Vec<i64> = envs
                        .iter()
                        .map(|e| e.get(v).map(|k| k.0).ok_or_else(|| RefError::Undefined("unbound aggregate var".into())))
                        .collect::<Result<_, _>>()?;
                    let n = match f {
                        Agg::Count => N::I(xs.len() as i64),
                        Agg::Sum => N::I(xs.iter().sum()),
                        Agg::Min => N::I(*xs.iter().min().unwrap()),
                        Agg::Max => N::I(*xs.iter().max().unwrap()),
                        Agg::Avg => N::F(xs.iter().sum::<i64>() as f64 / xs.len() as f64),
                        Agg::CountDistinct => N::I(xs.iter().collect::<BTreeSet<_>>().len() as i64),
                    };
                    row.push(n.key());
                }
                _ => {
                    row.push(g[gi]);
                    gi += 1;
                }
            }
        }
        out.insert(row);
    }
    Ok(out)
}

pub struct Model {
    pub db: Db,
    /// per derived tuple: minimal derivation depth (number of rule applications on the longest
    /// branch of the shallowest proof); base facts have depth 0
    pub depth: BTreeMap<(String, KRow), usize>,
}

/// R1: the perfect (stratified least) model of `clauses` over `edb`.
pub fn eval(clauses: &[Clause], edb: &Edb) -> Result<Model, RefError> {
    let deps = Deps::of(clauses);
    if let Some((h, r)) = deps.unstratified(clauses) {
        return Err(RefError::Unstratified(format!("{h} depends on {r} through negation/aggregation inside one SCC")));
    }
    let mut db: Db = BTreeMap::new();
    let mut depth: BTreeMap<(String, KRow), usize> = BTreeMap::new();
    for (r, rows) in edb {
        let e = db.entry(r.clone()).or_default();
        for row in rows {
            let k = krow_ints(row);
            depth.insert((r.clone(), k.clone()), 0);
            e.insert(k);
        }
    }
    for scc in &deps.sccs {
        let members: BTreeSet<&String> = scc.iter().collect();
        let cls: Vec<&Clause> = clauses.iter().filter(|c| members.contains(&c.head)).collect();
        let mut round = 0usize;
        loop {
            round += 1;
            let mut changed = false;
            let mut new_rows: Vec<(String, KRow, usize)> = Vec::new();
            for c in &cls {
                // derive with depth bookkeeping: depth(new) = 1 + max depth of used positive facts
                let rows = head_rows_with_depth(c, &db, &depth)?;
                for (row, d) in rows {
                    new_rows.push((c.head.clone(), row, d));
                }
            }
            for (h, row, d) in new_rows {
                let e = db.entry(h.clone()).or_default();
                if e.insert(row.clone()) {
                    changed = true;
                    depth.insert((h, row), d);
                } else {
                    let cur = depth.entry((h, row)).or_insert(d);
                    if d < *cur {
                        *cur = d;
                        changed = true;
                    }
                }
            }
            if !changed {
                break;
            }
            if round > 10_000 {
                return Err(RefError::Undefined("reference evaluator did not converge".into()));
            }
        }
    }
    Ok(Model { db, depth })
}

fn head_rows_with_depth(c: &Clause, db: &Db, depth: &BTreeMap<(String, KRow), usize>) -> Result<Vec<(KRow, usize)>, RefError> {
    if c.has_agg() {
        let rows = head_rows(c, db)?;
        // depth of an aggregate row: 1 + max depth over the body relations' tuples (coarse)
        let mut d = 0;
        for l in &c.body {
            if let Lit::Pos(a) = l {
                if let Some(rs) = db.get(&a.rel) {
                    for r in rs {
                        d = d.max(*depth.get(&(a.rel.clone(), r.clone())).unwrap_or(&0));
                    }
                }
            }
        }
        return Ok(rows.into_iter().map(|r| (r, d + 1)).collect());
    }
    let vals = body_valuations(c, db)?;
    let mut best: BTreeMap<KRow, usize> = BTreeMap::new();
    for env in &vals {
        // instantiate positive atoms to find the facts used; wildcards make the fact ambiguous,
        // take the minimum over matching facts
        let mut d = 0usize;
        for l in &c.body {
            if let Lit::Pos(a) = l {
                let mut md = usize::MAX;
                if let Some(rs) = db.get(&a.rel) {
                    for r in rs {
                        let mut e = env.clone();
                        let n = e.len();
                        if match_atom(a, r, &mut e) && e.len() == n {
                            md = md.min(*depth.get(&(a.rel.clone(), r.clone())).unwrap_or(&0));
                        }
                    }
                }
                if md != usize::MAX {
                    d = d.max(md);
                }
            }
        }
        let mut row = Vec::new();
        for h in &c.hargs {
            match h {
                HT::V(v) => row.push(*env.get(v).ok_or_else(|| RefError::Undefined("unbound head var".into()))?),
                HT::C(k) => row.push((*k, 0)),
                HT::A(e) => {
                    let ienv: BTreeMap<u8, i64> = env.iter().filter(|(_, k)| k.1 == 0).map(|(x, k)| (*x, k.0)).collect();
                    row.push((e.eval(&ienv).ok_or_else(|| RefError::Undefined(e.text()))?, 0));
                }
                HT::Agg(..) => unreachable!(),
            }
        }
        let e = best.entry(row).or_insert(usize::MAX);
        *e = (*e).min(d + 1);
    }
    Ok(best.into_iter().collect())
}

/// Convenience: the reference answer for the query (last clause's head relation).
pub fn answer(p: &Program, edb: &Edb) -> Result<BTreeSet<KRow>, RefError> {
    let m = eval(&p.clauses, edb)?;
    Ok(m.db.get(&p.query().head).cloned().unwrap_or_default())
}

thread_local! {
    /// true (default): each `_` in an aggregate body is an anonymous variable and part of the valuation
    pub static WILDCARDS_AS_VARS: std::cell::Cell<bool> = const { std::cell::Cell::new(true) };
}

/// Reference answer under the alternative reading (aggregates count named variables only).
pub fn answer_named_only(p: &Program, edb: &Edb) -> Result<BTreeSet<KRow>, RefError> {
    WILDCARDS_AS_VARS.with(|w| w.set(false));
    let r = answer(p, edb);
    WILDCARDS_AS_VARS.with(|w| w.set(true));
    r
}
