//! Generated-input runner: proptest shards over all cores, failure shrinking, replay files,
//! known-finding matching and evidence accumulation.

use proptest::strategy::{Strategy, ValueTree};
use proptest::test_runner::{Config, RngAlgorithm, RngSeed, TestCaseError, TestError, TestRng, TestRunner};
use serde::{de::DeserializeOwned, Serialize};
use serde_json::{json, Value as J};
use std::collections::{BTreeMap, HashSet};
use std::fmt::Debug;
use std::hash::{Hash, Hasher};
use std::panic::{catch_unwind, AssertUnwindSafe};
use std::sync::atomic::{AtomicBool, AtomicU64, Ordering};
use std::sync::Mutex;
use std::time::Instant;

use super::known::{Known, KnownSet};

#[derive(Clone, Copy, PartialEq, Eq, Debug)]
pub enum Tier {
    Quick,
    Thorough,
}

impl Tier {
    pub fn pick<T>(self, q: T, t: T) -> T {
        match self {
            Tier::Quick => q,
            Tier::Thorough => t,
        }
    }
    pub fn name(self) -> &'static str {
        self.pick("quick", "thorough")
    }
}

/// A failure of the oracle on one case.
#[derive(Clone, Debug, Serialize, serde::Deserialize)]
pub struct Fail {
    /// short machine-readable failure kind (part of known-finding signatures)
    pub kind: String,
    /// human-readable detail (observed vs expected)
    pub detail: String,
    /// id of the known finding whose signature this failure matches (computed by the property)
    #[serde(default)]
    pub known: Option<String>,
}

impl Fail {
    pub fn new(kind: &str, detail: impl Into<String>) -> Self {
        Fail { kind: kind.to_string(), detail: detail.into(), known: None }
    }
    pub fn known(mut self, id: &str) -> Self {
        self.known = Some(id.to_string());
        self
    }
}

pub type CheckResult = Result<(), Fail>;

/// Per-case observations reported by a property check.
#[derive(Default)]
pub struct Obs {
    pub nontrivial: bool,
    pub classes: Vec<String>,
    /// the case was not judged (engine rejected the generated input etc.)
    pub discard: Option<String>,
    /// case steered away from / overlapping a known finding and therefore not judged
    pub excluded_known: Option<String>,
    /// canonical key for distinctness (default: JSON of the case)
    pub key: Option<String>,
    /// extra counters (summed into coverage.counters)
    pub counters: Vec<(String, u64)>,
    /// optional richer sample to show instead of the raw case
    pub sample: Option<J>,
}

impl Obs {
    pub fn class(&mut self, c: &str) {
        self.classes.push(c.to_string());
    }
    pub fn class_if(&mut self, cond: bool, c: &str) {
        if cond {
            self.classes.push(c.to_string());
        }
    }
    pub fn count(&mut self, k: &str, n: u64) {
        self.counters.push((k.to_string(), n));
    }
}

#[derive(Default)]
pub struct Ev {
    pub evaluations: u64,
    pub nontrivial: HashSet<u64>,
    pub classes: BTreeMap<String, u64>,
    pub counters: BTreeMap<String, u64>,
    pub samples: Vec<J>,
    pub nt_samples: Vec<J>,
    pub nt_seen: u64,
    pub excluded_known: BTreeMap<String, u64>,
    pub known_hits: BTreeMap<String, u64>,
    pub discarded: BTreeMap<String, u64>,
    pub violations: Vec<J>,
    pub notes: Vec<String>,
    pub parts: BTreeMap<String, J>,
    pub known_lines: Vec<String>,
    pub exhaustive_parts: Vec<String>,
}

pub struct Ctx {
    pub id: String,
    pub tier: Tier,
    pub seed: u64,
    pub start: Instant,
    pub ev: Mutex<Ev>,
    pub known: KnownSet,
    pub violated: AtomicBool,
    pub threads: usize,
    pub rule: Mutex<String>,
    pub level: Mutex<String>,
    pub assumptions: Mutex<Vec<String>>,
    pub strict: bool,
    /// proptest shrink iterations per failing shard (lower it for expensive cases)
    pub shrink_iters: AtomicU64,
}

fn hash_str(s: &str) -> u64 {
    let mut h = std::collections::hash_map::DefaultHasher::new();
    s.hash(&mut h);
    h.finish()
}

pub fn sha_name(s: &str) -> String {
    use sha2::{Digest, Sha256};
    let d = Sha256::digest(s.as_bytes());
    d.iter().take(8).map(|b| format!("{b:02x}")).collect()
}

thread_local! {
    static LAST_PANIC: std::cell::RefCell<Option<String>> = const { std::cell::RefCell::new(None) };
    static QUIET_PANIC: std::cell::Cell<bool> = const { std::cell::Cell::new(false) };
}

pub fn install_panic_hook() {
    let default = std::panic::take_hook();
    std::panic::set_hook(Box::new(move |info| {
        let msg = format!("{info}");
        let quiet = QUIET_PANIC.try_with(|q| q.get()).unwrap_or(false);
        let _ = LAST_PANIC.try_with(|p| *p.borrow_mut() = Some(msg));
        if !quiet && std::env::var("VERIF_SHOW_PANICS").is_ok() {
            default(info);
        }
    }));
}

/// Run `f`, converting a panic into `Err(message)`.
pub fn guarded<R>(f: impl FnOnce() -> R) -> Result<R, String> {
    let prev = QUIET_PANIC.with(|q| q.replace(true));
    let r = catch_unwind(AssertUnwindSafe(f));
    QUIET_PANIC.with(|q| q.set(prev));
    match r {
        Ok(v) => Ok(v),
        Err(e) => {
            let from_hook = LAST_PANIC.with(|p| p.borrow_mut().take());
            let msg = from_hook.unwrap_or_else(|| {
                if let Some(s) = e.downcast_ref::<&str>() {
                    (*s).to_string()
                } else if let Some(s) = e.downcast_ref::<String>() {
                    s.clone()
                } else {
                    "panic".to_string()
                }
            });
            Err(msg)
        }
    }
}

impl Ctx {
    pub fn new(id: &str, tier: Tier, seed: u64, known: KnownSet) -> Self {
        let threads = std::env::var("VERIF_THREADS")
            .ok()
            .and_then(|s| s.parse().ok())
            .unwrap_or_else(|| std::thread::available_parallelism().map(|n| n.get()).unwrap_or(8));
        Ctx {
            id: id.to_string(),
            tier,
            seed,
            start: Instant::now(),
            ev: Mutex::new(Ev::default()),
            known,
            violated: AtomicBool::new(false),
            threads,
            rule: Mutex::new(String::new()),
            level: Mutex::new("exploration".to_string()),
            assumptions: Mutex::new(Vec::new()),
            strict: std::env::var("VERIF_STRICT").is_ok(),
            shrink_iters: AtomicU64::new(400),
        }
    }

    pub fn set_shrink_iters(&self, n: u64) {
        self.shrink_iters.store(n, Ordering::Relaxed);
    }
    pub fn set_rule(&self, r: &str) {
        *self.rule.lock().unwrap() = r.to_string();
    }
    pub fn set_level(&self, l: &str) {
        *self.level.lock().unwrap() = l.to_string();
    }
    pub fn assume(&self, a: &str) {
        self.assumptions.lock().unwrap().push(a.to_string());
    }
    pub fn note(&self, n: impl Into<String>) {
        self.ev.lock().unwrap().notes.push(n.into());
    }
    pub fn cases(&self, quick: u32, thorough: u32) -> u32 {
        let base = self.tier.pick(quick, thorough);
        let scale: f64 = std::env::var("VERIF_SCALE").ok().and_then(|s| s.parse().ok()).unwrap_or(1.0);
        ((base as f64 * scale).ceil() as u32).max(1)
    }

    /// Is `known_id` an open known finding of this property?
    pub fn is_open_known(&self, known_id: &str) -> bool {
        if std::env::var("VERIF_FIND_KNOWN").map_or(false, |v| v == known_id) {
            // witness search: report this finding as if it were unknown, to obtain a shrunk replay
            return false;
        }
        !self.strict && self.known.open(&self.id).iter().any(|k| k.id == known_id)
    }

    fn record_case<T: Serialize>(&self, case: &T, obs: &Obs) {
        let mut ev = self.ev.lock().unwrap();
        if let Some(k) = &obs.excluded_known {
            *ev.excluded_known.entry(k.clone()).or_default() += 1;
            return;
        }
        if let Some(d) = &obs.discard {
            let mut d = d.clone();
            d.truncate(100);
            *ev.discarded.entry(d).or_default() += 1;
            return;
        }
        ev.evaluations += 1;
        for c in &obs.classes {
            *ev.classes.entry(c.clone()).or_default() += 1;
        }
        for (k, n) in &obs.counters {
            *ev.counters.entry(k.clone()).or_default() += *n;
        }
        let need_sample = ev.samples.len() < 3 || (obs.nontrivial && ev.nt_samples.len() < 6);
        let need_key = obs.nontrivial && obs.key.is_none();
        let js = if need_sample || need_key { serde_json::to_value(case).unwrap_or(J::Null) } else { J::Null };
        if obs.nontrivial {
            let key = match &obs.key {
                Some(k) => hash_str(k),
                None => hash_str(&js.to_string()),
            };
            if ev.nontrivial.insert(key) {
                ev.nt_seen += 1;
                if ev.nt_samples.len() < 6 {
                    let s = obs.sample.clone().unwrap_or(js.clone());
                    ev.nt_samples.push(s);
                }
            }
        }
        if ev.samples.len() < 3 {
            let s = obs.sample.clone().unwrap_or(js);
            ev.samples.push(s);
        }
    }

    /// Evaluate one case: run the check with panic capture; returns the failure if it is a
    /// reportable one (not an open known finding).
    fn eval<T: Serialize>(
        &self,
        case: &T,
        check: &(impl Fn(&T, &mut Obs) -> CheckResult + Sync),
        record: bool,
    ) -> Option<Fail> {
        let mut obs = Obs::default();
        if std::env::var("VERIF_TRACE").is_ok() {
            eprintln!("TRACE {}", serde_json::to_string(case).unwrap_or_default());
        }
        let r = guarded(|| check(case, &mut obs));
        let res = match r {
            Ok(r) => r,
            Err(msg) => Err(Fail::new("panic", format!("panic escaped the API: {msg}"))),
        };
        match res {
            Ok(()) => {
                if record {
                    self.record_case(case, &obs);
                }
                None
            }
            Err(f) => {
                if let Some(k) = &f.known {
                    if self.is_open_known(k) {
                        if record {
                            let mut ev = self.ev.lock().unwrap();
                            *ev.known_hits.entry(k.clone()).or_default() += 1;
                        }
                        return None;
                    }
                }
                if record {
                    // the failing case still counts as evaluated
                    obs.discard = None;
                    obs.excluded_known = None;
                    self.record_case(case, &obs);
                }
                Some(f)
            }
        }
    }

    fn report_violation<T: Serialize>(&self, part: &str, case: &T, fail: &Fail, seed: u64) {
        let case_js = serde_json::to_value(case).unwrap_or(J::Null);
        let body = json!({
            "property": self.id, "part": part, "seed": seed, "tier": self.tier.name(),
            "case": case_js, "fail": fail,
        });
        let text = serde_json::to_string_pretty(&body).unwrap();
        let dir = format!("/verif/replays/{}", self.id);
        let _ = std::fs::create_dir_all(&dir);
        let path = format!("{}/{}.json", dir, sha_name(&format!("{}{}", part, case_js)));
        let _ = std::fs::write(&path, text);
        println!("VIOLATION property={} replay={}", self.id, path);
        println!("  part={} kind={} detail={}", part, fail.kind, truncate(&fail.detail, 1500));
        self.violated.store(true, Ordering::SeqCst);
        let mut ev = self.ev.lock().unwrap();
        ev.violations.push(json!({"part": part, "kind": fail.kind, "detail": truncate(&fail.detail, 600), "replay": path}));
    }

    /// Property-based part: `cases` generated cases spread over shards, each an independent
    /// proptest runner with its own derived seed.
    pub fn run_part<T, S>(
        &self,
        part: &str,
        cases: u32,
        mk: impl Fn() -> S + Sync,
        check: impl Fn(&T, &mut Obs) -> CheckResult + Sync,
    ) where
        T: Debug + Clone + Serialize + Send,
        S: Strategy<Value = T>,
    {
        self.run_part_with(part, cases, mk, check, None)
    }

    /// Like `run_part`, with an optional structural shrinker applied after proptest's own
    /// shrinking: `shrinker(case, still_fails)` returns a smaller case for which
    /// `still_fails` (same failure kind) is true.
    pub fn run_part_with<T, S>(
        &self,
        part: &str,
        cases: u32,
        mk: impl Fn() -> S + Sync,
        check: impl Fn(&T, &mut Obs) -> CheckResult + Sync,
        shrinker: Option<&(dyn Fn(&T, &dyn Fn(&T) -> bool) -> T + Sync)>,
    ) where
        T: Debug + Clone + Serialize + Send,
        S: Strategy<Value = T>,
    {
        if let Ok(only) = std::env::var("VERIF_PARTS") {
            if !only.split(',').any(|p| p == part) {
                return;
            }
        }
        let t0 = Instant::now();
        let shards = (self.threads as u32).min(cases.max(1)).max(1);
        let per = cases.div_ceil(shards);
        let stop = AtomicBool::new(false);
        let executed = AtomicU64::new(0);
        let failures: Mutex<Vec<(u32, T, Fail, u64)>> = Mutex::new(Vec::new());
        let part_seed = self.seed ^ hash_str(part);
        std::thread::scope(|sc| {
            for shard in 0..shards {
                let stop = &stop;
                let failures = &failures;
                let mk = &mk;
                let check = &check;
                let executed = &executed;
                sc.spawn(move || {
                    let sseed = part_seed.wrapping_add((shard as u64).wrapping_mul(0x9E37_79B9_7F4A_7C15));
                    let cfg = Config {
                        cases: per,
                        failure_persistence: None,
                        rng_seed: RngSeed::Fixed(sseed),
                        max_shrink_iters: self.shrink_iters.load(Ordering::Relaxed) as u32,
                        max_global_rejects: 100_000,
                        ..Config::default()
                    };
                    let mut runner = TestRunner::new(cfg);
                    let failed_here = std::cell::Cell::new(false);
                    // the first failing execution, kept for failures that depend on timing
                    let first: std::cell::RefCell<Option<(T, Fail)>> = std::cell::RefCell::new(None);
                    let strat = mk();
                    let r = runner.run(&strat, |case| {
                        if stop.load(Ordering::Relaxed) && !failed_here.get() {
                            return Ok(());
                        }
                        let record = !failed_here.get();
                        if record {
                            executed.fetch_add(1, Ordering::Relaxed);
                        }
                        match self.eval(&case, check, record) {
                            None => Ok(()),
                            Some(f) => {
                                if !failed_here.get() {
                                    *first.borrow_mut() = Some((case.clone(), f.clone()));
                                }
                                failed_here.set(true);
                                stop.store(true, Ordering::Relaxed);
                                Err(TestCaseError::fail(f.kind))
                            }
                        }
                    });
                    if let Err(TestError::Fail(_, min)) = r {
                        // re-derive the failure on the shrunk case
                        let mut min = min;
                        let mut f = match self.eval(&min, check, false) {
                            Some(f) => f,
                            None => match first.borrow_mut().take() {
                                // not reproducible on re-execution (the outcome depends on timing, e.g. free-running
                                // threads): report what the first failing execution observed, on its own case
                                Some((c0, mut f0)) => {
                                    f0.detail = format!("{}\n(observed once; re-executing the case did not fail again: the outcome depends on timing)", f0.detail);
                                    min = c0;
                                    f0
                                }
                                None => Fail::new("unstable", "shrunk case no longer fails (flaky?)"),
                            },
                        };
                        if let Some(sh) = shrinker {
                            let kind = f.kind.clone();
                            let still = |c: &T| self.eval(c, check, false).is_some_and(|g| g.kind == kind);
                            let smaller = sh(&min, &still);
                            if let Some(g) = self.eval(&smaller, check, false) {
                                if g.kind == kind {
                                    min = smaller;
                                    f = g;
                                }
                            }
                        }
                        failures.lock().unwrap().push((shard, min, f, sseed));
                    } else if let Err(TestError::Abort(why)) = r {
                        self.note(format!("part {part} shard {shard}: proptest aborted: {why}"));
                    }
                });
            }
        });
        let mut fs = failures.into_inner().unwrap();
        fs.sort_by_key(|f| f.0);
        if let Some((_, case, fail, sseed)) = fs.into_iter().next() {
            self.report_violation(part, &case, &fail, sseed);
        }
        let mut ev = self.ev.lock().unwrap();
        ev.parts.insert(
            part.to_string(),
            json!({"requested": cases, "executed": executed.load(Ordering::Relaxed), "shards": shards, "wall_s": t0.elapsed().as_secs_f64()}),
        );
    }

    /// Enumerated part: every case of a finite list (exhaustive when `exhaustive`).
    pub fn run_enum<T>(
        &self,
        part: &str,
        cases: Vec<T>,
        exhaustive: bool,
        check: impl Fn(&T, &mut Obs) -> CheckResult + Sync,
    ) where
        T: Debug + Clone + Serialize + Send + Sync,
    {
        let t0 = Instant::now();
        let n = cases.len();
        let next = AtomicU64::new(0);
        let first_fail: Mutex<Option<(usize, Fail)>> = Mutex::new(None);
        std::thread::scope(|sc| {
            for _ in 0..self.threads.min(n.max(1)) {
                sc.spawn(|| loop {
                    let i = next.fetch_add(1, Ordering::Relaxed) as usize;
                    if i >= n {
                        break;
                    }
                    if let Some((fi, _)) = &*first_fail.lock().unwrap() {
                        if *fi < i {
                            break;
                        }
                    }
                    if let Some(f) = self.eval(&cases[i], &check, true) {
                        let mut ff = first_fail.lock().unwrap();
                        if ff.as_ref().map_or(true, |(fi, _)| i < *fi) {
                            *ff = Some((i, f));
                        }
                    }
                });
            }
        });
        if let Some((i, f)) = first_fail.into_inner().unwrap() {
            self.report_violation(part, &cases[i], &f, 0);
        }
        let mut ev = self.ev.lock().unwrap();
        ev.parts.insert(part.to_string(), json!({"enumerated": n, "exhaustive": exhaustive, "wall_s": t0.elapsed().as_secs_f64()}));
        if exhaustive {
            ev.exhaustive_parts.push(part.to_string());
        }
    }

    /// Replay one saved case through the same oracle without proptest.
    pub fn replay_case<T: DeserializeOwned + Serialize>(
        &self,
        part: &str,
        case_js: &J,
        check: impl Fn(&T, &mut Obs) -> CheckResult + Sync,
    ) -> Result<CheckResult, String> {
        let case: T = serde_json::from_value(case_js.clone()).map_err(|e| format!("cannot decode case for part {part}: {e}"))?;
        let mut obs = Obs::default();
        let r = guarded(|| check(&case, &mut obs));
        Ok(match r {
            Ok(r) => r,
            Err(msg) => Err(Fail::new("panic", format!("panic escaped the API: {msg}"))),
        })
    }

    /// Witness tier: re-run the recorded witness of every known finding of this property.
    /// open + still failing with the same id => KNOWN-FINDING line; fixed + failing => violation.
    pub fn run_witnesses(&self, replay: &dyn Fn(&str, &J) -> Option<Result<CheckResult, String>>) {
        for k in self.known.all(&self.id) {
            let Some(w) = &k.witness else { continue };
            let part = w.get("part").and_then(|p| p.as_str()).unwrap_or("");
            let case = w.get("case").cloned().unwrap_or(J::Null);
            let res = match replay(part, &case) {
                Some(Ok(r)) => r,
                Some(Err(e)) => {
                    self.note(format!("witness of {} could not be replayed: {e}", k.id));
                    continue;
                }
                None => {
                    self.note(format!("witness of {} names unknown part {part}", k.id));
                    continue;
                }
            };
            self.apply_witness_result(&k, part, &case, res);
        }
    }

    fn apply_witness_result(&self, k: &Known, part: &str, case: &J, res: CheckResult) {
        match (k.status.as_str(), res) {
            ("open", Err(f)) => {
                if f.known.as_deref() == Some(k.id.as_str()) && !self.strict {
                    let line = format!("KNOWN-FINDING: property={} {} [{}]", self.id, k.what, k.id);
                    println!("{line}");
                    let mut ev = self.ev.lock().unwrap();
                    ev.known_lines.push(line);
                    *ev.known_hits.entry(k.id.clone()).or_default() += 1;
                } else {
                    // the witness fails, but not with the recorded signature: a different violation
                    self.report_violation(&format!("{part}#witness:{}", k.id), case, &f, 0);
                }
            }
            ("open", Ok(())) => {
                self.note(format!("known finding {} no longer reproduces on this tree (witness passes)", k.id));
            }
            (_, Err(f)) => {
                // fixed entries suppress nothing
                let mut f = f;
                f.detail = format!("regression of fixed finding {}: {}", k.id, f.detail);
                self.report_violation(&format!("{part}#fixed:{}", k.id), case, &f, 0);
            }
            (_, Ok(())) => {
                let mut ev = self.ev.lock().unwrap();
                *ev.counters.entry("fixed_witnesses_passing".into()).or_default() += 1;
            }
        }
    }

    pub fn finish(&self) -> i32 {
        let ev = self.ev.lock().unwrap();
        let wall = self.start.elapsed().as_secs_f64();
        let mut samples: Vec<J> = ev.nt_samples.clone();
        for s in &ev.samples {
            if samples.len() < 8 {
                samples.push(s.clone());
            }
        }
        let level = self.level.lock().unwrap().clone();
        let evidence = json!({
            "property_id": self.id,
            "tier": self.tier.name(),
            "seed": self.seed,
            "level": level,
            "coverage": {
                "evaluations": ev.evaluations,
                "distinct_nontrivial": ev.nontrivial.len(),
                "rule": *self.rule.lock().unwrap(),
                "samples": samples,
                "classes": ev.classes,
                "counters": ev.counters,
                "excluded_known": ev.excluded_known,
                "known_finding_hits": ev.known_hits,
                "known_finding_lines": ev.known_lines,
                "discarded": ev.discarded,
                "parts": ev.parts,
                "exhaustive": !ev.exhaustive_parts.is_empty() && ev.exhaustive_parts.len() == ev.parts.len(),
                "exhaustive_parts": ev.exhaustive_parts,
                "violations_detail": ev.violations,
                "notes": ev.notes,
            },
            "assumptions": *self.assumptions.lock().unwrap(),
            "wall_s": wall,
            "violations": ev.violations.len(),
        });
        let path = format!("/verif/evidence/{}.json", self.id);
        let _ = std::fs::create_dir_all("/verif/evidence");
        let tmp = format!("{path}.tmp");
        std::fs::write(&tmp, serde_json::to_string_pretty(&evidence).unwrap()).expect("write evidence");
        std::fs::rename(&tmp, &path).expect("rename evidence");
        let violated = self.violated.load(Ordering::SeqCst);
        println!(
            "{} {}: evaluations={} distinct_nontrivial={} known_hits={} excluded_known={} discarded={} violations={} wall={:.1}s",
            self.id,
            self.tier.name(),
            ev.evaluations,
            ev.nontrivial.len(),
            ev.known_hits.values().sum::<u64>(),
            ev.excluded_known.values().sum::<u64>(),
            ev.discarded.values().sum::<u64>(),
            ev.violations.len(),
            wall
        );
        if violated {
            1
        } else if ev.evaluations == 0 {
            println!("INCONCLUSIVE: no case was evaluated");
            2
        } else {
            0
        }
    }
}

pub fn truncate(s: &str, n: usize) -> String {
    if s.len() <= n {
        s.to_string()
    } else {
        let mut end = n;
        while !s.is_char_boundary(end) {
            end -= 1;
        }
        format!("{}…", &s[..end])
    }
}

/// Draw one value from a strategy with a deterministic RNG (used by enumerations that need a
/// few random extras and by witness construction).
pub fn sample_one<S: Strategy>(s: &S, seed: u64) -> S::Value {
    let mut bytes = [0u8; 32];
    bytes[..8].copy_from_slice(&seed.to_le_bytes());
    let rng = TestRng::from_seed(RngAlgorithm::ChaCha, &bytes);
    let mut runner = TestRunner::new_with_rng(Config { failure_persistence: None, ..Config::default() }, rng);
    s.new_tree(&mut runner).expect("strategy").current()
}

/// Monotone index mapping (shrinks well): maps a u16 choice onto 0..len.
pub fn pick_idx(choice: u16, len: usize) -> usize {
    if len == 0 {
        0
    } else {
        ((choice as usize) * len) >> 16
    }
}
