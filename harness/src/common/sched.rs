//! E4: schedule engine. Worker threads run the real engine code one at a time; at every
//! `inputlayer::verif_hooks` site (feature `verif-hooks`) the running thread parks and the next
//! thread is picked from a generated, shrinkable choice tape. `before_lock` sites re-park while the
//! lock they are about to take is held by a parked thread, so a controlled thread never walks into
//! a lock it cannot get. Two fallbacks keep a run alive, neither ever produces a verdict by
//! itself: a thread that does not reach its next site within `GRACE` (it blocks on a lock the hooks
//! do not see, or computes for long) is *detached* and another thread is scheduled beside it; a run
//! without any progress for `STUCK` is released entirely (`free_run`) and reported as stuck.

use inputlayer::verif_hooks::{self, Scheduler};
use parking_lot::{Condvar, Mutex};
use std::sync::Arc;
use std::time::{Duration, Instant};

const GRACE: Duration = Duration::from_millis(400);
const STUCK: Duration = Duration::from_secs(20);

#[derive(Clone, Copy, Debug, PartialEq, Eq)]
enum St {
    NotStarted,
    Parked { blocked: bool },
    Running,
    Finished,
}

/// One scheduling decision: thread `tid` was resumed from `site`.
#[derive(Clone, Debug, serde::Serialize)]
pub struct Step {
    pub tid: usize,
    pub site: &'static str,
}

pub type StepHook = Box<dyn FnMut(usize, &[Step]) + Send>;

struct Inner {
    status: Vec<St>,
    site: Vec<&'static str>,
    /// epoch at which a blocked thread found its lock held
    blocked_at: Vec<u64>,
    detached: Vec<bool>,
    current: Option<usize>,
    choices: Vec<u16>,
    sticky: u16,
    pos: usize,
    trace: Vec<Step>,
    epoch: u64,
    free_run: bool,
    stuck: bool,
    deadlock: bool,
    detach_events: u32,
    blocked_events: u32,
    last_event: Instant,
    last_switch: Instant,
    on_step: Option<StepHook>,
}

pub struct Sched {
    inner: Mutex<Inner>,
    cv: Condvar,
}

struct Handle {
    tid: usize,
    sched: Arc<Sched>,
}

impl Scheduler for Handle {
    fn yield_point(&self, site: &'static str) {
        self.sched.park(self.tid, site, false);
    }
    fn before_lock(&self, site: &'static str, is_locked: &dyn Fn() -> bool) {
        // a preemption point first, then wait (parked, marked blocked) while the lock is held
        self.sched.park(self.tid, site, false);
        let mut rounds = 0u32;
        while is_locked() {
            if self.sched.is_free() {
                return;
            }
            rounds += 1;
            if rounds > 10_000 {
                return;
            }
            self.sched.park(self.tid, site, true);
        }
    }
}

/// What a run looked like, for classification.
#[derive(Clone, Debug, Default, serde::Serialize)]
pub struct RunInfo {
    pub steps: usize,
    pub switches: usize,
    pub detach_events: u32,
    pub blocked_events: u32,
    pub stuck: bool,
    pub deadlock: bool,
    pub sites: Vec<&'static str>,
    pub trace: Vec<Step>,
}

impl Sched {
    pub fn new(n: usize, choices: Vec<u16>, sticky: u16, on_step: Option<StepHook>) -> Arc<Sched> {
        let now = Instant::now();
        Arc::new(Sched {
            inner: Mutex::new(Inner {
                status: vec![St::NotStarted; n],
                site: vec!["start"; n],
                blocked_at: vec![0; n],
                detached: vec![false; n],
                current: None,
                choices,
                sticky,
                pos: 0,
                trace: Vec::new(),
                epoch: 0,
                free_run: false,
                stuck: false,
                deadlock: false,
                detach_events: 0,
                blocked_events: 0,
                last_event: now,
                last_switch: now,
                on_step,
            }),
            cv: Condvar::new(),
        })
    }

    fn is_free(&self) -> bool {
        self.inner.lock().free_run
    }

    /// Pick the next thread to run among the parked ones. Caller holds the lock; `current` must
    /// not be a running thread any more.
    fn pick_next(g: &mut Inner) {
        g.current = None;
        if g.free_run {
            return;
        }
        // a blocked thread is eligible again once somebody else has run since it blocked
        let cands: Vec<usize> = (0..g.status.len())
            .filter(|&t| match g.status[t] {
                St::Parked { blocked: false } => true,
                St::Parked { blocked: true } => g.blocked_at[t] < g.epoch,
                _ => false,
            })
            .collect();
        if cands.is_empty() {
            let any_blocked = g.status.iter().any(|s| matches!(s, St::Parked { blocked: true }));
            let any_running = (0..g.status.len()).any(|t| g.status[t] == St::Running);
            if any_blocked && !any_running {
                // every live thread waits for a lock that a parked thread holds: a deadlock under
                // this schedule. Release control; the run is reported, never judged.
                g.deadlock = true;
                g.free_run = true;
            }
            return;
        }
        let mut next = |g: &mut Inner| {
            let c = if g.pos < g.choices.len() { g.choices[g.pos] } else { 0 };
            g.pos += 1;
            c
        };
        // sticky schedules: with probability sticky/65536 the thread that ran last keeps the turn
        // (long uninterrupted runs of one thread are what races with many-step operations need)
        let last = g.trace.last().map(|s| s.tid);
        let stay = match last {
            Some(l) if g.sticky > 0 && cands.contains(&l) && !matches!(g.status[l], St::Parked { blocked: true }) => next(g) < g.sticky,
            _ => false,
        };
        let t = if stay {
            last.unwrap_or(cands[0])
        } else {
            let c = next(g);
            cands[(c as usize * cands.len()) >> 16]
        };
        if !matches!(g.status[t], St::Parked { blocked: true }) {
            g.epoch += 1;
        }
        let step = Step { tid: t, site: g.site[t] };
        g.trace.push(step);
        if g.detached.iter().all(|d| !d) {
            if let Some(mut h) = g.on_step.take() {
                h(g.trace.len() - 1, &g.trace);
                g.on_step = Some(h);
            }
        }
        g.current = Some(t);
        g.last_switch = Instant::now();
    }

    fn park(&self, tid: usize, site: &'static str, blocked: bool) {
        let mut g = self.inner.lock();
        if g.free_run {
            return;
        }
        g.last_event = Instant::now();
        g.status[tid] = St::Parked { blocked };
        g.site[tid] = site;
        if blocked {
            g.blocked_at[tid] = g.epoch;
            g.blocked_events += 1;
        }
        g.detached[tid] = false;
        if g.current == Some(tid) {
            Self::pick_next(&mut g);
        } else if g.current.is_none() && g.status.iter().all(|s| *s != St::NotStarted) {
            // nobody holds the turn (start of the run, or the turn holder was detached and finished)
            Self::pick_next(&mut g);
        }
        self.cv.notify_all();
        while g.current != Some(tid) && !g.free_run {
            self.cv.wait(&mut g);
        }
        g.status[tid] = St::Running;
    }

    fn finish(&self, tid: usize) {
        let mut g = self.inner.lock();
        g.last_event = Instant::now();
        g.status[tid] = St::Finished;
        g.detached[tid] = false;
        if g.current == Some(tid) || g.current.is_none() {
            Self::pick_next(&mut g);
        }
        self.cv.notify_all();
    }

    /// Called periodically by the controlling thread.
    fn monitor(&self) {
        let mut g = self.inner.lock();
        if g.free_run {
            return;
        }
        let now = Instant::now();
        if now.duration_since(g.last_event) > STUCK {
            g.stuck = true;
            g.free_run = true;
            self.cv.notify_all();
            return;
        }
        if let Some(t) = g.current {
            if g.status[t] == St::Running && now.duration_since(g.last_switch) > GRACE && !g.detached[t] {
                let others = g.status.iter().any(|s| matches!(s, St::Parked { .. }));
                if others {
                    g.detached[t] = true;
                    g.detach_events += 1;
                    g.epoch += 1;
                    Self::pick_next(&mut g);
                    self.cv.notify_all();
                }
            }
        }
    }
}

/// Run `bodies` as controlled threads under the schedule `choices`. Each body gets its thread
/// index. Returns `None` for a thread that panicked or did not finish within `timeout`.
pub fn run<T: Send + 'static>(
    choices: Vec<u16>,
    bodies: Vec<Box<dyn FnOnce(usize) -> T + Send>>,
    on_step: Option<StepHook>,
    timeout: Duration,
    free: bool,
    sticky: u16,
) -> (Vec<Option<T>>, RunInfo) {
    let n = bodies.len();
    let sched = Sched::new(n, choices, sticky, on_step);
    // `free`: no control at all - the threads race under the OS scheduler (stress mode)
    if free {
        sched.inner.lock().free_run = true;
    }
    let barrier = Arc::new(std::sync::Barrier::new(n));
    let (tx, rx) = std::sync::mpsc::channel::<(usize, Option<T>)>();
    for (tid, body) in bodies.into_iter().enumerate() {
        let sched = sched.clone();
        let tx = tx.clone();
        let barrier = barrier.clone();
        std::thread::Builder::new()
            .name(format!("sched-{tid}"))
            .spawn(move || {
                let h: Arc<dyn Scheduler> = Arc::new(Handle { tid, sched: sched.clone() });
                verif_hooks::install(h);
                if free {
                    barrier.wait();
                }
                sched.park(tid, "start", false);
                let r = std::panic::catch_unwind(std::panic::AssertUnwindSafe(|| body(tid))).ok();
                verif_hooks::uninstall();
                sched.finish(tid);
                let _ = tx.send((tid, r));
            })
            .expect("spawn");
    }
    drop(tx);
    let mut out: Vec<Option<T>> = (0..n).map(|_| None).collect();
    let mut done = 0;
    let t0 = Instant::now();
    while done < n {
        match rx.recv_timeout(Duration::from_millis(20)) {
            Ok((tid, r)) => {
                out[tid] = r;
                done += 1;
            }
            Err(std::sync::mpsc::RecvTimeoutError::Timeout) => {
                sched.monitor();
                if t0.elapsed() > timeout {
                    let mut g = sched.inner.lock();
                    g.stuck = true;
                    g.free_run = true;
                    sched.cv.notify_all();
                    drop(g);
                    // give released threads a moment, then give up on them (they are leaked)
                    let t1 = Instant::now();
                    while done < n && t1.elapsed() < Duration::from_secs(5) {
                        if let Ok((tid, r)) = rx.recv_timeout(Duration::from_millis(50)) {
                            out[tid] = r;
                            done += 1;
                        }
                    }
                    break;
                }
            }
            Err(_) => break,
        }
    }
    let g = sched.inner.lock();
    let mut sites: Vec<&'static str> = g.trace.iter().map(|s| s.site).collect();
    sites.sort();
    sites.dedup();
    let switches = g.trace.windows(2).filter(|w| w[0].tid != w[1].tid).count();
    let info = RunInfo {
        steps: g.trace.len(),
        switches,
        detach_events: g.detach_events,
        blocked_events: g.blocked_events,
        stuck: g.stuck,
        deadlock: g.deadlock,
        sites,
        trace: g.trace.clone(),
    };
    (out, info)
}
