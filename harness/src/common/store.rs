//! Adapters for StorageEngine / Handler based checks: temp data dirs, a shared tokio runtime,
//! helpers to read relations and catalogs.

use inputlayer::protocol::Handler;
use inputlayer::value::{Tuple, Value};
use inputlayer::{Config, StorageEngine};
use std::collections::BTreeSet;
use std::future::Future;
use std::path::{Path, PathBuf};
use std::sync::atomic::{AtomicU64, Ordering};
use std::sync::OnceLock;

use super::val::{from_tuple, VT};

static RT: OnceLock<tokio::runtime::Runtime> = OnceLock::new();

pub fn rt() -> &'static tokio::runtime::Runtime {
    RT.get_or_init(|| {
        tokio::runtime::Builder::new_multi_thread()
            .worker_threads(4)
            .max_blocking_threads(64)
            .enable_all()
            .build()
            .expect("tokio runtime")
    })
}

pub fn block_on<F: Future>(f: F) -> F::Output {
    rt().block_on(f)
}

static DIR_SEQ: AtomicU64 = AtomicU64::new(0);

/// Scratch directory (tmpfs when available), removed on drop.
pub struct Scratch {
    pub path: PathBuf,
}

impl Scratch {
    pub fn new(tag: &str) -> Scratch {
        let base = if Path::new("/dev/shm").is_dir() { PathBuf::from("/dev/shm") } else { std::env::temp_dir() };
        let n = DIR_SEQ.fetch_add(1, Ordering::SeqCst);
        let path = base.join(format!("ilverif-{}-{}-{}", std::process::id(), tag, n));
        let _ = std::fs::remove_dir_all(&path);
        std::fs::create_dir_all(&path).expect("create scratch dir");
        Scratch { path }
    }
}

impl Drop for Scratch {
    fn drop(&mut self) {
        let _ = std::fs::remove_dir_all(&self.path);
    }
}

pub fn base_config(dir: &Path) -> Config {
    let mut c = Config::default();
    c.storage.data_dir = dir.to_path_buf();
    // never touch the global rayon pool from generated configurations
    c.storage.performance.num_threads = 0;
    c
}

pub fn open_store(dir: &Path, tweak: impl FnOnce(&mut Config)) -> Result<StorageEngine, String> {
    let mut c = base_config(dir);
    tweak(&mut c);
    StorageEngine::new(c).map_err(|e| e.to_string())
}

pub fn open_handler(dir: &Path, tweak: impl FnOnce(&mut Config)) -> Result<Handler, String> {
    let st = open_store(dir, tweak)?;
    Ok(Handler::new(st))
}

pub const KG: &str = "default";

/// Full contents of a base relation through the public query path.
pub fn read_relation(st: &StorageEngine, kg: &str, rel: &str, arity: usize) -> Result<Vec<Tuple>, String> {
    let vars: Vec<String> = (0..arity).map(|i| format!("X{i}")).collect();
    let q = format!("__r({}) <- {}({})", vars.join(", "), rel, vars.join(", "));
    st.execute_query_tuples_on(kg, &q).map_err(|e| e.to_string())
}

pub fn read_relation_set(st: &StorageEngine, kg: &str, rel: &str, arity: usize) -> Result<BTreeSet<VT>, String> {
    Ok(read_relation(st, kg, rel, arity)?.iter().map(from_tuple).collect())
}

pub fn itup(row: &[i64]) -> Tuple {
    Tuple::new(row.iter().map(|v| Value::Int64(*v)).collect())
}

/// Handler query returning rows as tuples of wire values converted back to `Value`.
pub fn wire_to_value(w: &inputlayer::protocol::wire::WireValue) -> Value {
    use inputlayer::protocol::wire::WireValue as W;
    match w {
        W::Null => Value::Null,
        W::Int32(i) => Value::Int32(*i),
        W::Int64(i) => Value::Int64(*i),
        W::Float64(f) => Value::Float64(*f),
        W::String(s) => Value::string(s),
        W::Bool(b) => Value::Bool(*b),
        W::Vector(v) => Value::vector(v.clone()),
        W::VectorInt8(v) => Value::vector_int8(v.clone()),
        W::Timestamp(t) => Value::Timestamp(*t),
        #[allow(unreachable_patterns)]
        _ => Value::Null,
    }
}

pub fn result_tuples(r: &inputlayer::protocol::wire::QueryResult) -> Vec<Tuple> {
    r.rows.iter().map(|row| Tuple::new(row.values.iter().map(wire_to_value).collect())).collect()
}

pub fn result_messages(r: &inputlayer::protocol::wire::QueryResult) -> Vec<String> {
    use inputlayer::protocol::wire::WireValue as W;
    r.rows
        .iter()
        .filter_map(|row| match row.values.first() {
            Some(W::String(s)) => Some(s.clone()),
            _ => None,
        })
        .collect()
}
