//! Harness-side value type: serializable, identity = kind + bits (independent of the engine's
//! Eq/Ord/Hash, which C31 judges).

use inputlayer::value::{Tuple, Value};
use proptest::prelude::*;
use serde::{Deserialize, Serialize};

#[derive(Clone, Debug, Serialize, Deserialize, PartialEq, Eq, Hash, PartialOrd, Ord)]
pub enum V {
    Null,
    B(bool),
    I32(i32),
    I64(i64),
    /// f64 bits
    F(u64),
    Ts(i64),
    S(String),
    /// f32 bits
    Vec(Vec<u32>),
    VecI8(Vec<i8>),
}

pub fn f(x: f64) -> V {
    V::F(x.to_bits())
}
pub fn vecf(xs: &[f32]) -> V {
    V::Vec(xs.iter().map(|x| x.to_bits()).collect())
}

impl V {
    pub fn to_value(&self) -> Value {
        match self {
            V::Null => Value::Null,
            V::B(b) => Value::Bool(*b),
            V::I32(i) => Value::Int32(*i),
            V::I64(i) => Value::Int64(*i),
            V::F(b) => Value::Float64(f64::from_bits(*b)),
            V::Ts(t) => Value::Timestamp(*t),
            V::S(s) => Value::string(s),
            V::Vec(v) => Value::vector(v.iter().map(|b| f32::from_bits(*b)).collect()),
            V::VecI8(v) => Value::vector_int8(v.clone()),
        }
    }
    pub fn from_value(v: &Value) -> V {
        match v {
            Value::Null => V::Null,
            Value::Bool(b) => V::B(*b),
            Value::Int32(i) => V::I32(*i),
            Value::Int64(i) => V::I64(*i),
            Value::Float64(x) => V::F(x.to_bits()),
            Value::Timestamp(t) => V::Ts(*t),
            Value::String(s) => V::S(s.to_string()),
            Value::Vector(v) => V::Vec(v.iter().map(|x| x.to_bits()).collect()),
            Value::VectorInt8(v) => V::VecI8(v.as_ref().clone()),
        }
    }
    pub fn kind(&self) -> &'static str {
        match self {
            V::Null => "null",
            V::B(_) => "bool",
            V::I32(_) => "int32",
            V::I64(_) => "int64",
            V::F(_) => "float64",
            V::Ts(_) => "timestamp",
            V::S(_) => "string",
            V::Vec(_) => "vector",
            V::VecI8(_) => "vector_int8",
        }
    }
    pub fn as_f64(&self) -> Option<f64> {
        if let V::F(b) = self {
            Some(f64::from_bits(*b))
        } else {
            None
        }
    }
    pub fn is_special_float(&self) -> bool {
        match self {
            V::F(b) => {
                let x = f64::from_bits(*b);
                x.is_nan() || x.is_infinite() || (x == 0.0 && x.is_sign_negative())
            }
            V::Vec(v) => v.iter().any(|b| {
                let x = f32::from_bits(*b);
                x.is_nan() || x.is_infinite() || (x == 0.0 && x.is_sign_negative())
            }),
            _ => false,
        }
    }
}

pub type VT = Vec<V>;

pub fn to_tuple(t: &[V]) -> Tuple {
    Tuple::new(t.iter().map(V::to_value).collect())
}
pub fn from_tuple(t: &Tuple) -> VT {
    t.values().iter().map(V::from_value).collect()
}
pub fn ints(xs: &[i64]) -> VT {
    xs.iter().map(|x| V::I64(*x)).collect()
}

/// Edge-case-heavy value generator covering all nine kinds.
pub fn any_v() -> impl Strategy<Value = V> {
    let fl = prop_oneof![
        Just(0.0f64), Just(-0.0), Just(f64::NAN), Just(-f64::NAN), Just(f64::INFINITY), Just(f64::NEG_INFINITY),
        Just(f64::MIN_POSITIVE / 4.0), Just(1e300), Just(-1e300), Just(1.0), Just(2.5), Just(-3.75), Just(1e21), Just(1.5e-7),
        any::<f64>(),
    ];
    let st = prop_oneof![
        Just(String::new()), Just("a".to_string()), Just("hello world".to_string()), Just("quo\"te".to_string()),
        Just("back\\slash".to_string()), Just("naïve ☃".to_string()), Just("a,b".to_string()), Just("null".to_string()),
        "[a-z]{1,6}",
    ];
    let f32s = prop_oneof![Just(0.0f32), Just(-0.0f32), Just(1.0f32), Just(-2.5f32), Just(f32::NAN), Just(f32::INFINITY), Just(1e30f32), any::<f32>()];
    prop_oneof![
        1 => Just(V::Null),
        1 => any::<bool>().prop_map(V::B),
        2 => prop_oneof![Just(0), Just(1), Just(-1), Just(i32::MIN), Just(i32::MAX), any::<i32>()].prop_map(V::I32),
        3 => prop_oneof![Just(0i64), Just(1), Just(-1), Just(i64::MIN), Just(i64::MAX), -5i64..5, any::<i64>()].prop_map(V::I64),
        3 => fl.prop_map(|x| V::F(x.to_bits())),
        1 => prop_oneof![Just(0i64), Just(1_700_000_000_000), Just(-1), any::<i64>()].prop_map(V::Ts),
        3 => st.prop_map(V::S),
        2 => proptest::collection::vec(f32s, 0..6).prop_map(|v| V::Vec(v.into_iter().map(|x| x.to_bits()).collect())),
        1 => proptest::collection::vec(any::<i8>(), 0..6).prop_map(V::VecI8),
    ]
}
