//! Library face of the checker (the `check` binary and the fuzz targets under /verif/fuzz use it).
#![allow(dead_code, unused_imports, unused_variables, unused_assignments, clippy::all)]
pub mod common;
pub mod props;
