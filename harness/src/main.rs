//! `check <ID> --tier quick|thorough [--seed N] [--replay FILE]`
#![allow(dead_code, unused_imports, unused_variables, unused_assignments, clippy::all)]
use ilverif::common;
use ilverif::props;

use common::known::KnownSet;
use common::{Ctx, Tier};

fn main() {
    let args: Vec<String> = std::env::args().collect();
    if args.len() < 2 {
        eprintln!("usage: check <ID> [--tier quick|thorough] [--seed N] [--replay FILE]");
        std::process::exit(2);
    }
    let id = args[1].clone();
    if id == "list" {
        for p in props::ALL {
            println!("{p}");
        }
        return;
    }
    if id.starts_with("__") {
        std::process::exit(props::internal(&id, &args[2..]));
    }
    let mut tier = match std::env::var("VERIF_TIER").as_deref() {
        Ok("thorough") => Tier::Thorough,
        _ => Tier::Quick,
    };
    let mut seed: u64 = std::env::var("VERIF_SEED").ok().and_then(|s| s.parse::<i64>().ok()).map(|v| v as u64).unwrap_or(0);
    let mut replay: Option<String> = None;
    let mut i = 2;
    while i < args.len() {
        match args[i].as_str() {
            "--tier" => {
                i += 1;
                tier = if args[i] == "thorough" { Tier::Thorough } else { Tier::Quick };
            }
            "--seed" => {
                i += 1;
                seed = args[i].parse::<i64>().map(|v| v as u64).unwrap_or(0);
            }
            "--replay" => {
                i += 1;
                replay = Some(args[i].clone());
            }
            other => {
                eprintln!("unknown argument {other}");
                std::process::exit(2);
            }
        }
        i += 1;
    }
    if seed == 0 {
        seed = 0x5EED_1234_ABCD_0001;
    }
    let Some((run, rep)) = props::lookup(&id) else {
        eprintln!("unknown property {id}");
        std::process::exit(2);
    };
    common::runner::install_panic_hook();
    let known = KnownSet::load();
    let ctx = Ctx::new(&id, tier, seed, known);
    if let Some(path) = replay {
        let text = std::fs::read_to_string(&path).unwrap_or_else(|e| {
            eprintln!("cannot read {path}: {e}");
            std::process::exit(2);
        });
        let js: serde_json::Value = serde_json::from_str(&text).unwrap_or_else(|e| {
            eprintln!("cannot parse {path}: {e}");
            std::process::exit(2);
        });
        let part = js.get("part").and_then(|p| p.as_str()).unwrap_or("").to_string();
        let part = part.split('#').next().unwrap_or("").to_string();
        let case = js.get("case").cloned().unwrap_or(serde_json::Value::Null);
        match rep(&ctx, &part, &case) {
            Some(Ok(Ok(()))) => {
                println!("replay {path}: property held on this case");
                std::process::exit(0);
            }
            Some(Ok(Err(f))) => {
                if let Some(k) = &f.known {
                    if ctx.is_open_known(k) {
                        println!("KNOWN-FINDING: property={id} replayed case matches open finding {k}: {}", f.detail);
                        std::process::exit(0);
                    }
                }
                println!("VIOLATION property={id} replay={path}");
                println!("  part={part} kind={} detail={}", f.kind, f.detail);
                std::process::exit(1);
            }
            Some(Err(e)) => {
                eprintln!("replay error: {e}");
                std::process::exit(2);
            }
            None => {
                eprintln!("unknown part {part} for {id}");
                std::process::exit(2);
            }
        }
    }
    run(&ctx);
    ctx.run_witnesses(&|part, case| rep(&ctx, part, case));
    std::process::exit(ctx.finish());
}
