//! C01 — query answers equal the stratified least model (reference evaluator R1).

use crate::common::eng::{self, diff_sets, key_set, run_iql, short_err, EngErr, RunCfg};
use crate::common::gen::{case_strategy, features, Case, Features, GenOpts};
use crate::common::prog::{answer, RefError};
use crate::common::{CheckResult, Ctx, Fail, Obs};
use serde_json::{json, Value as J};

pub const K_MUTUAL: &str = "C01-mutual-recursion";
pub const K_AGG_ORDER: &str = "C01-agg-head-order";
pub const K_JP_REPEATED: &str = "C01-joinplan-repeated-var";

/// Signature of a known finding for a failing case (narrow: feature + failure kind).
pub fn classify(case: &Case, f: &Features, kind: &str, expected: &std::collections::BTreeSet<crate::common::prog::KRow>) -> Option<&'static str> {
    if f.mutual_recursion && (kind == "missing_tuples" || kind == "extra_tuples") {
        return Some(K_MUTUAL);
    }
    if f.agg_not_last && (kind == "missing_tuples" || kind == "extra_tuples") {
        return Some(K_AGG_ORDER);
    }
    let wrong = kind == "missing_tuples" || kind == "extra_tuples";
    if wrong && f.repeated_var_in_atom && f.join {
        // differential part of the signature: correct as soon as join planning is off
        let off = RunCfg { mask: eng::OPT_DEFAULT & !1, ..RunCfg::default() };
        if let Ok(t) = run_iql(case, &off) {
            if key_set(&t).ok().as_ref() == Some(expected) {
                return Some(K_JP_REPEATED);
            }
        }
    }
    None
}

/// `replaying`: judge the case even if it falls into a class the generator is steered away from
/// (used for witnesses and replay files).
pub fn check_engine(ctx: &Ctx, case: &Case, obs: &mut Obs, replaying: bool) -> CheckResult {
    let f = features(&case.prog);
    for c in f.classes() {
        obs.class(c);
    }
    if f.mutual_recursion && !replaying && ctx.is_open_known(K_MUTUAL) {
        // every consumer of a mutually recursive relation inherits the known defect (missing
        // tuples, or extra ones below a negation): excluded by construction while it is open
        obs.excluded_known = Some(K_MUTUAL.into());
        return Ok(());
    }
    let expected = match answer(&case.prog, &case.edb) {
        Ok(a) => a,
        Err(RefError::Unstratified(m)) => {
            obs.discard = Some(format!("generator produced unstratified program: {m}"));
            return Ok(());
        }
        Err(RefError::Undefined(m)) => {
            obs.discard = Some(format!("reference undefined: {m}"));
            return Ok(());
        }
    };
    obs.nontrivial = !expected.is_empty() && (f.join || f.negation || f.self_recursion || f.mutual_recursion || f.aggregate);
    obs.class_if(expected.is_empty(), "empty_answer");
    obs.sample = Some(json!({"program": case.prog.text().lines().collect::<Vec<_>>(), "edb": case.edb, "expected_rows": expected.len()}));
    let got = match run_iql(case, &RunCfg::default()) {
        Ok(t) => t,
        Err(EngErr::Watchdog) => {
            obs.discard = Some("watchdog".into());
            return Ok(());
        }
        Err(EngErr::Rejected(e)) => {
            obs.discard = Some(format!("engine_error: {}", short_err(&e)));
            return Ok(());
        }
    };
    let got_set = match key_set(&got) {
        Ok(s) => s,
        Err(e) => return Err(Fail::new("non_numeric_answer", e)),
    };
    // second query form: what the protocol handler generates for `?rel(args)` (this is the form
    // that triggers the magic-set rewrite)
    if got_set == expected {
        let text = crate::common::gen::handler_style_text(case);
        if let Ok(t2) = eng::run_iql_text(&text, case, &RunCfg::default()) {
            let model = crate::common::prog::eval(&case.prog.clauses, &case.edb).map_err(|e| Fail::new("reference_failed", format!("{e:?}")))?;
            let exp2 = crate::common::gen::handler_style_expected(case, &model);
            let got2 = key_set(&t2).map_err(|e| Fail::new("non_numeric_answer", e))?;
            obs.class("handler_style_form_checked");
            if got2 != exp2 {
                let (missing, extra) = diff_sets(&got2, &exp2);
                let kind = if !extra.is_empty() { "extra_tuples" } else { "missing_tuples" };
                let mut fail = Fail::new(kind, format!("[handler-style query form] program:\n{}\nedb: {:?}\nengine {} rows, reference {}; missing {:?} extra {:?}", text, case.edb, got2.len(), exp2.len(), missing, extra));
                if let Some(k) = classify(case, &f, kind, &expected) {
                    fail = fail.known(k);
                }
                return Err(fail);
            }
        }
    }
    if got_set != expected {
        let (missing, extra) = diff_sets(&got_set, &expected);
        let kind = if !extra.is_empty() { "extra_tuples" } else { "missing_tuples" };
        let mut fail = Fail::new(
            kind,
            format!(
                "program:\n{}\nedb: {:?}\nengine returned {} rows, reference model has {}; missing {:?} extra {:?}",
                case.prog.text(),
                case.edb,
                got_set.len(),
                expected.len(),
                missing,
                extra
            ),
        );
        if let Some(k) = classify(case, &f, kind, &expected) {
            fail = fail.known(k);
        }
        return Err(fail);
    }
    Ok(())
}

/// Engine answers through the other two entry points: persistent rules + facts in a StorageEngine
/// KG queried with `execute_query_with_rules_tuples_on`, and the same through `Handler::query_program`.
fn storage_paths(case: &Case) -> Result<(Vec<inputlayer::value::Tuple>, Vec<inputlayer::value::Tuple>), String> {
    use crate::common::store::*;
    let sc = Scratch::new("c01");
    let handler = open_handler(&sc.path, |_| {})?;
    {
        let st = handler.get_storage();
        for (rel, rows) in &case.edb {
            if rows.is_empty() {
                continue;
            }
            st.insert_tuples_into(KG, rel, rows.iter().map(|r| itup(r)).collect()).map_err(|e| format!("insert: {e}"))?;
        }
        let n = case.prog.clauses.len();
        for c in &case.prog.clauses[..n - 1] {
            let def = inputlayer::statement::parse_rule_definition(&c.text()).map_err(|e| format!("REJECT parse_rule_definition: {e}"))?;
            st.register_rule_in(KG, &def).map_err(|e| format!("REJECT register_rule: {e}"))?;
        }
    }
    let q = case.prog.query();
    let (r1, fired) = eng::with_watchdog(20, || handler.get_storage().execute_query_with_rules_tuples_on(KG, &q.text()));
    if fired {
        return Err("REJECT watchdog".into());
    }
    let r1 = r1.map_err(|e| format!("REJECT storage query: {e}"))?;
    // handler: `?target(args)` returns full rows of the target relation that match the constants
    let goal = match &q.body[0] {
        crate::common::prog::Lit::Pos(a) => a.text(),
        _ => unreachable!(),
    };
    let r2 = block_on(handler.query_program(Some(KG.to_string()), format!("?{goal}"))).map_err(|e| format!("REJECT handler query: {e}"))?;
    Ok((r1, result_tuples(&r2)))
}

pub fn check_storage(ctx: &Ctx, case: &Case, obs: &mut Obs, replaying: bool) -> CheckResult {
    let f = features(&case.prog);
    for c in f.classes() {
        obs.class(c);
    }
    if f.mutual_recursion && !replaying && ctx.is_open_known(K_MUTUAL) {
        obs.excluded_known = Some(K_MUTUAL.into());
        return Ok(());
    }
    let model = match crate::common::prog::eval(&case.prog.clauses, &case.edb) {
        Ok(m) => m,
        Err(e) => {
            obs.discard = Some(format!("reference: {e:?}"));
            return Ok(());
        }
    };
    let q = case.prog.query();
    let expected = model.db.get(&q.head).cloned().unwrap_or_default();
    // expected handler rows: rows of the target relation matching the goal's constants/repeats
    let crate::common::prog::Lit::Pos(goal) = &q.body[0] else { unreachable!() };
    let exp_handler: std::collections::BTreeSet<_> = model
        .db
        .get(&goal.rel)
        .cloned()
        .unwrap_or_default()
        .into_iter()
        .filter(|row| {
            let mut env = std::collections::BTreeMap::new();
            goal.args.iter().zip(row).all(|(t, v)| match t {
                crate::common::prog::T::C(c) => (*c, 0) == *v,
                crate::common::prog::T::V(x) => *env.entry(*x).or_insert(*v) == *v,
                crate::common::prog::T::W => true,
            })
        })
        .collect();
    obs.nontrivial = !expected.is_empty() && (f.join || f.negation || f.self_recursion || f.mutual_recursion || f.aggregate);
    let (r1, r2) = match storage_paths(case) {
        Ok(r) => r,
        Err(e) if e.starts_with("REJECT") => {
            obs.discard = Some(format!("engine_error: {}", short_err(&e)));
            return Ok(());
        }
        Err(e) => return Err(Fail::new("storage_setup_failed", e)),
    };
    for (name, got, exp) in [("storage_query", &r1, &expected), ("handler_query", &r2, &exp_handler)] {
        let got_set = key_set(got).map_err(|e| Fail::new("non_numeric_answer", e))?;
        if &got_set != exp {
            let (missing, extra) = diff_sets(&got_set, exp);
            let kind = if !extra.is_empty() { "extra_tuples" } else { "missing_tuples" };
            let mut fail = Fail::new(
                kind,
                format!("[{name}] persistent rules:\n{}\nedb: {:?}\nengine returned {} rows, reference {}; missing {:?} extra {:?}", case.prog.text(), case.edb, got_set.len(), exp.len(), missing, extra),
            );
            if let Some(k) = classify(case, &f, kind, &expected) {
                fail = fail.known(k);
            }
            return Err(fail);
        }
    }
    Ok(())
}

/// Binary recursion shapes around the transitive-closure pattern: `p` has one base clause over `e`
/// (columns possibly swapped / repeated) and one recursive clause with exactly the two atoms e(..),
/// p(..) in either order, head and body variables drawn freely from three variables. The exact TC
/// rule is one point of this space; its neighbours (p(Z, X), reversed base, left-linear, ...) must
/// be answered by their own least model, not by the closure of `e`.
fn tc_shape_case(tape: &[u16]) -> Option<Case> {
    use crate::common::gen::Tape;
    use crate::common::prog::{Atom, Clause, Lit, Program, HT, T};
    let mut t = Tape::new(tape);
    let v = |t: &mut Tape| t.below(3) as u8;
    let e = |a: u8, b: u8| Lit::Pos(Atom { rel: "e".into(), args: vec![T::V(a), T::V(b)] });
    let pa = |a: u8, b: u8| Lit::Pos(Atom { rel: "p".into(), args: vec![T::V(a), T::V(b)] });
    // base clause: p(h0, h1) <- e(b0, b1), head variables among the body's
    let (b0, b1) = if t.chance(1, 6) { (0u8, 0u8) } else { (0u8, 1u8) };
    let pick = |t: &mut Tape, from: &[u8]| from[t.below(from.len())];
    let base = Clause { head: "p".into(), hargs: vec![HT::V(pick(&mut t, &[b0, b1])), HT::V(pick(&mut t, &[b1, b0]))], body: vec![e(b0, b1)] };
    // recursive clause
    let (e0, e1, p0, p1) = (v(&mut t), v(&mut t), v(&mut t), v(&mut t));
    let body_vars: Vec<u8> = vec![e0, e1, p0, p1];
    let (h0, h1) = (pick(&mut t, &body_vars), pick(&mut t, &body_vars));
    let body = if t.chance(1, 2) { vec![e(e0, e1), pa(p0, p1)] } else { vec![pa(p0, p1), e(e0, e1)] };
    let rec = Clause { head: "p".into(), hargs: vec![HT::V(h0), HT::V(h1)], body };
    let q = Clause { head: "q".into(), hargs: vec![HT::V(0), HT::V(1)], body: vec![pa(0, 1)] };
    let clauses = if t.chance(1, 4) { vec![rec, base, q] } else { vec![base, rec, q] };
    let n = 2 + t.below(5);
    let mut rows: Vec<Vec<i64>> = Vec::new();
    for _ in 0..n {
        let r = vec![t.below(4) as i64, t.below(4) as i64];
        if !rows.contains(&r) {
            rows.push(r);
        }
    }
    let mut edb = crate::common::prog::Edb::new();
    edb.insert("e".into(), rows);
    let arity = [("e".to_string(), 2usize), ("p".to_string(), 2), ("q".to_string(), 2)].into_iter().collect();
    Some(Case { prog: Program { clauses }, edb, arity })
}

pub fn run(ctx: &Ctx) {
    ctx.set_rule(
        "G-prog x G-edb decoded from a 160-word choice tape (<=4 IDB relations, <=3 clauses each, <=3 body atoms, arity 1-3, \
         domain 0..4, <=8 rows per EDB relation; joins, constants, comparisons, integer arithmetic, stratified negation, self and \
         mutual recursion, non-recursive aggregates). Oracle: own naive stratified evaluator; answers compared as sets in both \
         directions. Non-trivial = expected answer non-empty AND program has a join, negation, recursion or aggregate. \
         Distinct = distinct (program, EDB) JSON.",
    );
    ctx.assume("reference evaluator R1 (harness/src/common/prog.rs) is correct for the generated fragment");
    ctx.assume("programs the engine rejects with Err are discarded (counted per message), not judged");
    let n = ctx.cases(20_000, 600_000);
    ctx.run_part_with("iql_engine", n, || case_strategy(GenOpts::default()), |c, o| check_engine(ctx, c, o, false), Some(&crate::common::gen::shrink_case));
    let n2 = ctx.cases(1500, 40_000);
    ctx.run_part_with("storage_and_handler", n2, || case_strategy(GenOpts::default()), |c, o| check_storage(ctx, c, o, false), Some(&crate::common::gen::shrink_case));
    // the neighbourhood of the transitive-closure rule (the engine has a fast path for that shape)
    use proptest::prelude::*;
    let n3 = ctx.cases(20_000, 300_000);
    ctx.run_part_with(
        "binary_recursion_shapes",
        n3,
        || crate::common::gen::tape_strategy(40).prop_filter_map("shape", |t| tc_shape_case(&t)),
        |c, o| check_engine(ctx, c, o, false),
        Some(&crate::common::gen::shrink_case),
    );
}

pub fn replay(ctx: &Ctx, part: &str, case: &J) -> Option<Result<CheckResult, String>> {
    Some(match part {
        "iql_engine" => ctx.replay_case(part, case, |c: &Case, o: &mut Obs| check_engine(ctx, c, o, true)),
        "storage_and_handler" => ctx.replay_case(part, case, |c: &Case, o: &mut Obs| check_storage(ctx, c, o, true)),
        "binary_recursion_shapes" => ctx.replay_case(part, case, |c: &Case, o: &mut Obs| check_engine(ctx, c, o, true)),
        _ => return None,
    })
}
