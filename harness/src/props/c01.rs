//! C01 — query answers equal the stratified least model (reference evaluator R1).

use crate::common::eng::{self, diff_sets, key_set, run_iql, short_err, EngErr, RunCfg};
use crate::common::gen::{case_strategy, features, Case, Features, GenOpts};
use crate::common::prog::{answer, RefError};
use crate::common::{CheckResult, Ctx, Fail, Obs};
use serde_json::{json, Value as J};

pub const K_MUTUAL: &str = "C01-mutual-recursion";

/// Signature of a known finding for a failing case (narrow: feature + failure kind).
pub fn classify(f: &Features, kind: &str) -> Option<&'static str> {
    if f.mutual_recursion && (kind == "missing_tuples" || kind == "engine_rejected_valid") {
        return Some(K_MUTUAL);
    }
    None
}

pub fn check_engine(case: &Case, obs: &mut Obs) -> CheckResult {
    let f = features(&case.prog);
    for c in f.classes() {
        obs.class(c);
    }
    let expected = match answer(&case.prog, &case.edb) {
        Ok(a) => a,
        Err(RefError::Unstratified(m)) => {
            obs.discard = Some(format!("generator produced unstratified program: {m}"));
            return Ok(());
        }
        Err(RefError::Undefined(m)) => {
            obs.discard = Some(format!("reference undefined: {m}"));
            return Ok(());
        }
    };
    obs.nontrivial = !expected.is_empty() && (f.join || f.negation || f.self_recursion || f.mutual_recursion || f.aggregate);
    obs.class_if(expected.is_empty(), "empty_answer");
    obs.sample = Some(json!({"program": case.prog.text().lines().collect::<Vec<_>>(), "edb": case.edb, "expected_rows": expected.len()}));
    let got = match run_iql(case, &RunCfg::default()) {
        Ok(t) => t,
        Err(EngErr::Watchdog) => {
            obs.discard = Some("watchdog".into());
            return Ok(());
        }
        Err(EngErr::Rejected(e)) => {
            obs.discard = Some(format!("engine_error: {}", short_err(&e)));
            return Ok(());
        }
    };
    let got_set = match key_set(&got) {
        Ok(s) => s,
        Err(e) => return Err(Fail::new("non_numeric_answer", e)),
    };
    if got_set != expected {
        let (missing, extra) = diff_sets(&got_set, &expected);
        let kind = if !extra.is_empty() { "extra_tuples" } else { "missing_tuples" };
        let mut fail = Fail::new(
            kind,
            format!(
                "program:\n{}\nedb: {:?}\nengine returned {} rows, reference model has {}; missing {:?} extra {:?}",
                case.prog.text(),
                case.edb,
                got_set.len(),
                expected.len(),
                missing,
                extra
            ),
        );
        if let Some(k) = classify(&f, kind) {
            fail = fail.known(k);
        }
        return Err(fail);
    }
    Ok(())
}

pub fn run(ctx: &Ctx) {
    ctx.set_rule(
        "G-prog x G-edb decoded from a 160-word choice tape (<=4 IDB relations, <=3 clauses each, <=3 body atoms, arity 1-3, \
         domain 0..4, <=8 rows per EDB relation; joins, constants, comparisons, integer arithmetic, stratified negation, self and \
         mutual recursion, non-recursive aggregates). Oracle: own naive stratified evaluator; answers compared as sets in both \
         directions. Non-trivial = expected answer non-empty AND program has a join, negation, recursion or aggregate. \
         Distinct = distinct (program, EDB) JSON.",
    );
    ctx.assume("reference evaluator R1 (harness/src/common/prog.rs) is correct for the generated fragment");
    ctx.assume("programs the engine rejects with Err are discarded (counted per message), not judged");
    let n = ctx.cases(1500, 40_000);
    ctx.run_part_with("iql_engine", n, || case_strategy(GenOpts::default()), check_engine, Some(&crate::common::gen::shrink_case));
}

pub fn replay(ctx: &Ctx, part: &str, case: &J) -> Option<Result<CheckResult, String>> {
    Some(match part {
        "iql_engine" => ctx.replay_case(part, case, check_engine),
        _ => return None,
    })
}
