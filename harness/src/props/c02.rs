//! C02 — optimizer switches never change answers (all 32 combinations per generated case).

use crate::common::eng::{self, key_set, opt_config, short_err, with_watchdog};
use crate::common::gen::{case_strategy, features, Case, GenOpts};
use crate::common::prog::KRow;
use crate::common::{CheckResult, Ctx, Fail, Obs};
use inputlayer::IQLEngine;
use serde_json::{json, Value as J};
use std::collections::{BTreeMap, BTreeSet};

pub const K_JP_REPEATED: &str = "C02-joinplan-repeated-var";

#[derive(Clone, PartialEq, Eq, Debug)]
enum Out {
    Rows(BTreeSet<KRow>),
    Err(String),
    Watchdog,
}

fn run_mask(case: &Case, mask: u8, text: &str) -> (Out, String) {
    let mut engine = IQLEngine::with_config(opt_config(mask));
    eng::load_edb(&mut engine, case);
    let (r, fired) = with_watchdog(20, || engine.execute_tuples(text));
    let ir = format!("{:?}", engine.ir_nodes());
    if fired {
        return (Out::Watchdog, ir);
    }
    match r {
        Ok(t) => match key_set(&t) {
            Ok(s) => (Out::Rows(s), ir),
            Err(e) => (Out::Err(format!("non-numeric: {e}")), ir),
        },
        Err(e) => (Out::Err(short_err(&e)), ir),
    }
}

pub fn check(ctx: &Ctx, case: &Case, obs: &mut Obs, _replaying: bool) -> CheckResult {
    let f = features(&case.prog);
    for c in f.classes() {
        obs.class(c);
    }
    let texts = [("query_clause", case.prog.text()), ("handler_style_query", crate::common::gen::handler_style_text(case))];
    let mut total_plans = 0usize;
    for (form, text) in &texts {
        let mut outs: Vec<(u8, Out)> = Vec::new();
        let mut irs: BTreeSet<String> = BTreeSet::new();
        for mask in 0u8..32 {
            let (o, ir) = run_mask(case, mask, text);
            if o == Out::Watchdog {
                obs.discard = Some("watchdog".into());
                return Ok(());
            }
            irs.insert(ir);
            outs.push((mask, o));
        }
        total_plans = total_plans.max(irs.len());
        if outs.iter().all(|(_, o)| matches!(o, Out::Err(_))) {
            if *form == "query_clause" {
                obs.discard = Some("engine_error under every configuration".into());
                return Ok(());
            }
            continue;
        }
        let base = outs[0].1.clone();
        let mut groups: BTreeMap<String, Vec<u8>> = BTreeMap::new();
        for (m, o) in &outs {
            groups.entry(format!("{o:?}")).or_default().push(*m);
        }
        if groups.len() > 1 {
            let kind = if outs.iter().any(|(_, o)| matches!(o, Out::Err(_))) { "config_error_mismatch" } else { "config_answer_mismatch" };
            let desc: Vec<String> = groups.iter().map(|(o, ms)| format!("masks {ms:?} -> {}", crate::common::runner::truncate(o, 300))).collect();
            let mut fail = Fail::new(
                kind,
                format!(
                    "[{form}] program:\n{}\nedb: {:?}\nmask bits: 1=join_planning 2=sip 4=subplan_sharing 8=boolean_spec 16=magic_sets\n{}",
                    text,
                    case.edb,
                    desc.join("\n")
                ),
            );
            let depends_only_on_bit0 = outs.iter().all(|(m, o)| *o == if m & 1 == 0 { base.clone() } else { outs[1].1.clone() });
            if f.repeated_var_in_atom && f.join && depends_only_on_bit0 && kind == "config_answer_mismatch" {
                fail = fail.known(K_JP_REPEATED);
            }
            let _ = ctx;
            return Err(fail);
        }
    }
    obs.nontrivial = (f.join || f.self_recursion || f.mutual_recursion) && total_plans >= 2;
    obs.class_if(total_plans >= 2, "switch_changed_plan");
    obs.count("distinct_optimized_plans", total_plans as u64);
    obs.sample = Some(json!({"program": case.prog.text().lines().collect::<Vec<_>>(), "edb": case.edb, "distinct_plans": total_plans}));
    Ok(())
}

/// Near-duplicate rules: two (or three) rules over the same base relations whose bodies differ only
/// in how the variables are arranged, in a constant, or in one comparison - the inputs on which
/// passes that work across rules (subplan sharing, join planning with shared scans) can wrongly
/// identify two different sub-plans.
fn near_duplicate_case(tape: &[u16]) -> Case {
    use crate::common::gen::Tape;
    use crate::common::prog::{Atom, Clause, Edb, Lit, Op, Program, HT, T};
    let mut t = Tape::new(tape);
    let ar_b = 2 + t.below(2); // b is binary or ternary
    let vars = |t: &mut Tape, n: usize, pool: u8| -> Vec<T> { (0..n).map(|_| T::V(t.below(pool as usize) as u8)).collect() };
    let body = |t: &mut Tape| -> Vec<Lit> {
        let mut b = vec![Lit::Pos(Atom { rel: "a".into(), args: vec![T::V(0), T::V(1)] }), Lit::Pos(Atom { rel: "b".into(), args: vars(t, ar_b, 3) })];
        match t.below(4) {
            0 => b.push(Lit::Cmp(T::V(t.below(2) as u8), [Op::Lt, Op::Gt, Op::Ne, Op::Eq][t.below(4)], T::C(t.below(3) as i64))),
            1 => b.push(Lit::Pos(Atom { rel: "a".into(), args: vars(t, 2, 3) })),
            _ => {}
        }
        b
    };
    let n_rules = 2 + t.below(2);
    let mut clauses = Vec::new();
    for i in 0..n_rules {
        clauses.push(Clause { head: format!("v{i}"), hargs: vec![HT::V(0), HT::V(1)], body: body(&mut t) });
    }
    // the query reads the last rule, alone or joined with / negated by an earlier one
    let last = n_rules - 1;
    let other = t.below(last.max(1));
    let mut qb = vec![Lit::Pos(Atom { rel: format!("v{last}"), args: vec![T::V(0), T::V(1)] })];
    match t.below(3) {
        0 => {}
        1 => qb.push(Lit::Pos(Atom { rel: format!("v{other}"), args: vec![T::V(1), T::V(0)] })),
        _ => qb.push(Lit::Neg(Atom { rel: format!("v{other}"), args: vec![T::V(0), T::V(1)] })),
    }
    clauses.push(Clause { head: "q".into(), hargs: vec![HT::V(0), HT::V(1)], body: qb });
    let mut edb = Edb::new();
    let mut rows = |t: &mut Tape, n: usize, ar: usize| -> Vec<Vec<i64>> {
        let mut out: Vec<Vec<i64>> = Vec::new();
        for _ in 0..n {
            let r: Vec<i64> = (0..ar).map(|_| t.below(4) as i64).collect();
            if !out.contains(&r) {
                out.push(r);
            }
        }
        out
    };
    let na = 3 + t.below(6);
    edb.insert("a".into(), rows(&mut t, na, 2));
    let nb = 3 + t.below(7);
    edb.insert("b".into(), rows(&mut t, nb, ar_b));
    let mut arity: std::collections::BTreeMap<String, usize> = [("a".to_string(), 2usize), ("b".to_string(), ar_b), ("q".to_string(), 2)].into_iter().collect();
    for i in 0..n_rules {
        arity.insert(format!("v{i}"), 2);
    }
    Case { prog: Program { clauses }, edb, arity }
}

pub fn run(ctx: &Ctx) {
    ctx.set_rule(
        "G-prog x G-edb (as C01); every case is executed under all 32 OptimizationConfig combinations (exhaustive in that \
         dimension) and the 32 outcomes must be identical as sets (an error under some but not all configurations counts as a \
         difference); each case runs in two query forms: a plain last clause, and the `__query__(_c0, A) <- rel(_c0, A), _c0 = k` form the protocol handler generates (the only form that triggers magic sets). Non-trivial = program has a join or recursion AND at least two configurations produced different optimized IR \
         (IQLEngine::ir_nodes), i.e. a switch really acted. Distinct = distinct (program, EDB) JSON.",
    );
    ctx.assume("metamorphic oracle: configurations are compared with each other only; a uniformly wrong answer is C01's business");
    let n = ctx.cases(1500, 40_000);
    ctx.run_part_with("all_32_configs", n, || case_strategy(GenOpts::default()), |c, o| check(ctx, c, o, false), Some(&crate::common::gen::shrink_case));
    use proptest::prelude::*;
    ctx.run_part_with(
        "near_duplicate_rules",
        ctx.cases(800, 16_000),
        || crate::common::gen::tape_strategy(80).prop_map(|t| near_duplicate_case(&t)),
        |c, o| check(ctx, c, o, false),
        Some(&crate::common::gen::shrink_case),
    );
}

pub fn replay(ctx: &Ctx, part: &str, case: &J) -> Option<Result<CheckResult, String>> {
    Some(match part {
        "all_32_configs" => ctx.replay_case(part, case, |c: &Case, o: &mut Obs| check(ctx, c, o, true)),
        "near_duplicate_rules" => ctx.replay_case(part, case, |c: &Case, o: &mut Obs| check(ctx, c, o, true)),
        _ => return None,
    })
}
