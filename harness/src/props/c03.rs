//! C03 — worker count never changes answers.

use crate::common::eng::{self, key_set, run_iql, short_err, EngErr, RunCfg};
use crate::common::gen::{case_strategy, features, Case, GenOpts};
use crate::common::prog::{HT, KRow};
use crate::common::{CheckResult, Ctx, Fail, Obs};
use serde_json::{json, Value as J};
use std::collections::BTreeSet;

const WORKERS: [usize; 4] = [2, 3, 4, 8];

fn opts() -> GenOpts {
    GenOpts { max_idb: 2, max_clauses_per_rel: 2, dom: 8, max_edb_rows: 40, p_recursion: 2, ..GenOpts::default() }
}

fn outcome(r: Result<Vec<inputlayer::value::Tuple>, EngErr>) -> Result<Result<BTreeSet<KRow>, String>, ()> {
    match r {
        Ok(t) => Ok(key_set(&t).map_err(|e| format!("non-numeric: {e}"))),
        Err(EngErr::Watchdog) => Err(()),
        Err(EngErr::Rejected(e)) => Ok(Err(short_err(&e))),
    }
}

fn storage_answer(case: &Case, workers: usize) -> Result<Result<BTreeSet<KRow>, String>, String> {
    use crate::common::store::*;
    let sc = Scratch::new("c03");
    let st = open_store(&sc.path, |c| c.storage.performance.num_threads = workers)?;
    for (rel, rows) in &case.edb {
        if rows.is_empty() {
            continue;
        }
        st.insert_tuples_into(KG, rel, rows.iter().map(|r| itup(r)).collect()).map_err(|e| format!("insert: {e}"))?;
    }
    let n = case.prog.clauses.len();
    for c in &case.prog.clauses[..n - 1] {
        let def = match inputlayer::statement::parse_rule_definition(&c.text()) {
            Ok(d) => d,
            Err(e) => return Ok(Err(format!("parse_rule_definition: {}", short_err(&e)))),
        };
        if let Err(e) = st.register_rule_in(KG, &def) {
            return Ok(Err(format!("register_rule: {}", short_err(&e.to_string()))));
        }
    }
    let q = case.prog.query().text();
    let (r, fired) = eng::with_watchdog(20, || st.execute_query_with_rules_tuples_on(KG, &q));
    if fired {
        return Err("watchdog".into());
    }
    Ok(match r {
        Ok(t) => key_set(&t).map_err(|e| format!("non-numeric: {e}")),
        Err(e) => Err(short_err(&e.to_string())),
    })
}

pub fn check(ctx: &Ctx, case: &Case, obs: &mut Obs, with_storage: bool) -> CheckResult {
    let f = features(&case.prog);
    for c in f.classes() {
        obs.class(c);
    }
    if crate::common::gen::exclude_mutual(ctx, &f, obs) {
        return Ok(());
    }
    let big = case.edb.values().any(|r| r.len() >= 4);
    let combines = case.prog.clauses.iter().any(|c| {
        c.has_agg()
            || c.hargs.iter().any(|h| matches!(h, HT::A(_)))
            || {
                // projection that can collapse rows: some body variable is not in the head
                let hv: BTreeSet<u8> = c.hargs.iter().filter_map(|h| if let HT::V(v) = h { Some(*v) } else { None }).collect();
                c.body.iter().any(|l| match l {
                    crate::common::prog::Lit::Pos(a) => a.args.iter().any(|t| match t {
                        crate::common::prog::T::V(v) => !hv.contains(v),
                        crate::common::prog::T::W => true,
                        _ => false,
                    }),
                    _ => false,
                })
            }
    });
    obs.nontrivial = big && combines;
    obs.class_if(big, "edb_ge_4_rows");
    obs.class_if(combines, "head_combines_or_computes");
    obs.sample = Some(json!({"program": case.prog.text().lines().collect::<Vec<_>>(), "edb_sizes": case.edb.iter().map(|(k, v)| (k.clone(), v.len())).collect::<Vec<_>>()}));
    let Ok(base) = outcome(run_iql(case, &RunCfg::default())) else {
        obs.discard = Some("watchdog".into());
        return Ok(());
    };
    if base.is_err() {
        obs.discard = Some(format!("engine_error: {}", base.unwrap_err()));
        return Ok(());
    }
    for w in WORKERS {
        let Ok(o) = outcome(run_iql(case, &RunCfg { workers: w, ..RunCfg::default() })) else {
            obs.discard = Some("watchdog".into());
            return Ok(());
        };
        if o != base {
            return Err(Fail::new(
                "workers_answer_mismatch",
                format!(
                    "[IQLEngine::set_num_workers({w})] program:\n{}\nedb: {:?}\n1 worker: {}\n{w} workers: {}",
                    case.prog.text(),
                    case.edb,
                    crate::common::runner::truncate(&format!("{base:?}"), 500),
                    crate::common::runner::truncate(&format!("{o:?}"), 500)
                ),
            ));
        }
    }
    if with_storage {
        let sbase = match storage_answer(case, 1) {
            Ok(b) => b,
            Err(e) if e == "watchdog" => {
                obs.discard = Some("watchdog".into());
                return Ok(());
            }
            Err(e) => return Err(Fail::new("storage_setup_failed", e)),
        };
        for w in [2usize, 4] {
            let o = match storage_answer(case, w) {
                Ok(b) => b,
                Err(e) if e == "watchdog" => {
                    obs.discard = Some("watchdog".into());
                    return Ok(());
                }
                Err(e) => return Err(Fail::new("storage_setup_failed", e)),
            };
            if o != sbase {
                return Err(Fail::new(
                    "workers_answer_mismatch",
                    format!(
                        "[storage.performance.num_threads={w}] persistent rules:\n{}\nedb: {:?}\nnum_threads=1: {}\nnum_threads={w}: {}",
                        case.prog.text(),
                        case.edb,
                        crate::common::runner::truncate(&format!("{sbase:?}"), 500),
                        crate::common::runner::truncate(&format!("{o:?}"), 500)
                    ),
                ));
            }
        }
        obs.class("storage_path_checked");
    }
    Ok(())
}

pub fn run(ctx: &Ctx) {
    ctx.set_rule(
        "G-prog biased to few relations with EDBs of up to 40 rows over a domain of 8 (so hash partitions are populated); each case \
         runs with num_workers in {2,3,4,8} via IQLEngine::set_num_workers and must equal the 1-worker outcome; a second part also \
         runs num_threads in {1,2,4} through StorageEngine config. Non-trivial = some EDB relation has >=4 rows AND some clause \
         aggregates, computes a column or projects away a body variable. Distinct = distinct (program, EDB) JSON.",
    );
    ctx.assume("metamorphic oracle: worker counts are compared with the single-worker run of the same engine");
    let n = ctx.cases(3000, 100_000);
    ctx.run_part_with("iql_engine_workers", n, || case_strategy(opts()), |c, o| check(ctx, c, o, false), Some(&crate::common::gen::shrink_case));
    let n2 = ctx.cases(400, 10_000);
    ctx.run_part_with("storage_num_threads", n2, || case_strategy(opts()), |c, o| check(ctx, c, o, true), Some(&crate::common::gen::shrink_case));
}

pub fn replay(ctx: &Ctx, part: &str, case: &J) -> Option<Result<CheckResult, String>> {
    Some(match part {
        "iql_engine_workers" => ctx.replay_case(part, case, |c: &Case, o: &mut Obs| check(ctx, c, o, false)),
        "storage_num_threads" => ctx.replay_case(part, case, |c: &Case, o: &mut Obs| check(ctx, c, o, true)),
        _ => return None,
    })
}
