//! C04 — answers are independent of clause order and engine history; queries never change the
//! stored base facts.

use crate::common::eng::{self, key_set, load_edb, opt_config, short_err, with_watchdog, OPT_DEFAULT};
use crate::common::gen::{decode, features, tape_strategy, Case, GenOpts};
use crate::common::prog::{Clause, KRow, Program};
use crate::common::{CheckResult, Ctx, Fail, Obs};
use inputlayer::value::Tuple;
use inputlayer::IQLEngine;
use proptest::prelude::*;
use serde::{Deserialize, Serialize};
use serde_json::{json, Value as J};
use std::collections::{BTreeMap, BTreeSet};

#[derive(Clone, Debug, Serialize, Deserialize)]
pub struct HCase {
    pub main: Case,
    /// programs executed first on the same engine (their EDB relations are renamed h<i>_*)
    pub history: Vec<Case>,
    pub perm_seed: u64,
}

fn rename(case: &Case, prefix: &str) -> Case {
    // rename every relation so that history programs are unrelated to the main one
    let r = |s: &str| format!("{prefix}{s}");
    let mut c = case.clone();
    for cl in &mut c.prog.clauses {
        cl.head = r(&cl.head);
        for l in &mut cl.body {
            match l {
                crate::common::prog::Lit::Pos(a) | crate::common::prog::Lit::Neg(a) => a.rel = r(&a.rel),
                _ => {}
            }
        }
    }
    c.edb = case.edb.iter().map(|(k, v)| (r(k), v.clone())).collect();
    c.arity = case.arity.iter().map(|(k, v)| (r(k), *v)).collect();
    c
}

fn strategy() -> impl Strategy<Value = HCase> {
    (tape_strategy(160), proptest::collection::vec(tape_strategy(120), 0..3), any::<u64>()).prop_map(|(t, hs, perm_seed)| {
        let main = decode(&t, &GenOpts::default());
        let hopts = GenOpts { query_constants: true, p_recursion: 10, ..GenOpts::default() };
        let history = hs.iter().enumerate().map(|(i, h)| rename(&decode(h, &hopts), &format!("h{i}x"))).collect();
        HCase { main, history, perm_seed }
    })
}

fn lcg(s: &mut u64) -> u64 {
    *s = s.wrapping_mul(6364136223846793005).wrapping_add(1442695040888963407);
    *s >> 33
}

fn permutations(n: usize, seed: u64) -> Vec<Vec<usize>> {
    // all permutations for n <= 4 (24), otherwise 12 derived from the case's perm_seed
    let mut out = Vec::new();
    if n <= 4 {
        fn rec(cur: &mut Vec<usize>, used: &mut Vec<bool>, n: usize, out: &mut Vec<Vec<usize>>) {
            if cur.len() == n {
                out.push(cur.clone());
                return;
            }
            for i in 0..n {
                if !used[i] {
                    used[i] = true;
                    cur.push(i);
                    rec(cur, used, n, out);
                    cur.pop();
                    used[i] = false;
                }
            }
        }
        rec(&mut Vec::new(), &mut vec![false; n], n, &mut out);
    } else {
        let mut s = seed | 1;
        for _ in 0..12 {
            let mut p: Vec<usize> = (0..n).collect();
            for i in (1..n).rev() {
                let j = (lcg(&mut s) as usize) % (i + 1);
                p.swap(i, j);
            }
            out.push(p);
        }
        out.push((0..n).rev().collect());
    }
    out
}

type Outcome = Result<BTreeSet<KRow>, String>;

fn run_on(engine: &mut IQLEngine, text: &str) -> Result<Outcome, ()> {
    let (r, fired) = with_watchdog(20, || engine.execute_tuples(text));
    if fired {
        return Err(());
    }
    Ok(match r {
        Ok(t) => key_set(&t).map_err(|e| format!("non-numeric: {e}")),
        Err(e) => Err(short_err(&e)),
    })
}

fn fresh(case: &Case, text: &str) -> Result<Outcome, ()> {
    let mut e = IQLEngine::with_config(opt_config(OPT_DEFAULT));
    load_edb(&mut e, case);
    run_on(&mut e, text)
}

fn base_facts(e: &IQLEngine) -> BTreeMap<String, Vec<Tuple>> {
    e.input_tuples()
        .iter()
        .map(|(k, v)| {
            let mut v = v.clone();
            v.sort();
            (k.clone(), v)
        })
        .collect()
}

fn prog_text(clauses: &[Clause]) -> String {
    Program { clauses: clauses.to_vec() }.text()
}

pub fn check(ctx: &Ctx, hc: &HCase, obs: &mut Obs, replaying: bool) -> CheckResult {
    let case = &hc.main;
    let f = features(&case.prog);
    for c in f.classes() {
        obs.class(c);
    }
    let _ = replaying;
    if crate::common::gen::exclude_mutual(ctx, &f, obs) {
        return Ok(());
    }
    let n = case.prog.clauses.len() - 1;
    let base_text = case.prog.text();
    let Ok(base) = fresh(case, &base_text) else {
        obs.discard = Some("watchdog".into());
        return Ok(());
    };
    if let Err(e) = &base {
        obs.discard = Some(format!("engine_error: {e}"));
        return Ok(());
    }
    obs.sample = Some(json!({"program": base_text.lines().collect::<Vec<_>>(), "history_programs": hc.history.len()}));
    let mut nontrivial = false;
    // (a) permutations of the non-query clauses
    let perms = permutations(n, hc.perm_seed);
    obs.count("permutations", perms.len() as u64);
    for p in &perms {
        let mut cl: Vec<Clause> = p.iter().map(|&i| case.prog.clauses[i].clone()).collect();
        cl.push(case.prog.query().clone());
        // non-trivial: the permutation changes the relative order of two clauses with different heads
        for a in 0..n {
            for b in a + 1..n {
                let (pa, pb) = (p.iter().position(|x| *x == a).unwrap(), p.iter().position(|x| *x == b).unwrap());
                if pa > pb && case.prog.clauses[a].head != case.prog.clauses[b].head {
                    nontrivial = true;
                }
            }
        }
        let text = prog_text(&cl);
        let Ok(o) = fresh(case, &text) else {
            obs.discard = Some("watchdog".into());
            return Ok(());
        };
        if o != base {
            return Err(Fail::new(
                "clause_order_changes_answer",
                format!(
                    "original order:\n{base_text}\n-> {}\npermuted:\n{text}\n-> {}\nedb: {:?}",
                    crate::common::runner::truncate(&format!("{base:?}"), 400),
                    crate::common::runner::truncate(&format!("{o:?}"), 400),
                    case.edb
                ),
            ));
        }
    }
    // (b) a repeated clause
    for i in 0..n {
        let mut cl = case.prog.clauses.clone();
        cl.insert(i, case.prog.clauses[i].clone());
        let text = prog_text(&cl);
        let Ok(o) = fresh(case, &text) else {
            obs.discard = Some("watchdog".into());
            return Ok(());
        };
        if o != base {
            return Err(Fail::new(
                "repeated_clause_changes_answer",
                format!("original:\n{base_text}\n-> {}\nwith clause {i} repeated -> {}\nedb: {:?}", crate::common::runner::truncate(&format!("{base:?}"), 400), crate::common::runner::truncate(&format!("{o:?}"), 400), case.edb),
            ));
        }
    }
    // (c) engine history: other programs first on the same engine; base facts never change
    let mut e = IQLEngine::with_config(opt_config(OPT_DEFAULT));
    load_edb(&mut e, case);
    for h in &hc.history {
        load_edb(&mut e, h);
    }
    let before = base_facts(&e);
    for (hi, h) in hc.history.iter().enumerate() {
        let hf = features(&h.prog);
        if (hf.self_recursion || hf.mutual_recursion) && hf.query_binds_constant {
            nontrivial = true;
            obs.class("history_recursive_bound_query");
        }
        // history programs run in the handler's query form (the one that seeds magic sets)
        let text = crate::common::gen::handler_style_text(h);
        if run_on(&mut e, &text).is_err() {
            obs.discard = Some("watchdog".into());
            return Ok(());
        }
        let after = base_facts(&e);
        for (rel, rows) in &before {
            if after.get(rel) != Some(rows) {
                return Err(Fail::new(
                    "query_changed_base_facts",
                    format!("after executing history program {hi}:\n{text}\nrelation {rel} changed from {:?} to {:?}", rows, after.get(rel)),
                ));
            }
        }
        if after.len() != before.len() {
            obs.class("internal_relation_left_in_engine");
        }
    }
    for text in [base_text.clone(), crate::common::gen::handler_style_text(case)] {
        let Ok(expect) = fresh(case, &text) else {
            obs.discard = Some("watchdog".into());
            return Ok(());
        };
        let Ok(o) = run_on(&mut e, &text) else {
            obs.discard = Some("watchdog".into());
            return Ok(());
        };
        if o != expect {
            return Err(Fail::new(
                "engine_history_changes_answer",
                format!(
                    "program:\n{text}\nfresh engine -> {}\nengine that first ran {} other program(s) -> {}\nhistory:\n{}\nedb: {:?}",
                    crate::common::runner::truncate(&format!("{expect:?}"), 400),
                    hc.history.len(),
                    crate::common::runner::truncate(&format!("{o:?}"), 400),
                    hc.history.iter().map(crate::common::gen::handler_style_text).collect::<Vec<_>>().join("\n--\n"),
                    case.edb
                ),
            ));
        }
        // and once more: running the same program twice on one engine
        let Ok(o2) = run_on(&mut e, &text) else {
            obs.discard = Some("watchdog".into());
            return Ok(());
        };
        if o2 != expect {
            return Err(Fail::new("engine_history_changes_answer", format!("program:\n{text}\nsecond execution on the same engine -> {o2:?}, first -> {expect:?}")));
        }
    }
    let after = base_facts(&e);
    for (rel, rows) in &before {
        if after.get(rel) != Some(rows) {
            return Err(Fail::new("query_changed_base_facts", format!("relation {rel} changed from {rows:?} to {:?} after executing\n{base_text}", after.get(rel))));
        }
    }
    // (d) the same rules asked with different bound constants, one after the other on ONE engine (what a
    // session does): `?p(0, Y)`, `?p(1, Y)`, ... in the handler's query form, each compared with a fresh engine
    {
        use crate::common::prog::{Atom, Lit, HT, T};
        let idb: Vec<(String, usize)> = case.prog.clauses[..case.prog.clauses.len() - 1]
            .iter()
            .map(|c| c.head.clone())
            .collect::<BTreeSet<_>>()
            .into_iter()
            .filter_map(|h| case.arity.get(&h).map(|a| (h, *a)))
            .filter(|(_, a)| *a >= 2)
            .take(2)
            .collect();
        let mut e2 = IQLEngine::with_config(opt_config(OPT_DEFAULT));
        load_edb(&mut e2, case);
        for (rel, ar) in &idb {
            for cst in [0i64, 1, 2, 0] {
                let mut v = case.clone();
                let k = v.prog.clauses.len() - 1;
                let args: Vec<T> = std::iter::once(T::C(cst)).chain((1..*ar).map(|i| T::V(i as u8))).collect();
                v.prog.clauses[k] = Clause { head: "q".into(), hargs: (1..*ar).map(|i| HT::V(i as u8)).collect(), body: vec![Lit::Pos(Atom { rel: rel.clone(), args })] };
                v.arity.insert("q".into(), ar - 1);
                let text = crate::common::gen::handler_style_text(&v);
                let (Ok(expect), Ok(o)) = (fresh(&v, &text), run_on(&mut e2, &text)) else {
                    obs.discard = Some("watchdog".into());
                    return Ok(());
                };
                obs.class("bound_query_sequence_on_one_engine");
                if o != expect {
                    return Err(Fail::new(
                        "engine_history_changes_answer",
                        format!(
                            "program:\n{text}\nfresh engine -> {}\nengine that answered the same rules with other constants before -> {}\nedb: {:?}",
                            crate::common::runner::truncate(&format!("{expect:?}"), 400),
                            crate::common::runner::truncate(&format!("{o:?}"), 400),
                            case.edb
                        ),
                    ));
                }
            }
        }
    }
    obs.nontrivial = nontrivial;
    Ok(())
}

/// Storage path: the same rule set registered in different orders; base relations unchanged by queries.
pub fn check_storage(ctx: &Ctx, hc: &HCase, obs: &mut Obs) -> CheckResult {
    use crate::common::store::*;
    let case = &hc.main;
    if crate::common::gen::exclude_mutual(ctx, &features(&case.prog), obs) {
        return Ok(());
    }
    let n = case.prog.clauses.len() - 1;
    let perms = permutations(n, hc.perm_seed);
    let qtext = case.prog.query().text();
    let mut base: Option<Outcome> = None;
    let mut nontrivial = false;
    for (pi, p) in perms.iter().take(4).enumerate() {
        let sc = Scratch::new("c04");
        let st = open_store(&sc.path, |_| {}).map_err(|e| Fail::new("storage_setup_failed", e))?;
        for (rel, rows) in &case.edb {
            if !rows.is_empty() {
                st.insert_tuples_into(KG, rel, rows.iter().map(|r| itup(r)).collect()).map_err(|e| Fail::new("storage_setup_failed", e.to_string()))?;
            }
        }
        let mut rejected = None;
        for &i in p {
            let c = &case.prog.clauses[i];
            match inputlayer::statement::parse_rule_definition(&c.text()) {
                Ok(def) => {
                    if let Err(e) = st.register_rule_in(KG, &def) {
                        rejected = Some(short_err(&e.to_string()));
                        break;
                    }
                }
                Err(e) => {
                    rejected = Some(short_err(&e));
                    break;
                }
            }
        }
        let before: Vec<_> = case.edb.iter().filter(|(_, r)| !r.is_empty()).map(|(rel, rows)| (rel.clone(), read_relation_set(&st, KG, rel, rows[0].len()))).collect();
        let o: Outcome = match rejected {
            Some(e) => Err(format!("registration rejected: {e}")),
            None => {
                let (r, fired) = eng::with_watchdog(20, || st.execute_query_with_rules_tuples_on(KG, &qtext));
                if fired {
                    obs.discard = Some("watchdog".into());
                    return Ok(());
                }
                match r {
                    Ok(t) => key_set(&t).map_err(|e| format!("non-numeric: {e}")),
                    Err(e) => Err(short_err(&e.to_string())),
                }
            }
        };
        for (rel, b) in &before {
            let after = read_relation_set(&st, KG, rel, case.edb[rel][0].len());
            if &after != b {
                return Err(Fail::new("query_changed_base_facts", format!("[storage] relation {rel} changed by a query: {b:?} -> {after:?}")));
            }
        }
        if pi == 0 {
            if let Err(e) = &o {
                obs.discard = Some(format!("engine_error: {e}"));
                return Ok(());
            }
            base = Some(o);
        } else {
            nontrivial = true;
            if Some(&o) != base.as_ref() {
                return Err(Fail::new(
                    "rule_registration_order_changes_answer",
                    format!("rules:\n{}\nregistered in order {:?} -> {:?}\nregistered in order {:?} -> {:?}\nedb: {:?}", case.prog.text(), perms[0], base, p, o, case.edb),
                ));
            }
        }
    }
    obs.nontrivial = nontrivial && n >= 2;
    Ok(())
}

pub fn run(ctx: &Ctx) {
    ctx.set_rule(
        "G-prog main program + 0-2 unrelated history programs (relations renamed) + a permutation seed. Variants: every permutation \
         of the non-query clauses (all for <=4 clauses, 13 derived from the seed otherwise), each clause repeated once, and the \
         program executed on an engine that first ran the history programs in the handler's `__query__` form; all variants must \
         give the outcome of a fresh engine, and input_tuples() of pre-existing relations must be unchanged after every execution. \
         Storage part: the rule set registered in up to 4 different orders must answer identically and queries must not change \
         base relations. Non-trivial = a permutation reorders two clauses of different heads, or the history holds a recursive \
         program whose query binds a constant. Distinct = distinct case JSON.",
    );
    ctx.assume("metamorphic oracle: variants are compared with a fresh-engine run of the unpermuted program");
    let n = ctx.cases(3000, 45_000);
    ctx.run_part("iql_engine_order_and_history", n, strategy, |c, o| check(ctx, c, o, false));
    let n2 = ctx.cases(600, 10_000);
    ctx.run_part("storage_registration_order", n2, strategy, |c, o| check_storage(ctx, c, o));
}

pub fn replay(ctx: &Ctx, part: &str, case: &J) -> Option<Result<CheckResult, String>> {
    Some(match part {
        "iql_engine_order_and_history" => ctx.replay_case(part, case, |c: &HCase, o: &mut Obs| check(ctx, c, o, true)),
        "storage_registration_order" => ctx.replay_case(part, case, |c: &HCase, o: &mut Obs| check_storage(ctx, c, o)),
        _ => return None,
    })
}
