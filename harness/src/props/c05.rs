//! C05 — IR rewrite passes preserve plan semantics.

use crate::common::eng::{key_set, load_edb, opt_config, with_watchdog};
use crate::common::gen::{decode, features, tape_strategy, Case, GenOpts};
use crate::common::plan;
use crate::common::prog::KRow;
use crate::common::{CheckResult, Ctx, Fail, Obs};
use inputlayer::SemiringType;
use inputlayer::ir::IRNode;
use inputlayer::{BooleanSpecializer, CodeGenerator, IQLEngine, JoinPlanner, Optimizer};
use proptest::prelude::*;
use serde_json::{json, Value as J};
use std::collections::BTreeSet;

fn opts() -> GenOpts {
    GenOpts { max_idb: 1, max_clauses_per_rel: 3, self_recursion: false, mutual_recursion: false, agg_wildcards: true, ..GenOpts::default() }
}

fn strategy() -> impl Strategy<Value = Case> {
    tape_strategy(120).prop_map(|t| decode(&t, &opts()))
}

fn exec(ir: &IRNode, case: &Case, semiring: Option<SemiringType>) -> Result<Result<BTreeSet<KRow>, String>, ()> {
    let mut cg = CodeGenerator::new();
    for (rel, rows) in &case.edb {
        cg.add_input(rel.clone(), rows.iter().map(|r| crate::common::eng::int_tuple(r)).collect());
    }
    if let Some(s) = semiring {
        cg.set_semiring_type(s);
    }
    let (r, fired) = with_watchdog(20, || cg.execute(ir));
    if fired {
        return Err(());
    }
    Ok(match r {
        Ok(t) => key_set(&t).map_err(|e| format!("non-numeric: {e}")),
        Err(e) => Err(crate::common::eng::short_err(&e)),
    })
}

fn reference(ir: &IRNode, case: &Case) -> Result<BTreeSet<KRow>, String> {
    plan::eval(ir, &case.edb).map(|b| plan::support(&b)).map_err(|u| u.0)
}

fn show(ir: &IRNode) -> String {
    crate::common::runner::truncate(&format!("{ir:?}"), 1500)
}

pub fn check(_ctx: &Ctx, case: &Case, obs: &mut Obs) -> CheckResult {
    let f = features(&case.prog);
    for c in f.classes() {
        obs.class(c);
    }
    // plan produced by the real IRBuilder for the derived relation p0 (sound by construction)
    let mut engine = IQLEngine::with_config(opt_config(0));
    load_edb(&mut engine, case);
    let text = case.prog.text();
    if let Err(e) = engine.parse(&text) {
        obs.discard = Some(format!("parse: {}", crate::common::eng::short_err(&e)));
        return Ok(());
    }
    if let Err(e) = engine.build_ir(false) {
        obs.discard = Some(format!("build_ir: {}", crate::common::eng::short_err(&e)));
        return Ok(());
    }
    let Some(plan0) = engine.ir_nodes().first().cloned() else {
        obs.discard = Some("no IR".into());
        return Ok(());
    };
    judge_plan(&plan0, case, &text, obs)
}

/// Core of C05: every pass applied to `plan0` must keep both the executed result and the
/// reference interpreter's denotation.
pub fn judge_plan(plan0: &IRNode, case: &Case, text: &str, obs: &mut Obs) -> CheckResult {
    let plan0 = plan0.clone();
    let Ok(base) = exec(&plan0, case, None) else {
        obs.discard = Some("watchdog".into());
        return Ok(());
    };
    let base = match base {
        Ok(b) => b,
        Err(e) => {
            obs.discard = Some(format!("executor rejects the builder's plan: {e}"));
            return Ok(());
        }
    };
    let ref0 = match reference(&plan0, case) {
        Ok(r) => Some(r),
        Err(e) => {
            obs.count(&format!("reference_unsupported: {}", crate::common::runner::truncate(&e, 40)), 1);
            None
        }
    };
    if let Some(r0) = &ref0 {
        if r0 != &base {
            return Err(Fail::new(
                "executor_disagrees_with_plan_semantics",
                format!("program:\n{text}\nedb: {:?}\nplan: {}\nCodeGenerator::execute -> {:?}\nreference interpreter -> {:?}", case.edb, show(&plan0), base, r0),
            ));
        }
    }
    obs.sample = Some(json!({"program": text.lines().collect::<Vec<_>>(), "edb": case.edb, "rows": base.len()}));
    let passes: Vec<(&str, Box<dyn Fn(IRNode) -> (IRNode, Option<SemiringType>)>)> = vec![
        ("Optimizer::optimize", Box::new(|ir| (Optimizer::new().optimize(ir), None))),
        ("JoinPlanner::plan_joins", Box::new(|ir| (JoinPlanner::new().plan_joins(ir), None))),
        (
            "BooleanSpecializer::specialize",
            Box::new(|ir| {
                let (ir2, ann) = BooleanSpecializer::new().specialize(ir);
                (ir2, Some(ann.semiring))
            }),
        ),
        (
            "plan_joins -> specialize -> optimize",
            Box::new(|ir| {
                let ir = JoinPlanner::new().plan_joins(ir);
                let (ir, ann) = BooleanSpecializer::new().specialize(ir);
                (Optimizer::new().optimize(ir), Some(ann.semiring))
            }),
        ),
    ];
    let mut changed_any = false;
    for (name, pass) in &passes {
        let (p, semiring) = pass(plan0.clone());
        if p != plan0 {
            changed_any = true;
            obs.class(&format!("changed_by: {name}"));
        }
        let Ok(got) = exec(&p, case, semiring) else {
            obs.discard = Some("watchdog".into());
            return Ok(());
        };
        match got {
            Ok(g) if g == base => {}
            other => {
                return Err(Fail::new(
                    "rewrite_changes_result",
                    format!(
                        "pass {name}\nprogram:\n{text}\nedb: {:?}\nplan before: {}\nplan after: {}\nexecuted before -> {:?}\nexecuted after (semiring {semiring:?}) -> {:?}",
                        case.edb,
                        show(&plan0),
                        show(&p),
                        base,
                        other
                    ),
                ));
            }
        }
        if let (Some(r0), Ok(r1)) = (&ref0, reference(&p, case)) {
            if &r1 != r0 {
                return Err(Fail::new(
                    "rewrite_changes_denotation",
                    format!("pass {name}\nprogram:\n{text}\nedb: {:?}\nplan before: {}\nplan after: {}\nreference interpreter before -> {:?}\nafter -> {:?}", case.edb, show(&plan0), show(&p), r0, r1),
                ));
            }
        }
    }
    obs.nontrivial = changed_any && !base.is_empty();
    Ok(())
}

pub fn run(ctx: &Ctx) {
    ctx.set_rule(
        "Plans built by the real IRBuilder from generated rules of one derived relation over EDB relations (1-3 clauses -> Union; joins, \
         filters, arithmetic Compute, negation -> Antijoin, aggregates, wildcards, constants, repeated variables), small random \
         databases. For each pass P in {Optimizer::optimize (fixpoint rules, push-down, flat-map / join-flat-map fusion), \
         JoinPlanner::plan_joins, BooleanSpecializer::specialize, their pipeline composition}: CodeGenerator::execute(P(plan)) must \
         equal CodeGenerator::execute(plan), and an independent bag-semantics plan interpreter must give the same relation for plan \
         and P(plan) and agree with the executor on the unrewritten plan. Non-trivial = some pass changed the plan structurally and \
         the result is non-empty. Distinct = distinct (program, EDB).",
    );
    ctx.assume("plans come from IRBuilder, so they satisfy the builder's schema invariants by construction");
    ctx.assume("the reference interpreter (harness/src/common/plan.rs) implements the operator meaning documented in src/ir/mod.rs");
    ctx.run_part_with("builder_plans", ctx.cases(20_000, 300_000), strategy, |c, o| check(ctx, c, o), Some(&crate::common::gen::shrink_case));
    ctx.run_part(
        "synthetic_plans",
        ctx.cases(20_000, 300_000),
        || tape_strategy(140).prop_map(|t| super::c05syn::decode(&t)),
        |c, o| super::c05syn::check(ctx, c, o),
    );
}

pub fn replay(ctx: &Ctx, part: &str, case: &J) -> Option<Result<CheckResult, String>> {
    Some(match part {
        "builder_plans" => ctx.replay_case(part, case, |c: &Case, o: &mut Obs| check(ctx, c, o)),
        "synthetic_plans" => ctx.replay_case(part, case, |c: &super::c05syn::SynCase, o: &mut Obs| super::c05syn::check(ctx, c, o)),
        _ => return None,
    })
}
