//! C05, source (b): synthetic well-formed plan trees over Scan/Map/Filter/Join/Antijoin/Distinct/
//! Union/Compute/Aggregate with every predicate form, kept consistent with the builder's schema
//! invariants (column name = variable; equal names across a join's inputs are exactly its keys;
//! join schema = left ++ right-non-key).

use crate::common::gen::{Case, Tape};
use crate::common::prog::{Edb, Program, Row};
use crate::common::{CheckResult, Ctx, Obs};
use inputlayer::ast::{ArithExpr, ArithOp as AstOp, ComparisonOp};
use inputlayer::ir::{AggregateFunction, ArithOp, IRExpression, IRNode, Predicate};
use serde::{Deserialize, Serialize};
use std::collections::{BTreeMap, BTreeSet, HashMap};

#[derive(Clone, Debug, Serialize, Deserialize)]
pub enum Pr {
    /// (column, op 0..6, constant)
    Const(usize, u8, i64),
    /// (column, op 0..6, column)
    Cols(usize, u8, usize),
    /// column cmp (var + k): ColumnCompareArith
    ColArith(usize, u8, usize, i64),
    /// (var * k) cmp const: ArithCompareConst
    ArithConst(usize, i64, u8, i64),
    And(Box<Pr>, Box<Pr>),
    Or(Box<Pr>, Box<Pr>),
    True,
    False,
}

#[derive(Clone, Debug, Serialize, Deserialize)]
pub enum P {
    Scan(String, usize),
    Map(Box<P>, Vec<usize>),
    Filter(Box<P>, Pr),
    /// join on `n_keys` shared columns: pairs (left index, right index)
    Join(Box<P>, Box<P>, Vec<(usize, usize)>),
    Anti(Box<P>, Box<P>, Vec<(usize, usize)>),
    Distinct(Box<P>),
    /// all inputs have the same arity
    Union(Vec<P>),
    /// append (col a) op (col b | const k)
    Compute(Box<P>, usize, u8, Option<usize>, i64),
    /// group-by columns, aggregates (kind 0..6, column)
    Agg(Box<P>, Vec<usize>, Vec<(u8, usize)>),
}

#[derive(Clone, Debug, Serialize, Deserialize)]
pub struct SynCase {
    pub plan: P,
    pub edb: Edb,
}

fn cmp(op: u8) -> ComparisonOp {
    match op % 6 {
        0 => ComparisonOp::Equal,
        1 => ComparisonOp::NotEqual,
        2 => ComparisonOp::LessThan,
        3 => ComparisonOp::LessOrEqual,
        4 => ComparisonOp::GreaterThan,
        _ => ComparisonOp::GreaterOrEqual,
    }
}

fn pred_ir(p: &Pr, schema: &[String]) -> Predicate {
    match p {
        Pr::Const(c, op, v) => match op % 6 {
            0 => Predicate::ColumnEqConst(*c, *v),
            1 => Predicate::ColumnNeConst(*c, *v),
            2 => Predicate::ColumnLtConst(*c, *v),
            3 => Predicate::ColumnLeConst(*c, *v),
            4 => Predicate::ColumnGtConst(*c, *v),
            _ => Predicate::ColumnGeConst(*c, *v),
        },
        Pr::Cols(a, op, b) => match op % 6 {
            0 => Predicate::ColumnsEq(*a, *b),
            1 => Predicate::ColumnsNe(*a, *b),
            2 => Predicate::ColumnsLt(*a, *b),
            3 => Predicate::ColumnsLe(*a, *b),
            4 => Predicate::ColumnsGt(*a, *b),
            _ => Predicate::ColumnsGe(*a, *b),
        },
        Pr::ColArith(c, op, v, k) => {
            let name = schema[*v].clone();
            let mut map = HashMap::new();
            map.insert(name.clone(), *v);
            Predicate::ColumnCompareArith(
                *c,
                cmp(*op),
                ArithExpr::Binary { op: AstOp::Add, left: Box::new(ArithExpr::Variable(name)), right: Box::new(ArithExpr::Constant(*k)) },
                map,
            )
        }
        Pr::ArithConst(v, k, op, c) => {
            let name = schema[*v].clone();
            let mut map = HashMap::new();
            map.insert(name.clone(), *v);
            Predicate::ArithCompareConst(
                ArithExpr::Binary { op: AstOp::Mul, left: Box::new(ArithExpr::Variable(name)), right: Box::new(ArithExpr::Constant(*k)) },
                cmp(*op),
                *c,
                map,
            )
        }
        Pr::And(a, b) => Predicate::And(Box::new(pred_ir(a, schema)), Box::new(pred_ir(b, schema))),
        Pr::Or(a, b) => Predicate::Or(Box::new(pred_ir(a, schema)), Box::new(pred_ir(b, schema))),
        Pr::True => Predicate::True,
        Pr::False => Predicate::False,
    }
}

/// Lower to IRNode. `fresh` numbers variables so that names are unique except where a join
/// makes them equal.
pub fn to_ir(p: &P, fresh: &mut usize) -> (IRNode, Vec<String>) {
    match p {
        P::Scan(rel, arity) => {
            let schema: Vec<String> = (0..*arity)
                .map(|_| {
                    *fresh += 1;
                    format!("V{}", *fresh)
                })
                .collect();
            (IRNode::Scan { relation: rel.clone(), schema: schema.clone() }, schema)
        }
        P::Map(i, proj) => {
            let (n, s) = to_ir(i, fresh);
            let out: Vec<String> = proj.iter().map(|x| s[*x].clone()).collect();
            (IRNode::Map { input: Box::new(n), projection: proj.clone(), output_schema: out.clone() }, out)
        }
        P::Filter(i, pr) => {
            let (n, s) = to_ir(i, fresh);
            let pred = pred_ir(pr, &s);
            (IRNode::Filter { input: Box::new(n), predicate: pred }, s)
        }
        P::Distinct(i) => {
            let (n, s) = to_ir(i, fresh);
            (IRNode::Distinct { input: Box::new(n) }, s)
        }
        P::Join(l, r, keys) | P::Anti(l, r, keys) => {
            let (ln, ls) = to_ir(l, fresh);
            let (rn, mut rs) = to_ir(r, fresh);
            // equal names <=> key pair: rename the right key columns to the left names
            let rn = rename_cols(rn, &mut rs, keys, &ls);
            let lk: Vec<usize> = keys.iter().map(|k| k.0).collect();
            let rk: Vec<usize> = keys.iter().map(|k| k.1).collect();
            if matches!(p, P::Join(..)) {
                let mut out = ls.clone();
                for (i, n) in rs.iter().enumerate() {
                    if !rk.contains(&i) {
                        out.push(n.clone());
                    }
                }
                (IRNode::Join { left: Box::new(ln), right: Box::new(rn), left_keys: lk, right_keys: rk, output_schema: out.clone() }, out)
            } else {
                (IRNode::Antijoin { left: Box::new(ln), right: Box::new(rn), left_keys: lk, right_keys: rk, output_schema: ls.clone() }, ls)
            }
        }
        P::Union(inputs) => {
            let mut nodes = Vec::new();
            let mut first: Option<Vec<String>> = None;
            // the inputs are variants of one subtree: number their variables identically so that
            // all union inputs carry the same schema
            let start = *fresh;
            let mut end = start;
            for i in inputs {
                *fresh = start;
                let (n, s) = to_ir(i, fresh);
                end = end.max(*fresh);
                if first.is_none() {
                    first = Some(s);
                }
                nodes.push(n);
            }
            *fresh = end;
            (IRNode::Union { inputs: nodes }, first.unwrap_or_default())
        }
        P::Compute(i, a, op, b, k) => {
            let (n, mut s) = to_ir(i, fresh);
            *fresh += 1;
            let name = format!("V{}", *fresh);
            let irop = match op % 4 {
                0 => ArithOp::Add,
                1 => ArithOp::Sub,
                2 => ArithOp::Mul,
                _ => ArithOp::Mod,
            };
            let right = match (irop, b) {
                (ArithOp::Mod, _) => IRExpression::IntConstant((*k).rem_euclid(4) + 1),
                (_, Some(c)) => IRExpression::Column(*c),
                (_, None) => IRExpression::IntConstant(*k),
            };
            let e = IRExpression::Arithmetic { op: irop, left: Box::new(IRExpression::Column(*a)), right: Box::new(right) };
            s.push(name.clone());
            (IRNode::Compute { input: Box::new(n), expressions: vec![(name, e)] }, s)
        }
        P::Agg(i, group, aggs) => {
            let (n, s) = to_ir(i, fresh);
            let mut out: Vec<String> = group.iter().map(|g| s[*g].clone()).collect();
            let mut fs = Vec::new();
            for (k, c) in aggs {
                let (f, nm) = match k % 6 {
                    0 => (AggregateFunction::Count, "count"),
                    1 => (AggregateFunction::Sum, "sum"),
                    2 => (AggregateFunction::Min, "min"),
                    3 => (AggregateFunction::Max, "max"),
                    4 => (AggregateFunction::CountDistinct, "count_distinct"),
                    _ => (AggregateFunction::Avg, "avg"),
                };
                out.push(format!("{nm}_{}", s[*c]));
                fs.push((f, *c));
            }
            (IRNode::Aggregate { input: Box::new(n), group_by: group.clone(), aggregations: fs, output_schema: out.clone() }, out)
        }
    }
}

fn rename_cols(node: IRNode, schema: &mut [String], keys: &[(usize, usize)], left: &[String]) -> IRNode {
    // rename in the node's own output schema (and recursively where the name originates)
    let mut map: BTreeMap<String, String> = BTreeMap::new();
    for (l, r) in keys {
        map.insert(schema[*r].clone(), left[*l].clone());
        schema[*r] = left[*l].clone();
    }
    rename_node(node, &map)
}

fn rn(v: &[String], m: &BTreeMap<String, String>) -> Vec<String> {
    v.iter().map(|s| m.get(s).cloned().unwrap_or_else(|| s.clone())).collect()
}

fn rename_pred(p: Predicate, m: &BTreeMap<String, String>) -> Predicate {
    fn ren_expr(e: ArithExpr, m: &BTreeMap<String, String>) -> ArithExpr {
        match e {
            ArithExpr::Variable(v) => ArithExpr::Variable(m.get(&v).cloned().unwrap_or(v)),
            ArithExpr::Binary { op, left, right } => ArithExpr::Binary { op, left: Box::new(ren_expr(*left, m)), right: Box::new(ren_expr(*right, m)) },
            o => o,
        }
    }
    let ren_map = |vm: HashMap<String, usize>| -> HashMap<String, usize> { vm.into_iter().map(|(k, v)| (m.get(&k).cloned().unwrap_or(k), v)).collect() };
    match p {
        Predicate::ColumnCompareArith(c, op, e, vm) => Predicate::ColumnCompareArith(c, op, ren_expr(e, m), ren_map(vm)),
        Predicate::ArithCompareConst(e, op, v, vm) => Predicate::ArithCompareConst(ren_expr(e, m), op, v, ren_map(vm)),
        Predicate::And(a, b) => Predicate::And(Box::new(rename_pred(*a, m)), Box::new(rename_pred(*b, m))),
        Predicate::Or(a, b) => Predicate::Or(Box::new(rename_pred(*a, m)), Box::new(rename_pred(*b, m))),
        o => o,
    }
}

fn rename_node(n: IRNode, m: &BTreeMap<String, String>) -> IRNode {
    match n {
        IRNode::Scan { relation, schema } => IRNode::Scan { relation, schema: rn(&schema, m) },
        IRNode::Map { input, projection, output_schema } => IRNode::Map { input: Box::new(rename_node(*input, m)), projection, output_schema: rn(&output_schema, m) },
        IRNode::Filter { input, predicate } => IRNode::Filter { input: Box::new(rename_node(*input, m)), predicate: rename_pred(predicate, m) },
        IRNode::Distinct { input } => IRNode::Distinct { input: Box::new(rename_node(*input, m)) },
        IRNode::Join { left, right, left_keys, right_keys, output_schema } => IRNode::Join {
            left: Box::new(rename_node(*left, m)),
            right: Box::new(rename_node(*right, m)),
            left_keys,
            right_keys,
            output_schema: rn(&output_schema, m),
        },
        IRNode::Antijoin { left, right, left_keys, right_keys, output_schema } => IRNode::Antijoin {
            left: Box::new(rename_node(*left, m)),
            right: Box::new(rename_node(*right, m)),
            left_keys,
            right_keys,
            output_schema: rn(&output_schema, m),
        },
        IRNode::Union { inputs } => IRNode::Union { inputs: inputs.into_iter().map(|i| rename_node(i, m)).collect() },
        IRNode::Compute { input, expressions } => IRNode::Compute {
            input: Box::new(rename_node(*input, m)),
            expressions: expressions.into_iter().map(|(n, e)| (m.get(&n).cloned().unwrap_or(n), e)).collect(),
        },
        IRNode::Aggregate { input, group_by, aggregations, output_schema } => {
            IRNode::Aggregate { input: Box::new(rename_node(*input, m)), group_by, aggregations, output_schema: rn(&output_schema, m) }
        }
        o => o,
    }
}

// -------------------------------------------------------------------------------------------
// generator

const RELS: [(&str, usize); 3] = [("e0", 2), ("e1", 3), ("e2", 1)];

fn gen_pred(t: &mut Tape, arity: usize, int_cols: &[usize], depth: u32) -> Pr {
    let c = |t: &mut Tape| int_cols[t.below(int_cols.len())];
    let k = t.below(if depth > 0 { 9 } else { 6 });
    let _ = arity;
    match k {
        0 | 1 => Pr::Const(c(t), t.below(6) as u8, t.range(0, 3)),
        2 => Pr::Cols(c(t), t.below(6) as u8, c(t)),
        3 => Pr::ColArith(c(t), t.below(6) as u8, c(t), t.range(0, 2)),
        4 => Pr::ArithConst(c(t), t.range(1, 3), t.below(6) as u8, t.range(0, 6)),
        5 => {
            if t.chance(12, 16) {
                Pr::True
            } else {
                Pr::False
            }
        }
        6 | 7 => Pr::And(Box::new(gen_pred(t, arity, int_cols, depth - 1)), Box::new(gen_pred(t, arity, int_cols, depth - 1))),
        _ => Pr::Or(Box::new(gen_pred(t, arity, int_cols, depth - 1)), Box::new(gen_pred(t, arity, int_cols, depth - 1))),
    }
}

/// A join input as the IR builder produces them: a scan, a filtered scan, or a (left-deep) join of
/// those. The rewrite passes are only ever applied to plans of this layering (joins at the bottom,
/// everything else stacked above); JoinPlanner in particular assumes it.
fn gen_leaf(t: &mut Tape) -> (P, usize, Vec<usize>) {
    let (r, a) = RELS[t.below(3)];
    let scan = P::Scan(r.to_string(), a);
    let ints: Vec<usize> = (0..a).collect();
    if t.chance(4, 16) {
        let p = if a >= 2 && t.chance(6, 16) { Pr::Cols(0, 0, 1) } else { Pr::Const(t.below(a), 0, t.range(0, 3)) };
        (P::Filter(Box::new(scan), p), a, ints)
    } else {
        (scan, a, ints)
    }
}

fn gen_jointree(t: &mut Tape) -> (P, usize, Vec<usize>) {
    let (mut cur, mut ca, mut ci) = gen_leaf(t);
    let n = t.below(3);
    for _ in 0..n {
        let (r, ra, ri) = gen_leaf(t);
        let nk = if t.chance(2, 16) { 0 } else { 1 + t.below(2.min(ca.min(ra))) };
        let mut keys: Vec<(usize, usize)> = Vec::new();
        for _ in 0..nk {
            let k = (ci[t.below(ci.len())], ri[t.below(ri.len())]);
            if !keys.iter().any(|x| x.0 == k.0 || x.1 == k.1) {
                keys.push(k);
            }
        }
        let rk: Vec<usize> = keys.iter().map(|k| k.1).collect();
        let mut pos = ca;
        for i in 0..ra {
            if !rk.contains(&i) {
                ci.push(pos);
                pos += 1;
            }
        }
        cur = P::Join(Box::new(cur), Box::new(r), keys);
        ca = pos;
    }
    (cur, ca, ci)
}

/// returns (plan, arity, columns that hold integers)
fn gen_plan(t: &mut Tape, depth: u32) -> (P, usize, Vec<usize>) {
    if depth == 0 || t.chance(3, 16) {
        return gen_jointree(t);
    }
    match t.below(10) {
        0 => {
            let (i, a, ints) = gen_plan(t, depth - 1);
            let n = 1 + t.below(a.min(3));
            let mut proj = Vec::new();
            for _ in 0..n {
                proj.push(t.below(a));
            }
            // keep projections duplicate-free (column name = variable)
            proj.sort();
            proj.dedup();
            if t.chance(8, 16) {
                proj.reverse();
            }
            let new_ints: Vec<usize> = proj.iter().enumerate().filter(|(_, c)| ints.contains(c)).map(|(i, _)| i).collect();
            let n = proj.len();
            if new_ints.is_empty() {
                return (i, a, ints);
            }
            (P::Map(Box::new(i), proj), n, new_ints)
        }
        1 | 2 => {
            let (i, a, ints) = gen_plan(t, depth - 1);
            let p = gen_pred(t, a, &ints, 2);
            (P::Filter(Box::new(i), p), a, ints)
        }
        3 => {
            let (i, a, ints) = gen_plan(t, depth - 1);
            (P::Distinct(Box::new(i)), a, ints)
        }
        4 | 5 => {
            // more stacking above the same subtree: a second filter / distinct pair
            let (i, a, ints) = gen_plan(t, depth - 1);
            let p = gen_pred(t, a, &ints, 1);
            (P::Distinct(Box::new(P::Filter(Box::new(i), p))), a, ints)
        }
        6 => {
            let (l, la, li) = gen_plan(t, depth - 1);
            let (r, _ra, ri) = gen_leaf(t);
            let keys = vec![(li[t.below(li.len())], ri[t.below(ri.len())])];
            (P::Anti(Box::new(l), Box::new(r), keys), la, li)
        }
        7 => {
            // (Union appears only at the top of a plan, as in the engine's pipeline: see decode)
            let (i, a, ints) = gen_plan(t, depth - 1);
            let p1 = gen_pred(t, a, &ints, 2);
            (P::Filter(Box::new(i), p1), a, ints)
        }
        8 => {
            let (i, a, ints) = gen_plan(t, depth - 1);
            let ca = ints[t.below(ints.len())];
            let b = if t.chance(8, 16) { Some(ints[t.below(ints.len())]) } else { None };
            let mut ni = ints.clone();
            ni.push(a);
            (P::Compute(Box::new(i), ca, t.below(4) as u8, b, t.range(1, 3)), a + 1, ni)
        }
        _ => {
            let (i, a, ints) = gen_plan(t, depth - 1);
            let ng = t.below(a.min(2) + 1);
            let mut group: Vec<usize> = (0..ng).map(|_| t.below(a)).collect();
            group.sort();
            group.dedup();
            let na = 1 + t.below(2);
            let mut aggs = Vec::new();
            for _ in 0..na {
                aggs.push((t.below(6) as u8, ints[t.below(ints.len())]));
            }
            let mut ni: Vec<usize> = group.iter().enumerate().filter(|(_, g)| ints.contains(g)).map(|(i, _)| i).collect();
            for (j, (k, _)) in aggs.iter().enumerate() {
                if k % 6 != 5 {
                    ni.push(group.len() + j);
                }
            }
            let ar = group.len() + aggs.len();
            if ni.is_empty() {
                return (i, a, ints);
            }
            (P::Agg(Box::new(i), group, aggs), ar, ni)
        }
    }
}

pub fn decode(tape: &[u16]) -> SynCase {
    let mut t = Tape::new(tape);
    let (mut plan, a, ints) = gen_plan(&mut t, 4);
    if t.chance(5, 16) {
        // Union of clause bodies at the top (one per clause of a head): two or three filtered
        // variants of one body keep the schema identical by construction
        let n = 2 + t.below(2);
        let mut inputs = Vec::new();
        for _ in 0..n {
            let p = gen_pred(&mut t, a, &ints, 1);
            inputs.push(P::Filter(Box::new(plan.clone()), p));
        }
        plan = P::Union(inputs);
    }
    let mut edb: Edb = BTreeMap::new();
    for (r, a) in RELS {
        let n = t.below(7);
        let mut rows: BTreeSet<Row> = BTreeSet::new();
        for _ in 0..n {
            rows.insert((0..a).map(|_| t.range(0, 3)).collect());
        }
        edb.insert(r.to_string(), rows.into_iter().collect());
    }
    SynCase { plan, edb }
}

pub fn check(_ctx: &Ctx, sc: &SynCase, obs: &mut Obs) -> CheckResult {
    let mut fresh = 0;
    let (ir, _) = to_ir(&sc.plan, &mut fresh);
    fn ops(p: &P, out: &mut BTreeSet<&'static str>) {
        match p {
            P::Scan(..) => {
                out.insert("scan");
            }
            P::Map(i, _) => {
                out.insert("map");
                ops(i, out)
            }
            P::Filter(i, _) => {
                out.insert("filter");
                ops(i, out)
            }
            P::Distinct(i) => {
                out.insert("distinct");
                ops(i, out)
            }
            P::Join(l, r, k) => {
                out.insert(if k.is_empty() { "cartesian" } else { "join" });
                ops(l, out);
                ops(r, out)
            }
            P::Anti(l, r, _) => {
                out.insert("antijoin");
                ops(l, out);
                ops(r, out)
            }
            P::Union(v) => {
                out.insert("union");
                for i in v {
                    ops(i, out)
                }
            }
            P::Compute(i, ..) => {
                out.insert("compute");
                ops(i, out)
            }
            P::Agg(i, ..) => {
                out.insert("aggregate");
                ops(i, out)
            }
        }
    }
    let mut o = BTreeSet::new();
    ops(&sc.plan, &mut o);
    for c in &o {
        obs.class(&format!("op: {c}"));
    }
    let case = Case { prog: Program { clauses: vec![] }, edb: sc.edb.clone(), arity: BTreeMap::new() };
    let text = format!("(synthetic plan) {:?}", sc.plan);
    super::c05::judge_plan(&ir, &case, &text, obs)
}
