//! C06 — aggregate values are exact (per group, once; count over distinct body valuations, ...),
//! under every optimizer setting.

use crate::common::eng::{diff_sets, key_set, run_iql, short_err, EngErr, RunCfg};
use crate::common::gen::{decode_agg_case, features, tape_strategy, Case, GenOpts};
use crate::common::prog::{answer, answer_named_only, body_valuations, Agg, Lit, HT, T};
use crate::common::{CheckResult, Ctx, Fail, Obs};
use proptest::prelude::*;
use serde_json::{json, Value as J};

pub const K_WILDCARD_JOIN: &str = "C06-wildcard-dropped-before-aggregate";

fn opts(wild: bool) -> GenOpts {
    GenOpts { dom: 4, max_edb_rows: 9, agg_wildcards: wild, wildcards: wild, mutual_recursion: false, self_recursion: false, ..GenOpts::default() }
}

fn strategy(wild: bool) -> impl Strategy<Value = Case> {
    tape_strategy(90).prop_map(move |t| decode_agg_case(&t, &opts(wild)))
}

pub fn check(_ctx: &Ctx, case: &Case, obs: &mut Obs) -> CheckResult {
    let f = features(&case.prog);
    for c in f.classes() {
        obs.class(c);
    }
    let agg = &case.prog.clauses[0];
    for h in &agg.hargs {
        if let HT::Agg(a, _) = h {
            obs.class(a.text());
        }
    }
    let expected = match answer(&case.prog, &case.edb) {
        Ok(a) => a,
        Err(e) => {
            obs.discard = Some(format!("reference: {e:?}"));
            return Ok(());
        }
    };
    // non-trivial: some group has >= 2 valuations with an equal aggregated value (separates set /
    // bag / multiplicity errors)
    let mut db = std::collections::BTreeMap::new();
    for (r, rows) in &case.edb {
        db.insert(r.clone(), rows.iter().map(|x| crate::common::prog::krow_ints(x)).collect());
    }
    let has_wild = agg.body.iter().any(|l| matches!(l, Lit::Pos(a) if a.args.iter().any(|t| matches!(t, T::W))));
    let vals = body_valuations(agg, &db).unwrap_or_default();
    let mut nt = false;
    {
        use std::collections::BTreeMap;
        let mut seen: BTreeMap<(Vec<(i64, i64)>, (i64, i64)), usize> = BTreeMap::new();
        for env in &vals {
            let g: Vec<(i64, i64)> = agg.hargs.iter().filter_map(|h| if let HT::V(v) = h { env.get(v).copied() } else { None }).collect();
            for h in &agg.hargs {
                if let HT::Agg(_, v) = h {
                    if let Some(x) = env.get(v) {
                        let e = seen.entry((g.clone(), *x)).or_default();
                        *e += 1;
                        if *e >= 2 {
                            nt = true;
                        }
                    }
                }
            }
        }
    }
    obs.nontrivial = nt;
    obs.class_if(nt, "group_with_repeated_aggregated_value");
    obs.class_if(has_wild, "wildcard_in_aggregate_body");
    obs.sample = Some(json!({"rule": agg.text(), "edb": case.edb, "expected": expected.iter().take(6).collect::<Vec<_>>()}));
    let mut rejected = 0;
    for mask in 0u8..32 {
        let got = match run_iql(case, &RunCfg { mask, ..RunCfg::default() }) {
            Ok(t) => t,
            Err(EngErr::Watchdog) => {
                obs.discard = Some("watchdog".into());
                return Ok(());
            }
            Err(EngErr::Rejected(e)) => {
                rejected += 1;
                if rejected == 32 {
                    obs.discard = Some(format!("engine_error: {}", short_err(&e)));
                    return Ok(());
                }
                continue;
            }
        };
        // each group exactly once: no two rows with the same group columns
        let rows = key_set(&got).map_err(|e| Fail::new("non_numeric_answer", e))?;
        if rows.len() != got.len() {
            return Err(Fail::new("aggregate_row_twice", format!("rule: {}\nedb: {:?}\nmask {mask}: {} rows, {} distinct", agg.text(), case.edb, got.len(), rows.len())));
        }
        if rows != expected {
            let (missing, extra) = diff_sets(&rows, &expected);
            let mut fail = Fail::new(
                "aggregate_value_wrong",
                format!("rule: {}\nedb: {:?}\noptimizer mask {mask}: engine {:?}\nreference (distinct body valuations) {:?}\nmissing {missing:?} extra {extra:?}", agg.text(), case.edb, rows, expected),
            );
            // signature of the known finding: the rule joins >= 2 atoms, has a `_`, and the engine's
            // answer equals the reading that ignores anonymous variables
            if has_wild && f.join {
                if let Ok(alt) = answer_named_only(&case.prog, &case.edb) {
                    if alt == rows {
                        fail = fail.known(K_WILDCARD_JOIN);
                    }
                }
            }
            return Err(fail);
        }
    }
    obs.count("configs_rejecting", rejected);
    Ok(())
}

pub fn run(ctx: &Ctx) {
    ctx.set_rule(
        "One aggregation rule (1-3 body atoms over 1-3 EDB relations of arity 1-3, joins that multiply bindings, optional filter / \
         negation / constants, 0-2 group variables, 1-2 aggregates among count/sum/min/max/avg/count_distinct in any head position) \
         over EDBs with repeated values (domain 0..3, <=9 rows), executed under all 32 optimizer settings. Oracle: reference evaluator \
         computing, per group, the set of distinct body valuations (every `_` is an anonymous variable) and the aggregate over it; \
         each group exactly once; avg compared on a 1e-6 grid. Part no_wildcards avoids `_` (both readings of 'valuation' agree there); \
         part with_wildcards includes it. Non-trivial = some group has >=2 valuations with the same aggregated value. Distinct = \
         distinct (rule, EDB).",
    );
    ctx.assume("reading of `_` in an aggregate body: an anonymous variable that is part of the valuation (as the engine itself does for single-atom bodies)");
    ctx.run_part_with("no_wildcards", ctx.cases(4000, 60_000), || strategy(false), |c, o| check(ctx, c, o), Some(&crate::common::gen::shrink_case));
    ctx.run_part_with("with_wildcards", ctx.cases(2400, 36_000), || strategy(true), |c, o| check(ctx, c, o), Some(&crate::common::gen::shrink_case));
}

pub fn replay(ctx: &Ctx, part: &str, case: &J) -> Option<Result<CheckResult, String>> {
    Some(match part {
        "no_wildcards" | "with_wildcards" => ctx.replay_case(part, case, |c: &Case, o: &mut Obs| check(ctx, c, o)),
        _ => return None,
    })
}
