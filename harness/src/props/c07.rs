//! C07 — answers are well-formed sets: no tuple twice, arity of the query head, head constants
//! reproduced verbatim. Validity predicate only (no reference model needed).

use crate::common::eng::{run_iql_text, short_err, EngErr, RunCfg};
use crate::common::gen::{decode, features, tape_strategy, Case, GenOpts, Tape};
use crate::common::prog::{Clause, Edb, Program, HT};
use crate::common::val::from_tuple;
use crate::common::{CheckResult, Ctx, Fail, Obs};
use inputlayer::value::{Tuple, Value};
use proptest::prelude::*;
use serde::{Deserialize, Serialize};
use serde_json::{json, Value as J};
use std::collections::{BTreeMap, BTreeSet};

pub const K_REC_AGG_ARITY: &str = "C07-recursive-minmax-arity";
pub const K_AGG_ORDER: &str = "C07-agg-head-order";

/// Program text + EDB + what the answer must look like.
#[derive(Clone, Debug, Serialize, Deserialize)]
pub struct WCase {
    pub text: String,
    pub edb: Edb,
    pub head_arity: usize,
    /// positions that hold the same constant in every clause of the query head
    pub head_constants: Vec<(usize, i64)>,
    pub tags: Vec<String>,
}

fn well_formed(w: &WCase, rows: &[Tuple]) -> CheckResult {
    let mut seen = BTreeSet::new();
    for t in rows {
        if t.arity() != w.head_arity {
            let mut f = Fail::new("wrong_arity", format!("program:\n{}\nedb: {:?}\ntuple {t} has arity {} but the query head has {}", w.text, w.edb, t.arity(), w.head_arity));
            if w.tags.iter().any(|t| t == "recursive_minmax") {
                f = f.known(K_REC_AGG_ARITY);
            }
            return Err(f);
        }
        if !seen.insert(from_tuple(t)) {
            return Err(Fail::new("duplicate_tuple", format!("program:\n{}\nedb: {:?}\ntuple {t} returned twice ({} rows)", w.text, w.edb, rows.len())));
        }
        for (pos, c) in &w.head_constants {
            let ok = match t.get(*pos) {
                Some(Value::Int64(v)) => v == c,
                Some(Value::Int32(v)) => i64::from(*v) == *c,
                _ => false,
            };
            if !ok {
                let mut f = Fail::new("head_constant_not_reproduced", format!("program:\n{}\nedb: {:?}\ntuple {t}: position {pos} must be the head constant {c}", w.text, w.edb));
                if w.tags.iter().any(|t| t == "agg_not_last") {
                    f = f.known(K_AGG_ORDER);
                }
                return Err(f);
            }
        }
    }
    Ok(())
}

pub fn check(_ctx: &Ctx, w: &WCase, obs: &mut Obs) -> CheckResult {
    for t in &w.tags {
        obs.class(t);
    }
    obs.nontrivial = w.tags.iter().any(|t| t == "recursive" || t == "head_constant" || t == "aggregate" || t == "recursive_minmax");
    obs.sample = Some(json!({"program": w.text.lines().collect::<Vec<_>>(), "edb": w.edb}));
    let case = Case { prog: Program { clauses: vec![] }, edb: w.edb.clone(), arity: BTreeMap::new() };
    for cfg in [RunCfg::default(), RunCfg { mask: 0, ..RunCfg::default() }] {
        match run_iql_text(&w.text, &case, &cfg) {
            Ok(rows) => {
                obs.class_if(rows.is_empty(), "empty_answer");
                well_formed(w, &rows)?;
            }
            Err(EngErr::Watchdog) => {
                obs.discard = Some("watchdog".into());
                return Ok(());
            }
            Err(EngErr::Rejected(e)) => {
                // acceptance is the engine's decision: rejected programs are not judged
                obs.discard = Some(format!("engine_error: {}", short_err(&e)));
                return Ok(());
            }
        }
    }
    Ok(())
}

/// General programs whose query IS the last derived relation (so recursive / constant / aggregate
/// heads are returned directly).
fn general() -> impl Strategy<Value = WCase> {
    tape_strategy(160).prop_map(|t| {
        let o = GenOpts { mutual_recursion: false, p_recursion: 8, ..GenOpts::default() };
        let mut c = decode(&t, &o);
        c.prog.clauses.pop(); // drop the q clause
        let last_head = c.prog.clauses.last().unwrap().head.clone();
        // move every clause of that head to the end, keeping relative order, so that the last IR
        // node (the answer) is that relation
        let (mut others, mine): (Vec<Clause>, Vec<Clause>) = c.prog.clauses.iter().cloned().partition(|cl| cl.head != last_head);
        others.extend(mine.iter().cloned());
        c.prog.clauses = others;
        let f = features(&c.prog);
        let arity = mine[0].hargs.len();
        let mut consts = Vec::new();
        for pos in 0..arity {
            if let HT::C(k) = &mine[0].hargs[pos] {
                if mine.iter().all(|m| m.hargs[pos] == HT::C(*k)) {
                    consts.push((pos, *k));
                }
            }
        }
        let mut tags = Vec::new();
        if f.self_recursion {
            tags.push("recursive".to_string());
        }
        if !consts.is_empty() {
            tags.push("head_constant".to_string());
        }
        if mine.iter().any(Clause::has_agg) {
            tags.push("aggregate".to_string());
        }
        if f.agg_not_last {
            tags.push("agg_not_last".to_string());
        }
        if f.join {
            tags.push("join".to_string());
        }
        WCase { text: c.prog.text(), edb: c.edb, head_arity: arity, head_constants: consts, tags }
    })
}

/// Recursive rules with a min/max aggregate (shortest / longest bounded path family).
fn recursive_minmax() -> impl Strategy<Value = WCase> {
    tape_strategy(60).prop_map(|tape| {
        let mut t = Tape::new(&tape);
        let agg = if t.chance(8, 16) { "max" } else { "min" };
        let bound = t.range(4, 12);
        let with_const = t.chance(4, 16);
        let two_col = t.chance(5, 16);
        let n_edges = 1 + t.below(7);
        let mut edges = BTreeSet::new();
        for _ in 0..n_edges {
            let (a, b, w) = (t.range(0, 3), t.range(0, 3), t.range(1, 3));
            if agg == "max" {
                // max<> over a cyclic graph does not terminate in the engine even with the
                // `D < bound` guard (and ignores the cancel flag), so longest-path cases use DAGs:
                // a hang is never a verdict, and it must not take the whole run down
                if a == b {
                    continue;
                }
                edges.insert(vec![a.min(b), a.max(b), w]);
            } else {
                edges.insert(vec![a, b, w]);
            }
        }
        let mut edb: Edb = BTreeMap::new();
        edb.insert("e".into(), edges.into_iter().collect());
        let (text, arity, consts) = if two_col {
            // dist(Y, min<D>) from source 0
            (
                format!("d(Y, {agg}<D>) <- e(0, Y, D)\nd(Z, {agg}<D>) <- d(Y, D1), e(Y, Z, D2), D = D1 + D2, D < {bound}"),
                2,
                vec![],
            )
        } else if with_const {
            (
                format!("sp(X, 7, Y, {agg}<D>) <- e(X, Y, D)\nsp(X, 7, Z, {agg}<D>) <- sp(X, 7, Y, D1), e(Y, Z, D2), D = D1 + D2, D < {bound}"),
                4,
                vec![(1usize, 7i64)],
            )
        } else {
            (
                format!("sp(X, Y, {agg}<D>) <- e(X, Y, D)\nsp(X, Z, {agg}<D>) <- sp(X, Y, D1), e(Y, Z, D2), D = D1 + D2, D < {bound}"),
                3,
                vec![],
            )
        };
        let mut tags = vec!["recursive".to_string(), "recursive_minmax".to_string(), "aggregate".to_string()];
        if !consts.is_empty() {
            tags.push("head_constant".to_string());
        }
        WCase { text, edb, head_arity: arity, head_constants: consts, tags }
    })
}

/// The recursive min/max family runs each case in a child process: some of these programs make
/// the engine diverge (unbounded memory) without honouring its cancel flag.
pub fn check_in_child(ctx: &Ctx, w: &WCase, obs: &mut Obs) -> CheckResult {
    use crate::common::child::{run_child, ChildOutcome};
    for t in &w.tags {
        obs.class(t);
    }
    obs.nontrivial = true;
    obs.sample = Some(json!({"program": w.text.lines().collect::<Vec<_>>(), "edb": w.edb}));
    let _ = ctx;
    match run_child("__c07", w, 3 << 30, std::time::Duration::from_secs(10)) {
        ChildOutcome::Done(res, discard) => {
            obs.discard = discard;
            res
        }
        ChildOutcome::Timeout => {
            obs.discard = Some("child timeout: engine did not terminate within 10 s (inconclusive)".into());
            Ok(())
        }
        ChildOutcome::Died(why) => {
            obs.discard = Some(format!("child died (memory limit / abort): {}", crate::common::runner::truncate(&why, 60)));
            Ok(())
        }
    }
}

pub fn child_main() -> i32 {
    let w: WCase = match crate::common::child::read_case_from_stdin() {
        Ok(w) => w,
        Err(e) => {
            eprintln!("bad case: {e}");
            return 2;
        }
    };
    let ctx = Ctx::new("C07", crate::common::Tier::Quick, 1, crate::common::known::KnownSet::load());
    let mut obs = Obs::default();
    let res = crate::common::runner::guarded(|| check(&ctx, &w, &mut obs)).unwrap_or_else(|m| Err(Fail::new("panic", format!("panic escaped the API: {m}"))));
    crate::common::child::child_report(&res, &obs.discard);
    0
}

pub fn run(ctx: &Ctx) {
    ctx.set_rule(
        "general: G-prog programs whose answer is the last derived relation itself (recursive, constant and aggregate heads returned \
         directly), run under the default and the all-off optimizer configuration; recursive_minmax: bounded shortest/longest path \
         rules with min<>/max<> in a recursive head over random weighted graphs. Only programs the engine executes without error \
         are judged. Oracle: validity predicate (no duplicate tuple, arity of the head, head constants verbatim). Non-trivial = \
         program is recursive, or has a head constant, or an aggregate. Distinct = distinct (program text, EDB).",
    );
    ctx.assume("acceptance is the engine's decision; the predicate needs no reference model");
    ctx.run_part("general", ctx.cases(10_000, 300_000), general, |c, o| check(ctx, c, o));
    ctx.run_part("recursive_minmax", ctx.cases(600, 4_000), recursive_minmax, |c, o| check_in_child(ctx, c, o));
}

pub fn replay(ctx: &Ctx, part: &str, case: &J) -> Option<Result<CheckResult, String>> {
    Some(match part {
        "general" => ctx.replay_case(part, case, |c: &WCase, o: &mut Obs| check(ctx, c, o)),
        "recursive_minmax" => ctx.replay_case(part, case, |c: &WCase, o: &mut Obs| check_in_child(ctx, c, o)),
        _ => return None,
    })
}
