//! C08 — row limits only truncate the true answer.

use crate::common::eng::{self, key_set, run_iql, short_err, tuple_key, EngErr, RunCfg};
use crate::common::gen::{case_strategy, features, Case, GenOpts};
use crate::common::prog::{answer, KRow};
use crate::common::{CheckResult, Ctx, Fail, Obs};
use serde_json::{json, Value as J};
use std::collections::BTreeSet;

pub const K_INTERMEDIATE: &str = "C08-limit-on-intermediate-rules";

fn opts() -> GenOpts {
    GenOpts { max_edb_rows: 10, ..GenOpts::default() }
}

fn judge(case: &Case, via: &str, n: usize, a: &BTreeSet<KRow>, got: &[inputlayer::value::Tuple], multi_rule: bool) -> CheckResult {
    let ctx_txt = || format!("[{via}] program:\n{}\nedb: {:?}\nlimit N={n}, unlimited answer has {} rows", case.prog.text(), case.edb, a.len());
    let mut seen = BTreeSet::new();
    for t in got {
        let k = tuple_key(t).map_err(|e| Fail::new("non_numeric_answer", e))?;
        if !a.contains(&k) {
            let mut f = Fail::new("limit_returned_tuple_outside_answer", format!("{}\nreturned {t} which is not in the unlimited answer", ctx_txt()));
            if multi_rule {
                f = f.known(K_INTERMEDIATE);
            }
            return Err(f);
        }
        if !seen.insert(k) {
            return Err(Fail::new("limit_returned_duplicate", format!("{}\nreturned {t} twice", ctx_txt())));
        }
    }
    let want = n.min(a.len());
    if got.len() != want {
        let mut f = Fail::new("limit_wrong_count", format!("{}\nreturned {} rows, expected exactly min(N,|A|) = {want}", ctx_txt(), got.len()));
        if multi_rule && got.len() < want {
            f = f.known(K_INTERMEDIATE);
        }
        return Err(f);
    }
    Ok(())
}

pub fn check(ctx: &Ctx, case: &Case, obs: &mut Obs, with_storage: bool) -> CheckResult {
    let f = features(&case.prog);
    for c in f.classes() {
        obs.class(c);
    }
    if crate::common::gen::exclude_mutual(ctx, &f, obs) {
        return Ok(());
    }
    let expected = match answer(&case.prog, &case.edb) {
        Ok(a) => a,
        Err(e) => {
            obs.discard = Some(format!("reference: {e:?}"));
            return Ok(());
        }
    };
    let unlimited = match run_iql(case, &RunCfg::default()) {
        Ok(t) => t,
        Err(EngErr::Watchdog) => {
            obs.discard = Some("watchdog".into());
            return Ok(());
        }
        Err(EngErr::Rejected(e)) => {
            obs.discard = Some(format!("engine_error: {}", short_err(&e)));
            return Ok(());
        }
    };
    let a = key_set(&unlimited).map_err(|e| Fail::new("non_numeric_answer", e))?;
    if a != expected {
        // the unlimited answer is already wrong: C01's business
        obs.discard = Some("unlimited answer differs from the reference model (C01)".into());
        return Ok(());
    }
    let heads = case.prog.heads().len();
    let mut limits: Vec<usize> = vec![1, 2, 3, 5, a.len(), a.len() + 1];
    limits.retain(|n| *n > 0);
    limits.sort();
    limits.dedup();
    obs.nontrivial = a.len() > 1 && heads >= 2;
    obs.class_if(a.len() > 1, "answer_gt_1");
    obs.sample = Some(json!({"program": case.prog.text().lines().collect::<Vec<_>>(), "edb": case.edb, "answer_rows": a.len(), "limits": limits}));
    // the query clause `q(..) <- p(..)` is itself a second rule head, so every generated program is
    // multi-rule; "intermediate" means a derived relation other than the query
    let multi_rule = heads >= 2;
    for &n in &limits {
        match run_iql(case, &RunCfg { max_rows: n, ..RunCfg::default() }) {
            Ok(got) => judge(case, "IQLEngine::set_max_result_rows", n, &a, &got, multi_rule)?,
            Err(EngErr::Watchdog) => {
                obs.discard = Some("watchdog".into());
                return Ok(());
            }
            Err(EngErr::Rejected(e)) => {
                // "a successful query returns ...": failures are not judged, but counted
                obs.count(&format!("limited_query_error: {}", short_err(&e)), 1);
            }
        }
        // the same through the plain engine API, without a cancel flag armed (the unlimited run above
        // has shown that the program terminates): a limit that stops early via the cancel flag makes
        // the armed run fail, here it shows as a wrong answer
        match run_iql(case, &RunCfg { max_rows: n, no_cancel: true, ..RunCfg::default() }) {
            Ok(got) => judge(case, "IQLEngine::set_max_result_rows (no cancel flag armed)", n, &a, &got, multi_rule)?,
            Err(EngErr::Watchdog) => {}
            Err(EngErr::Rejected(e)) => obs.count(&format!("limited_query_error (no cancel flag): {}", short_err(&e)), 1),
        }
    }
    if with_storage {
        use crate::common::store::*;
        for &n in limits.iter().take(3) {
            let sc = Scratch::new("c08");
            let st = open_store(&sc.path, |c| c.storage.performance.max_result_rows = n).map_err(|e| Fail::new("storage_setup_failed", e))?;
            for (rel, rows) in &case.edb {
                if !rows.is_empty() {
                    st.insert_tuples_into(KG, rel, rows.iter().map(|r| itup(r)).collect()).map_err(|e| Fail::new("storage_setup_failed", e.to_string()))?;
                }
            }
            let k = case.prog.clauses.len();
            let mut ok = true;
            for c in &case.prog.clauses[..k - 1] {
                match inputlayer::statement::parse_rule_definition(&c.text()) {
                    Ok(def) => {
                        if st.register_rule_in(KG, &def).is_err() {
                            ok = false;
                        }
                    }
                    Err(_) => ok = false,
                }
            }
            if !ok {
                obs.count("storage_registration_rejected", 1);
                break;
            }
            let q = case.prog.query().text();
            let (r, fired) = eng::with_watchdog(20, || st.execute_query_with_rules_tuples_on(KG, &q));
            if fired {
                obs.discard = Some("watchdog".into());
                return Ok(());
            }
            match r {
                Ok(got) => judge(case, "storage.performance.max_result_rows", n, &a, &got, multi_rule)?,
                Err(e) => obs.count(&format!("limited_query_error: {}", short_err(&e.to_string())), 1),
            }
            obs.class("storage_path_checked");
        }
    }
    Ok(())
}

/// Programs in which two rules share a sub-plan (same atom with a constant, same filtered scan, same
/// join), so that the optimizer's subplan sharing materialises an intermediate view that the rules
/// (positively or under negation) read: a limit must not touch that view either.
fn shared_subplan_case(tape: &[u16]) -> Case {
    use crate::common::gen::Tape;
    use crate::common::prog::{Atom, Clause, Edb, Lit, Op, Program, HT, T};
    let mut t = Tape::new(tape);
    let pos = |rel: &str, args: Vec<T>| Lit::Pos(Atom { rel: rel.into(), args });
    let neg = |rel: &str, args: Vec<T>| Lit::Neg(Atom { rel: rel.into(), args });
    let c = t.below(3) as i64;
    // the shared fragment over s(X, T)
    let frag = |t: &mut Tape, kind: usize| -> Vec<Lit> {
        match kind {
            0 => vec![pos("s", vec![T::V(0), T::C(c)])],
            1 => vec![pos("s", vec![T::V(0), T::V(1)]), Lit::Cmp(T::V(1), [Op::Gt, Op::Ge, Op::Ne][t.below(3)], T::C(c))],
            _ => vec![pos("s", vec![T::V(0), T::V(1)]), pos("u", vec![T::V(1), T::V(2)])],
        }
    };
    let kind = t.below(3);
    let f1 = frag(&mut t, kind);
    let v1 = Clause { head: "v1".into(), hargs: vec![HT::V(0)], body: f1.clone() };
    let mut b2 = f1;
    if t.chance(2, 3) {
        b2.push(pos("w", vec![T::V(0)]));
    }
    let v2 = Clause { head: "v2".into(), hargs: vec![HT::V(0)], body: b2 };
    let q = match t.below(3) {
        0 => Clause { head: "q".into(), hargs: vec![HT::V(0)], body: vec![pos("v1", vec![T::V(0)]), neg("v2", vec![T::V(0)])] },
        1 => Clause { head: "q".into(), hargs: vec![HT::V(0)], body: vec![pos("v1", vec![T::V(0)]), pos("v2", vec![T::V(0)])] },
        _ => Clause { head: "q".into(), hargs: vec![HT::V(0), HT::V(1)], body: vec![pos("v1", vec![T::V(0)]), pos("v2", vec![T::V(1)]), Lit::Cmp(T::V(0), Op::Lt, T::V(1))] },
    };
    let mut edb = Edb::new();
    let mut rows = |t: &mut Tape, n: usize, ar: usize, dom: [usize; 3]| -> Vec<Vec<i64>> {
        let mut out: Vec<Vec<i64>> = Vec::new();
        for _ in 0..n {
            let r: Vec<i64> = (0..ar).map(|i| t.below(dom[i]) as i64).collect();
            if !out.contains(&r) {
                out.push(r);
            }
        }
        out
    };
    let ns = 4 + t.below(8);
    edb.insert("s".into(), rows(&mut t, ns, 2, [9, 3, 1]));
    let nu = 2 + t.below(4);
    edb.insert("u".into(), rows(&mut t, nu, 2, [3, 3, 1]));
    let nw = 1 + t.below(5);
    edb.insert("w".into(), rows(&mut t, nw, 1, [9, 1, 1]));
    let arity = [("s", 2usize), ("u", 2), ("w", 1), ("v1", 1), ("v2", 1), ("q", q.hargs.len())].into_iter().map(|(a, b)| (a.to_string(), b)).collect();
    Case { prog: Program { clauses: vec![v1, v2, q] }, edb, arity }
}

pub fn run(ctx: &Ctx) {
    ctx.set_rule(
        "G-prog x G-edb (multi-rule programs with negation over intermediates); A = the engine's unlimited answer, used only when it \
         equals the reference model; limits N in {1,2,3,5,|A|,|A|+1} via IQLEngine::set_max_result_rows (cancel flag armed as the \
         handler does) and via storage.performance.max_result_rows. A successful limited query must return exactly min(N,|A|) \
         distinct tuples, all in A. Non-trivial = |A| > 1 and the program has >= 2 rule heads. Distinct = distinct (program, EDB).",
    );
    ctx.assume("R1 validates the unlimited answer; limited runs that return Err are counted, not judged");
    ctx.run_part_with("iql_engine_limits", ctx.cases(8000, 120_000), || case_strategy(opts()), |c, o| check(ctx, c, o, false), Some(&crate::common::gen::shrink_case));
    ctx.run_part_with("storage_limits", ctx.cases(800, 12_000), || case_strategy(opts()), |c, o| check(ctx, c, o, true), Some(&crate::common::gen::shrink_case));
    // rules that share a sub-plan (the optimizer materialises it as an intermediate view)
    use proptest::prelude::*;
    ctx.run_part_with(
        "shared_subplans",
        ctx.cases(2000, 30_000),
        || crate::common::gen::tape_strategy(60).prop_map(|t| shared_subplan_case(&t)),
        |c, o| check(ctx, c, o, false),
        Some(&crate::common::gen::shrink_case),
    );
}

pub fn replay(ctx: &Ctx, part: &str, case: &J) -> Option<Result<CheckResult, String>> {
    Some(match part {
        "iql_engine_limits" => ctx.replay_case(part, case, |c: &Case, o: &mut Obs| check(ctx, c, o, false)),
        "storage_limits" => ctx.replay_case(part, case, |c: &Case, o: &mut Obs| check(ctx, c, o, true)),
        "shared_subplans" => ctx.replay_case(part, case, |c: &Case, o: &mut Obs| check(ctx, c, o, false)),
        _ => return None,
    })
}
