//! C09 — a rule means the same after print/re-parse and after the persistent-rule serialization:
//! inline, as a session rule, as a persistent rule (before and after a restart) it yields the
//! same answers.

use crate::common::gen::{tape_strategy, Tape};
use crate::common::store::{block_on, open_handler, result_tuples, Scratch, KG};
use crate::common::val::{from_tuple, VT};
use crate::common::{CheckResult, Ctx, Fail, Obs};
use inputlayer::ast::Rule;
use inputlayer::parse_rule;
use inputlayer::value::{Tuple, Value};
use proptest::prelude::*;
use serde::{Deserialize, Serialize};
use serde_json::{json, Value as J};
use std::collections::BTreeSet;

// ------------------------------------------------------------------------------------------
// text grammar

const INTS: [&str; 8] = ["0", "1", "42", "-7", "9223372036854775807", "-9223372036854775808", "100", "3"];
const FLOATS: [&str; 10] = ["2.0", "1.5", "-0.5", "1e21", "1.5e-7", "0.0", "-0.0", "3.14159", "100.0", "1.0e3"];
const STRS: [&str; 10] = ["hello", "with space", "a,b", "x<-y", "// not a comment", "(paren)", "", "it's", "UPPER", "a=b"];
const VARS: [&str; 6] = ["X", "Y", "Z", "Name", "V", "W"];

fn var(t: &mut Tape) -> String {
    VARS[t.below(VARS.len())].to_string()
}

fn constant(t: &mut Tape) -> (String, &'static str) {
    match t.below(8) {
        0 | 1 => (INTS[t.below(INTS.len())].to_string(), "int"),
        2 | 3 => (FLOATS[t.below(FLOATS.len())].to_string(), "float"),
        4 | 5 => (format!("\"{}\"", STRS[t.below(STRS.len())]), "string"),
        6 => (["true", "false"][t.below(2)].to_string(), "bool"),
        _ => (["[1.0, 2.0]", "[0.5]", "[1.0, -2.5, 3.0]", "[]"][t.below(4)].to_string(), "vector"),
    }
}

fn arith(t: &mut Tape, depth: u32) -> String {
    let leaf = |t: &mut Tape| -> String {
        match t.below(4) {
            0 | 1 => var(t),
            2 => INTS[t.below(4)].to_string(),
            _ => FLOATS[t.below(4)].to_string(),
        }
    };
    let op = ["+", "-", "*", "/", "%"][t.below(5)];
    let l = if depth > 0 && t.chance(5, 16) { format!("({})", arith(t, depth - 1)) } else { leaf(t) };
    let r = if depth > 0 && t.chance(5, 16) { format!("({})", arith(t, depth - 1)) } else { leaf(t) };
    let e = format!("{l} {op} {r}");
    if depth > 0 && t.chance(4, 16) {
        let op2 = ["+", "-", "*"][t.below(3)];
        format!("{e} {op2} {}", leaf(t))
    } else {
        e
    }
}

fn func(t: &mut Tape) -> String {
    match t.below(10) {
        0 => format!("abs({})", var(t)),
        1 => format!("len({})", var(t)),
        2 => format!("upper({})", var(t)),
        3 => format!("concat({}, \"{}\")", var(t), STRS[t.below(4)]),
        4 => format!("euclidean({}, [1.0, 2.0])", var(t)),
        5 => format!("pow({}, 2)", var(t)),
        6 => format!("min_val({}, {})", var(t), var(t)),
        7 => format!("to_float({})", var(t)),
        8 => format!("substr({}, 0, 2)", var(t)),
        _ => format!("cosine({}, {})", var(t), var(t)),
    }
}

fn aggregate(t: &mut Tape) -> String {
    match t.below(8) {
        0 => format!("count<{}>", var(t)),
        1 => format!("sum<{}>", var(t)),
        2 => format!("min<{}>", var(t)),
        3 => format!("max<{}>", var(t)),
        4 => format!("avg<{}>", var(t)),
        5 => format!("count_distinct<{}>", var(t)),
        6 => format!("top_k<3, {}, {}:desc>", var(t), var(t)),
        _ => format!("top_k<2, {}>", var(t)),
    }
}

/// (term text, feature tag)
fn head_term(t: &mut Tape) -> (String, &'static str) {
    match t.below(10) {
        0..=3 => (var(t), "var"),
        4 | 5 => constant(t),
        6 => (arith(t, 1), "arith"),
        7 => (func(t), "func"),
        _ => (aggregate(t), "aggregate"),
    }
}

fn body_term(t: &mut Tape) -> (String, &'static str) {
    match t.below(10) {
        0..=4 => (var(t), "var"),
        5..=7 => constant(t),
        8 => ("_".to_string(), "wildcard"),
        _ => (var(t), "var"),
    }
}

#[derive(Clone, Debug, Serialize, Deserialize)]
pub struct TCase {
    pub text: String,
    pub tags: Vec<String>,
}

fn gen_rule_text(tape: &[u16]) -> TCase {
    let mut t = Tape::new(tape);
    let mut tags: BTreeSet<&'static str> = BTreeSet::new();
    let n_head = 1 + t.below(3);
    let head: Vec<String> = (0..n_head)
        .map(|_| {
            let (s, tag) = head_term(&mut t);
            tags.insert(tag);
            s
        })
        .collect();
    let n_body = 1 + t.below(3);
    let mut body = Vec::new();
    for i in 0..n_body {
        let k = t.below(10);
        if i == 0 || k < 5 {
            let n = 1 + t.below(3);
            let args: Vec<String> = (0..n)
                .map(|_| {
                    let (s, tag) = body_term(&mut t);
                    tags.insert(tag);
                    s
                })
                .collect();
            let neg = i > 0 && t.chance(3, 16);
            if neg {
                tags.insert("negation");
            }
            body.push(format!("{}{}({})", if neg { "!" } else { "" }, ["rel", "edge", "person"][t.below(3)], args.join(", ")));
        } else {
            let op = ["=", "!=", "<", "<=", ">", ">="][t.below(6)];
            let rhs = match t.below(4) {
                0 => {
                    let (s, tag) = constant(&mut t);
                    tags.insert(tag);
                    s
                }
                1 => {
                    tags.insert("arith");
                    arith(&mut t, 1)
                }
                2 => {
                    tags.insert("func");
                    func(&mut t)
                }
                _ => var(&mut t),
            };
            tags.insert("comparison");
            body.push(format!("{} {op} {rhs}", var(&mut t)));
        }
    }
    TCase { text: format!("out({}) <- {}", head.join(", "), body.join(", ")), tags: tags.into_iter().map(String::from).collect() }
}

fn same_rule(a: &Rule, b: &Rule) -> bool {
    a.head == b.head && a.body == b.body
}

pub const K_FLOAT_PRINT: &str = "C09-integral-float-prints-as-integer";
pub const K_SERIALIZE_DROPS: &str = "C09-serializable-term-drops-bool-function-vector";
/// still open: a vector literal is stored as `_` (the repository's own unit test pins that mapping)
pub const K_VECTOR_PLACEHOLDER: &str = "C09-vector-literal-stored-as-placeholder";

/// `VectorLiteral([..])` -> `Placeholder` in a Debug rendering
fn vectors_as_placeholders(dbg: &str) -> String {
    let mut out = String::new();
    let mut rest = dbg;
    while let Some(i) = rest.find("VectorLiteral([") {
        out.push_str(&rest[..i]);
        let tail = &rest[i..];
        match tail.find("])") {
            Some(j) => {
                out.push_str("Placeholder");
                rest = &tail[j + 2..];
            }
            None => {
                rest = tail;
                break;
            }
        }
    }
    out.push_str(rest);
    out
}

fn mentions_integral_float(r: &Rule) -> bool {
    let s = format!("{r:?}");
    // FloatConstant(2.0) / FloatConstant(1e21) ... : Debug prints floats with ".0" when integral
    s.split("FloatConstant(").skip(1).any(|rest| {
        let num: String = rest.chars().take_while(|c| *c != ')').collect();
        num.parse::<f64>().map_or(false, |x| x.is_finite() && x.fract() == 0.0)
    })
}

fn mentions_unserializable(r: &Rule) -> bool {
    let s = format!("{r:?}");
    s.contains("BoolConstant") || s.contains("FunctionCall") || s.contains("VectorLiteral")
}

pub fn check_text(_ctx: &Ctx, c: &TCase, obs: &mut Obs) -> CheckResult {
    check_text_inner(c, obs)
}

/// Entry point of the libFuzzer target (`/verif/fuzz/fuzz_targets/c09_roundtrip.rs`): the bytes are
/// read as the choice tape of the rule-text grammar and the same round-trip oracle runs inside the
/// target. The open known finding is tolerated so that a campaign does not stop at it.
pub fn fuzz_one(data: &[u8]) -> Result<(), String> {
    let tape: Vec<u16> = data.chunks(2).map(|c| u16::from_le_bytes([c[0], c.get(1).copied().unwrap_or(0)])).collect();
    let c = gen_rule_text(&tape);
    let mut obs = Obs::default();
    match check_text_inner(&c, &mut obs) {
        Ok(()) => Ok(()),
        Err(f) if f.known.as_deref() == Some(K_VECTOR_PLACEHOLDER) => Ok(()),
        Err(f) => Err(format!("{}: {}", f.kind, f.detail)),
    }
}

fn check_text_inner(c: &TCase, obs: &mut Obs) -> CheckResult {
    let rule = match parse_rule(&c.text) {
        Ok(r) => r,
        Err(e) => {
            obs.discard = Some(format!("parser rejects: {}", crate::common::eng::short_err(&e)));
            return Ok(());
        }
    };
    for tg in &c.tags {
        obs.class(tg);
    }
    obs.nontrivial = c.tags.iter().any(|t| ["float", "string", "bool", "vector", "arith", "func", "aggregate"].contains(&t.as_str()));
    obs.key = Some(c.text.clone());
    obs.sample = Some(json!(c.text));
    // O1: Display -> parse_rule
    let printed = rule.to_string();
    match parse_rule(&printed) {
        Ok(r2) => {
            if !same_rule(&rule, &r2) {
                let mut f = Fail::new("printed_rule_reparses_differently", format!("source:  {}\nprinted: {printed}\nparsed source:  {rule:?}\nparsed printed: {r2:?}", c.text));
                if mentions_integral_float(&rule) {
                    f = f.known(K_FLOAT_PRINT);
                }
                return Err(f);
            }
        }
        Err(e) => {
            return Err(Fail::new("printed_rule_does_not_parse", format!("source:  {}\nprinted: {printed}\nerror: {e}", c.text)));
        }
    }
    // O1b: persistent-rule serialization (RuleDef -> JSON -> Rule)
    match inputlayer::statement::parse_rule_definition(&c.text) {
        Ok(def) => {
            let js = serde_json::to_string(&def.rule).map_err(|e| Fail::new("serialize_failed", e.to_string()))?;
            let back: inputlayer::statement::SerializableRule = serde_json::from_str(&js).map_err(|e| Fail::new("deserialize_failed", format!("{js}: {e}")))?;
            let r3 = back.to_rule();
            if !same_rule(&rule, &r3) {
                let mut f = Fail::new("serialized_rule_differs", format!("source: {}\nparsed:     {rule:?}\nafter JSON: {r3:?}", c.text));
                if vectors_as_placeholders(&format!("{rule:?}")) == format!("{r3:?}") {
                    // exactly the vector literals became `_`, everything else survived
                    f = f.known(K_VECTOR_PLACEHOLDER);
                } else if mentions_unserializable(&rule) {
                    f = f.known(K_SERIALIZE_DROPS);
                }
                return Err(f);
            }
            obs.class("serialization_checked");
        }
        Err(e) => obs.count(&format!("parse_rule_definition rejects: {}", crate::common::eng::short_err(&e)), 1),
    }
    Ok(())
}

// ------------------------------------------------------------------------------------------
// behavioural part: executable rules over typed data, five ways

#[derive(Clone, Debug, Serialize, Deserialize)]
pub struct BCase {
    /// rule text with head relation `out`
    pub rule: String,
    pub arity: usize,
    pub tags: Vec<String>,
}

fn gen_exec_rule(tape: &[u16]) -> BCase {
    let mut t = Tape::new(tape);
    let mut tags = Vec::new();
    // data: n(Id:int, F:float, S:string, B:bool), m(Id:int, K:int)
    let mut body = vec!["n(I, F, S, B)".to_string()];
    let mut head: Vec<String> = vec!["I".into()];
    match t.below(12) {
        0 => {
            body[0] = format!("n(I, {}, S, B)", ["2.0", "1.5", "0.0", "100.0"][t.below(4)]);
            tags.push("float_constant_in_atom");
        }
        1 => {
            body.push(format!("F {} {}", ["=", "<", ">=", "!="][t.below(4)], ["2.0", "1.5", "3.0", "1e2"][t.below(4)]));
            tags.push("float_comparison");
        }
        2 => {
            body[0] = format!("n(I, F, \"{}\", B)", ["hello", "with space", "a,b", ""][t.below(4)]);
            tags.push("string_constant_in_atom");
        }
        3 => {
            body[0] = format!("n(I, F, S, {})", ["true", "false"][t.below(2)]);
            tags.push("bool_constant_in_atom");
        }
        4 => {
            head.push(["2.0", "1.5", "\"tag\"", "true", "7"][t.below(5)].to_string());
            tags.push("constant_in_head");
        }
        5 => {
            body.push(format!("Y = I {} {}", ["+", "*", "-"][t.below(3)], ["1", "2", "10"][t.below(3)]));
            head.push("Y".into());
            tags.push("int_arithmetic");
        }
        6 => {
            body.push(format!("Y = F {} {}", ["+", "*"][t.below(2)], ["2.0", "0.5", "1.5"][t.below(3)]));
            head.push("Y".into());
            tags.push("float_arithmetic");
        }
        7 => {
            body.push(format!("Y = {}", ["upper(S)", "len(S)", "abs(I)", "concat(S, \"!\")", "to_float(I)"][t.below(5)]));
            head.push("Y".into());
            tags.push("function_call");
        }
        8 => {
            head.push(format!("I {} {}", ["+", "*"][t.below(2)], ["1", "3"][t.below(2)]));
            tags.push("arithmetic_in_head");
        }
        9 => {
            body.push("m(I, K)".into());
            body.push(format!("K {} {}", ["<", ">", "="][t.below(3)], t.range(0, 3)));
            head.push("K".into());
            tags.push("join_with_comparison");
        }
        10 => {
            body.push("!m(I, _)".into());
            tags.push("negation");
        }
        _ => {
            head = vec!["B".into(), format!("{}<I>", ["count", "sum", "max"][t.below(3)])];
            tags.push("aggregate");
        }
    }
    BCase { rule: format!("out({}) <- {}", head.join(", "), body.join(", ")), arity: head.len(), tags: tags.into_iter().map(String::from).collect() }
}

fn seed_data(h: &inputlayer::protocol::Handler) -> Result<(), String> {
    let st = h.get_storage();
    let n = |i: i64, f: f64, s: &str, b: bool| Tuple::new(vec![Value::Int64(i), Value::Float64(f), Value::string(s), Value::Bool(b)]);
    st.insert_tuples_into(KG, "n", vec![n(1, 2.0, "hello", true), n(2, 1.5, "with space", false), n(3, 0.0, "a,b", true), n(4, 100.0, "", false), n(5, 3.0, "hello", true)])
        .map_err(|e| e.to_string())?;
    st.insert_tuples_into(KG, "m", vec![Tuple::pair(1, 0), Tuple::pair(1, 2), Tuple::pair(2, 1), Tuple::pair(5, 3)]).map_err(|e| e.to_string())?;
    Ok(())
}

type Ans = Result<BTreeSet<VT>, String>;

fn rows(r: Result<inputlayer::protocol::wire::QueryResult, String>) -> Ans {
    r.map(|r| result_tuples(&r).iter().map(from_tuple).collect())
}

pub fn check_behaviour(_ctx: &Ctx, c: &BCase, obs: &mut Obs) -> CheckResult {
    for tg in &c.tags {
        obs.class(tg);
    }
    obs.nontrivial = true;
    obs.key = Some(c.rule.clone());
    obs.sample = Some(json!(c.rule));
    let vars: Vec<String> = (0..c.arity).map(|i| format!("Q{i}")).collect();
    let query = format!("?out({})", vars.join(", "));
    let fresh = || -> Result<(Scratch, inputlayer::protocol::Handler), Fail> {
        let sc = Scratch::new("c09");
        let h = open_handler(&sc.path, |_| {}).map_err(|e| Fail::new("open_failed", e))?;
        seed_data(&h).map_err(|e| Fail::new("seed_failed", e))?;
        Ok((sc, h))
    };
    // (i) request-local session rule + query in one program (the "inline" form)
    let (_s1, h1) = fresh()?;
    let inline: Ans = rows(block_on(h1.query_program(Some(KG.to_string()), format!("{}\n{query}", c.rule))));
    if let Err(e) = &inline {
        obs.discard = Some(format!("inline form rejected: {}", crate::common::eng::short_err(e)));
        return Ok(());
    }
    // (ii) WebSocket-session rule
    let (_s2, h2) = fresh()?;
    let ws: Ans = (|| {
        let sid = h2.create_session(KG)?;
        block_on(h2.execute_program(Some(&sid), None, c.rule.clone(), None))?;
        rows(block_on(h2.execute_program(Some(&sid), None, query.clone(), None)))
    })();
    // (iii) persistent rule, (iv) the same after closing and re-opening the store
    let (s3, h3) = fresh()?;
    let persistent: Ans = (|| {
        block_on(h3.query_program(Some(KG.to_string()), format!("+{}", c.rule)))?;
        rows(block_on(h3.query_program(Some(KG.to_string()), query.clone())))
    })();
    h3.get_storage().save_all().map_err(|e| Fail::new("save_failed", e.to_string()))?;
    drop(h3);
    let h4 = open_handler(&s3.path, |_| {}).map_err(|e| Fail::new("reopen_failed", e))?;
    let reopened: Ans = rows(block_on(h4.query_program(Some(KG.to_string()), query.clone())));
    obs.class_if(inline.as_ref().is_ok_and(|a| !a.is_empty()), "non_empty_answer");
    for (name, got) in [("WebSocket-session rule", &ws), ("persistent rule", &persistent), ("persistent rule after restart", &reopened)] {
        if got != &inline {
            let mut f = Fail::new(
                "rule_means_something_else",
                format!("rule: {}\nas a session rule in the query's program -> {inline:?}\nas {name} -> {got:?}", c.rule),
            );
            let tagged = |t: &str| c.tags.iter().any(|x| x == t);
            if name.starts_with("persistent") && (tagged("bool_constant_in_atom") || tagged("function_call")) {
                f = f.known(K_SERIALIZE_DROPS);
            } else if c.rule.contains("2.0") || c.rule.contains("100.0") || c.rule.contains("0.0") || c.rule.contains("3.0") || c.rule.contains("1e2") {
                f = f.known(K_FLOAT_PRINT);
            }
            return Err(f);
        }
    }
    Ok(())
}

pub fn run(ctx: &Ctx) {
    ctx.set_rule(
        "round_trip: rule texts generated over the term grammar (ints incl. i64 extremes, floats incl. integral 2.0 / 1e21 / 1.5e-7 / -0.0, \
         strings with spaces, commas, '<-', '//', parentheses, booleans, vector literals, arithmetic with precedence and parentheses, builtin \
         function calls, every aggregate form incl. top_k options, negation, comparisons, '_'); only texts parse_rule accepts are judged; \
         parse_rule(rule.to_string()) must give the same head and body, and so must parse_rule_definition -> SerializableRule -> JSON -> \
         to_rule. behaviour: executable rules over typed seed data (int/float/string/bool columns) with float/string/bool constants, \
         arithmetic, function calls, joins, negation, aggregates; the answer of ?out(..) must be identical when the rule is a session rule \
         in the query's program, a WebSocket-session rule, a persistent rule, and the persistent rule after closing and re-opening the \
         store. Non-trivial = the rule has a non-integer constant or an arithmetic/function/aggregate term. Distinct = rule text.",
    );
    ctx.assume("only ASTs the parser itself produces are printed (obtained by parsing generated text), so the printer is never blamed for ASTs no caller can build");
    // thorough tier: statistics of the coverage-guided campaign that run.sh ran just before (libFuzzer over the
    // same choice tape, same oracle inside the target; see harness/fuzz/fuzz_targets/c09_roundtrip.rs)
    if let Ok(p) = std::env::var("VERIF_FUZZ_STATS") {
        if let Ok(txt) = std::fs::read_to_string(&p) {
            ctx.note(format!("coverage-guided campaign (libFuzzer): {txt}"));
        }
    }
    ctx.run_part("round_trip", ctx.cases(20_000, 400_000), || tape_strategy(70).prop_map(|t| gen_rule_text(&t)), |c, o| check_text(ctx, c, o));
    ctx.run_part("behaviour", ctx.cases(400, 6_000), || tape_strategy(12).prop_map(|t| gen_exec_rule(&t)), |c, o| check_behaviour(ctx, c, o));
}

pub fn replay(ctx: &Ctx, part: &str, case: &J) -> Option<Result<CheckResult, String>> {
    Some(match part {
        "round_trip" => ctx.replay_case(part, case, |c: &TCase, o: &mut Obs| check_text(ctx, c, o)),
        "behaviour" => ctx.replay_case(part, case, |c: &BCase, o: &mut Obs| check_behaviour(ctx, c, o)),
        _ => return None,
    })
}
