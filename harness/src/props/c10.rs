//! C10 — session state is isolated: session facts and session rules are visible only to the
//! request or WebSocket session that created them; they never alter persistent facts, persistent
//! rules or another session's answers; a session query answers like a query against the
//! persistent data plus that session's own facts and rules.
//!
//! Part `session_histories` (deterministic): operation-granularity interleavings of 2-3 sessions,
//! request-local programs and a persistent writer over one Handler, checked against the harness's
//! own reference evaluator after every operation.
//! Part `concurrent_sessions` (scheduler dependent, sampling): the same actors as concurrent
//! tokio tasks; every observed answer must be admissible for SOME prefix of the persistent
//! writer inside the window [acknowledged before the query was issued, started before it returned].

use crate::common::eng::key_set;
use crate::common::gen::{tape_strategy, Tape};
use crate::common::prog::{self, Agg, Atom, Clause, Edb, KRow, Lit, HT, T};
use crate::common::store::{block_on, itup, open_handler, read_relation_set, result_messages, result_tuples, rt, Scratch, KG};
use crate::common::val::V;
use crate::common::{CheckResult, Ctx, Fail, Obs};
use inputlayer::protocol::wire::QueryResult;
use inputlayer::protocol::Handler;
use proptest::prelude::*;
use serde::{Deserialize, Serialize};
use serde_json::{json, Value as J};
use std::collections::{BTreeMap, BTreeSet};
use std::sync::atomic::{AtomicU64, AtomicUsize, Ordering};
use std::sync::Arc;
use std::time::Duration;

pub type Row = Vec<i64>;

// ------------------------------------------------------------------------------------------------
// vocabulary: base relations, rule pools

/// relations that hold persistent facts
const PREL: [(&str, usize); 2] = [("p", 2), ("q", 1)];
/// relations that hold session facts (`t` exists only as session data)
const SREL: [(&str, usize); 3] = [("p", 2), ("q", 1), ("t", 1)];

fn pos(rel: &str, args: &[T]) -> Lit {
    Lit::Pos(Atom { rel: rel.into(), args: args.to_vec() })
}
fn neg(rel: &str, args: &[T]) -> Lit {
    Lit::Neg(Atom { rel: rel.into(), args: args.to_vec() })
}
fn cl(head: &str, hargs: Vec<HT>, body: Vec<Lit>) -> Clause {
    Clause { head: head.into(), hargs, body }
}

const A: T = T::V(0);
const B: T = T::V(1);
const C: T = T::V(2);

/// Persistent rule pool (heads d n r c g s). Entry = (clause, index of the clause that must be
/// present first: the base case of the self-recursive rule).
fn persistent_pool() -> Vec<(Clause, Option<usize>)> {
    vec![
        (cl("d", vec![HT::V(0), HT::V(1)], vec![pos("p", &[A, B]), pos("q", &[B])]), None),
        (cl("d", vec![HT::V(0), HT::V(1)], vec![pos("p", &[A, C]), pos("p", &[C, B])]), None),
        (cl("d", vec![HT::V(0), HT::V(1)], vec![pos("p", &[B, A])]), None),
        (cl("n", vec![HT::V(0), HT::V(1)], vec![pos("p", &[A, B]), neg("q", &[A])]), None),
        (cl("r", vec![HT::V(0), HT::V(1)], vec![pos("p", &[A, B])]), None),
        (cl("r", vec![HT::V(0), HT::V(2)], vec![pos("r", &[A, B]), pos("p", &[B, C])]), Some(4)),
        (cl("c", vec![HT::Agg(Agg::Count, 0)], vec![pos("q", &[A])]), None),
        (cl("g", vec![HT::V(0), HT::Agg(Agg::Count, 1)], vec![pos("p", &[A, B])]), None),
        (cl("s", vec![HT::Agg(Agg::Sum, 0)], vec![pos("q", &[A])]), None),
        // a persistent rule over a relation that only ever holds session facts
        (cl("m", vec![HT::V(0)], vec![pos("q", &[A]), pos("t", &[A])]), None),
    ]
}

/// Session rule pool (heads v w a h u x y z k e f — disjoint from the persistent heads and from
/// the base relations: what a session rule means for a relation that also has persistent rules
/// or facts is not documented).
fn session_pool() -> Vec<(Clause, Option<usize>)> {
    vec![
        (cl("v", vec![HT::V(0)], vec![pos("q", &[A])]), None),
        (cl("v", vec![HT::V(0)], vec![pos("p", &[A, T::W])]), None),
        (cl("v", vec![HT::V(1)], vec![pos("p", &[T::W, B]), pos("q", &[B])]), None),
        (cl("w", vec![HT::V(0), HT::V(1)], vec![pos("d", &[A, B])]), None),
        (cl("w", vec![HT::V(0), HT::V(1)], vec![pos("p", &[B, A])]), None),
        (cl("a", vec![HT::Agg(Agg::Count, 0)], vec![pos("q", &[A])]), None),
        (cl("h", vec![HT::V(0), HT::Agg(Agg::Count, 1)], vec![pos("p", &[A, B])]), None),
        (cl("u", vec![HT::V(0)], vec![pos("q", &[A]), neg("t", &[A])]), None),
        (cl("x", vec![HT::V(0), HT::V(1)], vec![pos("p", &[A, B])]), None),
        (cl("x", vec![HT::V(0), HT::V(2)], vec![pos("x", &[A, B]), pos("p", &[B, C])]), Some(8)),
        (cl("y", vec![HT::V(0)], vec![pos("v", &[A]), pos("t", &[A])]), None),
        (cl("z", vec![HT::V(0)], vec![pos("t", &[A])]), None),
        (cl("k", vec![HT::Agg(Agg::Count, 0)], vec![pos("t", &[A])]), None),
        (cl("e", vec![HT::V(0), HT::V(1)], vec![pos("r", &[A, B]), pos("q", &[B])]), None),
        (cl("f", vec![HT::Agg(Agg::Sum, 0)], vec![pos("q", &[A])]), None),
    ]
}

/// every relation name of the vocabulary with its arity
fn arities() -> Vec<(String, usize)> {
    let mut out: BTreeMap<String, usize> = BTreeMap::new();
    for (r, a) in SREL {
        out.insert(r.to_string(), a);
    }
    for (c, _) in persistent_pool().into_iter().chain(session_pool()) {
        out.insert(c.head.clone(), c.hargs.len());
    }
    out.into_iter().collect()
}

fn arity_of(rel: &str) -> usize {
    arities().into_iter().find(|(r, _)| r == rel).map(|(_, a)| a).unwrap_or(1)
}

fn row_text(r: &Row) -> String {
    format!("({})", r.iter().map(|v| v.to_string()).collect::<Vec<_>>().join(", "))
}

// ------------------------------------------------------------------------------------------------
// operations

/// state-changing operation of one WebSocket session
#[derive(Clone, Debug, Serialize, Deserialize, PartialEq, Eq)]
pub enum SOp {
    /// session fact: `rel(row)` sent as a statement of the session (`api: false`, the global /ws
    /// protocol: Handler::execute_program with the session id) or the `insert_facts` message of the
    /// per-session protocol (`api: true`: Handler::session_insert_ephemeral)
    Fact { rel: String, row: Row, api: bool },
    /// `retract_facts` message (Handler::session_retract_ephemeral); IQL text has no session retract
    Retract { rel: String, row: Row },
    /// session rule: `head <- body` statement (`api: false`) or `add_rule` message (`api: true`)
    Rule { rule: Clause, api: bool },
    /// `.session drop <n>` (1-based)
    DropIdx(usize),
    /// `.session clear`
    Clear,
}

/// persistent write
#[derive(Clone, Debug, Serialize, Deserialize, PartialEq, Eq)]
pub enum POp {
    Insert { rel: String, rows: Vec<Row> },
    Delete { rel: String, row: Row },
    Rule(Clause),
    /// `-name`: delete the whole view
    DropRule(String),
}

#[derive(Clone, Debug, Serialize, Deserialize, PartialEq, Eq)]
pub enum Op {
    S { s: usize, op: SOp },
    /// the connection of session `s` closes (Handler::close_session) and a new one is opened in
    /// the same slot
    Reopen { s: usize },
    /// persistent write sent without a session (`via: None`) or over the connection of a session
    P { via: Option<usize>, op: POp },
    /// one multi-statement request carrying request-local session facts and rules plus a query;
    /// `via: None` = session-less request (REST style), `Some(s)` = sent over session s's connection
    Local { via: Option<usize>, facts: Vec<(String, Row)>, rules: Vec<Clause>, goal: Atom },
    /// a session-less request that states session facts / session rules and asks nothing: they
    /// belong to that request alone and must be gone afterwards
    Orphan { facts: Vec<(String, Row)>, rules: Vec<Clause>, exec: bool },
}

impl SOp {
    pub fn text(&self) -> String {
        match self {
            SOp::Fact { rel, row, api } => format!("{}{rel}{}", if *api { "insert_facts " } else { "" }, row_text(row)),
            SOp::Retract { rel, row } => format!("retract_facts {rel}{}", row_text(row)),
            SOp::Rule { rule, api } => format!("{}{}", if *api { "add_rule " } else { "" }, rule.text()),
            SOp::DropIdx(n) => format!(".session drop {n}"),
            SOp::Clear => ".session clear".into(),
        }
    }
}

impl POp {
    pub fn text(&self) -> String {
        match self {
            POp::Insert { rel, rows } if rows.len() == 1 => format!("+{rel}{}", row_text(&rows[0])),
            POp::Insert { rel, rows } => format!("+{rel}[{}]", rows.iter().map(row_text).collect::<Vec<_>>().join(", ")),
            POp::Delete { rel, row } => format!("-{rel}{}", row_text(row)),
            POp::Rule(c) => format!("+{}", c.text()),
            POp::DropRule(n) => format!("-{n}"),
        }
    }
}

fn local_text(facts: &[(String, Row)], rules: &[Clause], goal: &Atom) -> String {
    let mut lines: Vec<String> = facts.iter().map(|(r, row)| format!("{r}{}", row_text(row))).collect();
    lines.extend(rules.iter().map(Clause::text));
    lines.push(format!("?{}", goal.text()));
    lines.join("\n")
}

impl Op {
    pub fn text(&self) -> String {
        match self {
            Op::S { s, op } => format!("[s{s}] {}", op.text()),
            Op::Reopen { s } => format!("[s{s}] close connection, open a new session"),
            Op::P { via: None, op } => format!("[--] {}", op.text()),
            Op::P { via: Some(s), op } => format!("[s{s}] {}", op.text()),
            Op::Local { via, facts, rules, goal } => {
                format!("[{}] one request: {}", via.map_or("--".to_string(), |s| format!("s{s}")), local_text(facts, rules, goal).replace('\n', " ; "))
            }
            Op::Orphan { facts, rules, .. } => format!("[--] one request without a query: {}", orphan_text(facts, rules).replace('\n', " ; ")),
        }
    }
}

fn orphan_text(facts: &[(String, Row)], rules: &[Clause]) -> String {
    let mut lines: Vec<String> = facts.iter().map(|(r, row)| format!("{r}{}", row_text(row))).collect();
    lines.extend(rules.iter().map(Clause::text));
    lines.join("\n")
}

// ------------------------------------------------------------------------------------------------
// model

#[derive(Clone, Debug, Default, PartialEq, Eq, Serialize, Deserialize)]
pub struct State {
    pub facts: BTreeMap<String, BTreeSet<Row>>,
    /// in insertion order (`.session drop <n>` addresses them by position)
    pub rules: Vec<Clause>,
}

impl State {
    fn is_empty(&self) -> bool {
        self.facts.is_empty() && self.rules.is_empty()
    }
    fn insert(&mut self, rel: &str, row: &Row) -> bool {
        self.facts.entry(rel.to_string()).or_default().insert(row.clone())
    }
    fn remove(&mut self, rel: &str, row: &Row) -> bool {
        let mut hit = false;
        if let Some(s) = self.facts.get_mut(rel) {
            hit = s.remove(row);
            if s.is_empty() {
                self.facts.remove(rel);
            }
        }
        hit
    }
    fn has(&self, rel: &str, row: &Row) -> bool {
        self.facts.get(rel).is_some_and(|s| s.contains(row))
    }
    fn short(&self) -> String {
        let f: Vec<String> = self.facts.iter().flat_map(|(r, rows)| rows.iter().map(move |row| format!("{r}{}", row_text(row)))).collect();
        let r: Vec<String> = self.rules.iter().map(Clause::text).collect();
        format!("facts {{{}}} rules [{}]", f.join(" "), r.join(" ; "))
    }
}

fn apply_sop(st: &mut State, op: &SOp) {
    match op {
        SOp::Fact { rel, row, .. } => {
            st.insert(rel, row);
        }
        SOp::Retract { rel, row } => {
            st.remove(rel, row);
        }
        SOp::Rule { rule, .. } => st.rules.push(rule.clone()),
        SOp::DropIdx(n) => {
            if *n >= 1 && *n <= st.rules.len() {
                st.rules.remove(*n - 1);
            }
        }
        SOp::Clear => *st = State::default(),
    }
}

fn apply_pop(st: &mut State, op: &POp) {
    match op {
        POp::Insert { rel, rows } => {
            for r in rows {
                st.insert(rel, r);
            }
        }
        POp::Delete { rel, row } => {
            st.remove(rel, row);
        }
        POp::Rule(c) => st.rules.push(c.clone()),
        POp::DropRule(n) => st.rules.retain(|c| &c.head != n),
    }
}

#[derive(Clone, Debug, PartialEq, Eq)]
pub struct Model {
    pub pers: State,
    pub sess: Vec<State>,
}

impl Model {
    fn new(n: usize) -> Model {
        Model { pers: State::default(), sess: vec![State::default(); n] }
    }
    fn apply(&mut self, op: &Op) {
        match op {
            Op::S { s, op } => apply_sop(&mut self.sess[*s], op),
            Op::Reopen { s } => self.sess[*s] = State::default(),
            Op::P { op, .. } => apply_pop(&mut self.pers, op),
            Op::Local { .. } | Op::Orphan { .. } => {}
        }
    }
}

/// reference answer of `?goal` over the union of the given layers
pub struct Exp {
    pub rows: BTreeSet<KRow>,
    /// the goal (transitively) mentions a relation that has neither facts nor rules in these
    /// layers: the engine may answer with an "unknown relation" style error instead
    pub may_error: bool,
}

fn goal_matches(goal: &Atom, row: &KRow) -> bool {
    if goal.args.len() != row.len() {
        return false;
    }
    let mut env: BTreeMap<u8, (i64, i64)> = BTreeMap::new();
    goal.args.iter().zip(row).all(|(t, v)| match t {
        T::C(c) => (*c, 0) == *v,
        T::V(x) => *env.entry(*x).or_insert(*v) == *v,
        T::W => true,
    })
}

/// R1 over (facts of all layers as sets, rules of all layers); `?goal` returns the matching rows
/// of the goal's relation.
pub fn expected(layers: &[&State], goal: &Atom) -> Result<Exp, String> {
    let mut facts: BTreeMap<String, BTreeSet<Row>> = BTreeMap::new();
    let mut clauses: Vec<Clause> = Vec::new();
    for st in layers {
        for (r, rows) in &st.facts {
            facts.entry(r.clone()).or_default().extend(rows.iter().cloned());
        }
        for c in &st.rules {
            if !clauses.contains(c) {
                clauses.push(c.clone());
            }
        }
    }
    let edb: Edb = facts.iter().map(|(r, rows)| (r.clone(), rows.iter().cloned().collect())).collect();
    let m = prog::eval(&clauses, &edb).map_err(|e| format!("{e:?}"))?;
    let rows = m.db.get(&goal.rel).map(|s| s.iter().filter(|r| goal_matches(goal, r)).cloned().collect()).unwrap_or_default();
    // undefined relations reachable from the goal
    let mut may_error = false;
    let mut seen = BTreeSet::new();
    let mut stack = vec![goal.rel.clone()];
    while let Some(r) = stack.pop() {
        if !seen.insert(r.clone()) {
            continue;
        }
        let has_facts = facts.get(&r).is_some_and(|s| !s.is_empty());
        let cls: Vec<&Clause> = clauses.iter().filter(|c| c.head == r).collect();
        if !has_facts && cls.is_empty() {
            may_error = true;
        }
        for c in cls {
            for l in &c.body {
                if let Lit::Pos(a) | Lit::Neg(a) = l {
                    stack.push(a.rel.clone());
                }
            }
        }
    }
    Ok(Exp { rows, may_error })
}

// ------------------------------------------------------------------------------------------------
// engine side

#[derive(Clone, Debug)]
pub enum Got {
    /// distinct rows, raw row count
    Rows(BTreeSet<KRow>, usize),
    Err(String),
}

impl Got {
    fn short(&self) -> String {
        match self {
            Got::Rows(s, n) if s.len() == *n => format!("{:?}", rows_plain(s)),
            Got::Rows(s, n) => format!("{:?} ({n} rows returned, {} distinct)", rows_plain(s), s.len()),
            Got::Err(e) => format!("error `{}`", crate::common::runner::truncate(e, 160)),
        }
    }
}

fn rows_plain(s: &BTreeSet<KRow>) -> Vec<Vec<String>> {
    s.iter().map(|r| r.iter().map(|(a, b)| if *b == 0 { a.to_string() } else { format!("{a}+{b}e-6") }).collect()).collect()
}

fn to_got(r: Result<QueryResult, String>) -> Result<Got, Fail> {
    match r {
        Err(e) => Ok(Got::Err(e)),
        Ok(res) => {
            if res.schema.len() == 1 && res.schema[0].name == "message" {
                return Ok(Got::Err(result_messages(&res).join(" | ")));
            }
            let ts = result_tuples(&res);
            let set = key_set(&ts).map_err(|e| Fail::new("non_numeric_answer", e))?;
            Ok(Got::Rows(set, ts.len()))
        }
    }
}

fn agrees(got: &Got, exp: &Exp) -> bool {
    match got {
        Got::Err(_) => exp.may_error,
        Got::Rows(set, n) => *set == exp.rows && *n == set.len(),
    }
}

const OP_TIMEOUT: Duration = Duration::from_secs(30);
const TIMEOUT: &str = "TIMEOUT";

async fn timed<T>(f: impl std::future::Future<Output = Result<T, String>>) -> Result<T, String> {
    match tokio::time::timeout(OP_TIMEOUT, f).await {
        Ok(r) => r,
        Err(_) => Err(TIMEOUT.to_string()),
    }
}

/// `?goal` as seen by a viewer: a session (through the global /ws entry point `execute_program`
/// or, `legacy`, the per-session protocol's `query_program_with_session`) or no session.
async fn query_as(h: &Handler, sid: Option<&String>, goal: &Atom, legacy: bool) -> Result<QueryResult, String> {
    let text = format!("?{}", goal.text());
    match (sid, legacy) {
        (Some(sid), false) => timed(h.execute_program(Some(sid), None, text, None)).await,
        (Some(sid), true) => timed(h.query_program_with_session(sid, text)).await,
        (None, false) => timed(h.execute_program(None, Some(KG.to_string()), text, None)).await,
        (None, true) => timed(h.query_program(Some(KG.to_string()), text)).await,
    }
}

/// Ok(true) accepted, Ok(false) refused by the engine (the model is then left unchanged)
async fn do_sop(h: &Handler, sid: &String, op: &SOp) -> Result<bool, String> {
    let r: Result<(), String> = match op {
        SOp::Fact { rel, row, api: true } => h.session_insert_ephemeral(sid, rel, vec![itup(row)]).map(|_| ()),
        SOp::Retract { rel, row } => h.session_retract_ephemeral(sid, rel, vec![itup(row)]).map(|_| ()),
        SOp::Rule { rule, api: true } => {
            // as the add_rule message does: parse the text, require exactly one rule
            let text = rule.text();
            match inputlayer::parser::parse_program(&text) {
                Ok(p) if p.rules.len() == 1 => h.session_add_rule(sid, p.rules.into_iter().next().unwrap(), text),
                Ok(_) => Err("not exactly one rule".into()),
                Err(e) => Err(e),
            }
        }
        _ => timed(h.execute_program(Some(sid), None, op.text(), None)).await.map(|_| ()),
    };
    match r {
        Ok(()) => Ok(true),
        Err(e) if e == TIMEOUT => Err(e),
        Err(_) => Ok(false),
    }
}

async fn do_pop(h: &Handler, via: Option<&String>, op: &POp) -> Result<bool, String> {
    let r = match via {
        Some(sid) => timed(h.execute_program(Some(sid), None, op.text(), None)).await,
        None => timed(h.query_program(Some(KG.to_string()), op.text())).await,
    };
    match r {
        Ok(_) => Ok(true),
        Err(e) if e == TIMEOUT => Err(e),
        Err(_) => Ok(false),
    }
}

fn read_rows(h: &Handler, rel: &str, ar: usize) -> Result<BTreeSet<Row>, String> {
    let st = h.get_storage();
    let set = read_relation_set(&st, KG, rel, ar)?;
    let mut out = BTreeSet::new();
    for t in set {
        let row: Option<Row> = t.iter().map(|v| if let V::I64(i) = v { Some(*i) } else { None }).collect();
        out.insert(row.ok_or_else(|| format!("non-integer value read back from {rel}: {t:?}"))?);
    }
    Ok(out)
}

/// (c): persistent facts (relation contents) and persistent rules (names, clause counts) as the
/// storage API reports them must equal the model of the persistent writes alone
fn check_persistent(h: &Handler, pers: &State, ctx_text: &dyn Fn() -> String, after: &str, session_op: bool) -> CheckResult {
    let kind = if session_op { "persistent_state_changed_by_session_operation" } else { "persistent_state_differs_from_model" };
    for (rel, ar) in SREL {
        let exp = pers.facts.get(rel).cloned().unwrap_or_default();
        let live = match read_rows(h, rel, ar) {
            Ok(s) => s,
            Err(_) if exp.is_empty() => BTreeSet::new(),
            Err(e) => return Err(Fail::new("read_failed", format!("{}\nafter {after}: reading {rel}: {e}", ctx_text()))),
        };
        if live != exp {
            return Err(Fail::new(kind, format!("{}\nafter {after}: stored relation {rel} = {live:?}, the persistent writes alone give {exp:?}", ctx_text())));
        }
    }
    let mut exp_rules: BTreeMap<String, usize> = BTreeMap::new();
    for c in &pers.rules {
        *exp_rules.entry(c.head.clone()).or_default() += 1;
    }
    let st = h.get_storage();
    let names = st.list_rules_in(KG).map_err(|e| Fail::new("read_failed", e.to_string()))?;
    let mut live_rules: BTreeMap<String, usize> = BTreeMap::new();
    for n in names {
        let k = st.rule_count_in(KG, &n).ok().flatten().unwrap_or(0);
        live_rules.insert(n, k);
    }
    if live_rules != exp_rules {
        return Err(Fail::new(kind, format!("{}\nafter {after}: stored rules (name -> clauses) {live_rules:?}, the persistent writes alone give {exp_rules:?}", ctx_text())));
    }
    Ok(())
}

// ------------------------------------------------------------------------------------------------
// generation

fn gen_row(t: &mut Tape, ar: usize) -> Row {
    (0..ar).map(|_| t.range(0, 2)).collect()
}

fn pick<'a, X>(t: &mut Tape, xs: &'a [X]) -> &'a X {
    &xs[t.below(xs.len())]
}

fn gen_goal_for(t: &mut Tape, rel: &str) -> Atom {
    let ar = arity_of(rel);
    let mut args: Vec<T> = (0..ar).map(|i| T::V(i as u8)).collect();
    if t.chance(3, 16) {
        let i = t.below(ar);
        args[i] = T::C(t.range(0, 2));
    }
    Atom { rel: rel.to_string(), args }
}

/// relations defined (facts or rule heads) in any of the states
fn defined_rels(states: &[&State]) -> Vec<String> {
    let mut out = BTreeSet::new();
    for st in states {
        out.extend(st.facts.keys().cloned());
        out.extend(st.rules.iter().map(|c| c.head.clone()));
    }
    out.into_iter().collect()
}

/// `rel` and every rule head (of any state) that transitively depends on it
fn dependents(states: &[&State], rel: &str) -> Vec<String> {
    let mut out: BTreeSet<String> = BTreeSet::new();
    out.insert(rel.to_string());
    loop {
        let mut grew = false;
        for st in states {
            for c in &st.rules {
                if !out.contains(&c.head) && c.body.iter().any(|l| matches!(l, Lit::Pos(a) | Lit::Neg(a) if out.contains(&a.rel))) {
                    out.insert(c.head.clone());
                    grew = true;
                }
            }
        }
        if !grew {
            break;
        }
    }
    out.into_iter().collect()
}

fn touched_rel(op: &Op) -> Option<String> {
    match op {
        Op::S { op: SOp::Fact { rel, .. } | SOp::Retract { rel, .. }, .. } => Some(rel.clone()),
        Op::S { op: SOp::Rule { rule, .. }, .. } => Some(rule.head.clone()),
        Op::P { op: POp::Insert { rel, .. } | POp::Delete { rel, .. }, .. } => Some(rel.clone()),
        Op::P { op: POp::Rule(c), .. } => Some(c.head.clone()),
        Op::P { op: POp::DropRule(n), .. } => Some(n.clone()),
        Op::Local { goal, .. } => Some(goal.rel.clone()),
        Op::Orphan { facts, rules, .. } => facts.first().map(|f| f.0.clone()).or_else(|| rules.first().map(|c| c.head.clone())),
        _ => None,
    }
}

fn gen_probe(t: &mut Tape, m: &Model, op: &Op) -> Atom {
    let mut states: Vec<&State> = vec![&m.pers];
    states.extend(m.sess.iter());
    let rel = match t.below(16) {
        0..=7 => {
            // a relation whose content (for somebody) depends on what the operation touched
            match touched_rel(op) {
                Some(r) => pick(t, &dependents(&states, &r)).clone(),
                None => {
                    let d = defined_rels(&states);
                    if d.is_empty() {
                        "p".to_string()
                    } else {
                        pick(t, &d).clone()
                    }
                }
            }
        }
        8..=13 => {
            let d = defined_rels(&states);
            if d.is_empty() {
                "p".to_string()
            } else {
                pick(t, &d).clone()
            }
        }
        _ => pick(t, &arities()).0.clone(),
    };
    gen_goal_for(t, &rel)
}

fn gen_session_fact(t: &mut Tape, pers: &State) -> (String, Row) {
    let (rel, ar) = *pick(t, &SREL);
    // every third session fact duplicates a persistent fact of the relation (when there is one)
    if t.chance(5, 16) {
        if let Some(rows) = pers.facts.get(rel) {
            let rows: Vec<&Row> = rows.iter().collect();
            return (rel.to_string(), (*pick(t, &rows)).clone());
        }
    }
    (rel.to_string(), gen_row(t, ar))
}

/// a pool clause not yet in `have` whose prerequisite is there
fn gen_pool_rule(t: &mut Tape, pool: &[(Clause, Option<usize>)], have: &[Clause]) -> Option<Clause> {
    let cands: Vec<&Clause> = pool.iter().filter(|(c, pre)| !have.contains(c) && pre.map_or(true, |i| have.contains(&pool[i].0))).map(|(c, _)| c).collect();
    if cands.is_empty() {
        None
    } else {
        Some((*pick(t, &cands)).clone())
    }
}

fn gen_sop(t: &mut Tape, own: &State, pers: &State) -> SOp {
    match t.below(9) {
        0..=2 => {
            let (rel, row) = gen_session_fact(t, pers);
            SOp::Fact { rel, row, api: t.chance(6, 16) }
        }
        3 => {
            // retract: mostly an own session fact, sometimes a persistent or absent one
            let own_facts: Vec<(String, Row)> = own.facts.iter().flat_map(|(r, rows)| rows.iter().map(move |x| (r.clone(), x.clone()))).collect();
            let pers_facts: Vec<(String, Row)> = pers.facts.iter().flat_map(|(r, rows)| rows.iter().map(move |x| (r.clone(), x.clone()))).collect();
            let (rel, row) = match t.below(4) {
                0 | 1 if !own_facts.is_empty() => pick(t, &own_facts).clone(),
                2 if !pers_facts.is_empty() => pick(t, &pers_facts).clone(),
                _ => {
                    let (rel, ar) = *pick(t, &SREL);
                    (rel.to_string(), gen_row(t, ar))
                }
            };
            SOp::Retract { rel, row }
        }
        4..=6 => match gen_pool_rule(t, &session_pool(), &own.rules) {
            Some(rule) => SOp::Rule { rule, api: t.chance(5, 16) },
            None => SOp::Clear,
        },
        7 => SOp::DropIdx(1 + t.below(own.rules.len().max(1) + 1)),
        _ => SOp::Clear,
    }
}

fn gen_pop(t: &mut Tape, pers: &State) -> POp {
    match t.below(7) {
        0 | 1 => {
            let (rel, ar) = *pick(t, &PREL);
            let n = 1 + t.below(3);
            POp::Insert { rel: rel.to_string(), rows: (0..n).map(|_| gen_row(t, ar)).collect() }
        }
        2 => {
            let all: Vec<(String, Row)> = pers.facts.iter().flat_map(|(r, rows)| rows.iter().map(move |x| (r.clone(), x.clone()))).collect();
            if !all.is_empty() && t.chance(12, 16) {
                let (rel, row) = pick(t, &all).clone();
                POp::Delete { rel, row }
            } else {
                let (rel, ar) = *pick(t, &PREL);
                POp::Delete { rel: rel.to_string(), row: gen_row(t, ar) }
            }
        }
        3..=5 => match gen_pool_rule(t, &persistent_pool(), &pers.rules) {
            Some(c) => POp::Rule(c),
            None => POp::DropRule("d".into()),
        },
        _ => {
            let heads: Vec<String> = pers.rules.iter().map(|c| c.head.clone()).collect::<BTreeSet<_>>().into_iter().collect();
            if !heads.is_empty() && t.chance(14, 16) {
                POp::DropRule(pick(t, &heads).clone())
            } else {
                POp::DropRule(pick(t, &persistent_pool()).0.head.clone())
            }
        }
    }
}

fn gen_local(t: &mut Tape, m: &Model, via: Option<usize>) -> Op {
    let nf = t.below(3);
    let facts: Vec<(String, Row)> = (0..nf).map(|_| gen_session_fact(t, &m.pers)).collect();
    let nr = t.below(3);
    let mut rules: Vec<Clause> = Vec::new();
    for _ in 0..nr {
        if let Some(c) = gen_pool_rule(t, &session_pool(), &rules) {
            rules.push(c);
        }
    }
    let local = State { facts: BTreeMap::new(), rules: rules.clone() };
    let mut cands: BTreeSet<String> = rules.iter().map(|c| c.head.clone()).collect();
    for (r, _) in &facts {
        cands.extend(dependents(&[&m.pers, &local], r));
    }
    let cands: Vec<String> = cands.into_iter().collect();
    let rel = if !cands.is_empty() && t.chance(13, 16) {
        pick(t, &cands).clone()
    } else {
        let d = defined_rels(&[&m.pers]);
        if d.is_empty() {
            "q".to_string()
        } else {
            pick(t, &d).clone()
        }
    };
    let goal = gen_goal_for(t, &rel);
    Op::Local { via, facts, rules, goal }
}

fn gen_op(t: &mut Tape, m: &Model) -> Op {
    let n = m.sess.len();
    match t.below(16) {
        0..=6 => {
            let s = t.below(n);
            Op::S { s, op: gen_sop(t, &m.sess[s], &m.pers) }
        }
        7 => Op::Reopen { s: t.below(n) },
        8..=12 => {
            let via = if t.chance(5, 16) { Some(t.below(n)) } else { None };
            Op::P { via, op: gen_pop(t, &m.pers) }
        }
        13 | 14 => {
            let via = if t.chance(5, 16) { Some(t.below(n)) } else { None };
            gen_local(t, m, via)
        }
        _ => {
            let nf = t.below(3);
            let facts: Vec<(String, Row)> = (0..nf).map(|_| gen_session_fact(t, &m.pers)).collect();
            let mut rules: Vec<Clause> = Vec::new();
            for _ in 0..(if nf == 0 { 1 } else { t.below(2) }) {
                if let Some(c) = gen_pool_rule(t, &session_pool(), &rules) {
                    rules.push(c);
                }
            }
            Op::Orphan { facts, rules, exec: t.chance(8, 16) }
        }
    }
}

#[derive(Clone, Debug, Serialize, Deserialize)]
pub struct Step {
    pub op: Op,
    /// goal queried by every viewer (each session, and no session) after the operation
    pub probe: Atom,
}

#[derive(Clone, Debug, Serialize, Deserialize)]
pub struct HCase {
    pub n_sessions: usize,
    pub steps: Vec<Step>,
}

const TAPE_LEN: usize = 260;

fn decode_history(tape: &[u16]) -> HCase {
    let mut t = Tape::new(tape);
    let n_sessions = 2 + t.below(2);
    let n_ops = 4 + t.below(11);
    let mut m = Model::new(n_sessions);
    let mut steps = Vec::new();
    for k in 0..n_ops {
        let op = match k {
            // some persistent data first, so that joins and duplicates have something to meet
            0 => Op::P { via: None, op: POp::Insert { rel: "p".into(), rows: (0..(2 + t.below(3))).map(|_| gen_row(&mut t, 2)).collect() } },
            1 => Op::P { via: None, op: POp::Insert { rel: "q".into(), rows: (0..(1 + t.below(2))).map(|_| gen_row(&mut t, 1)).collect() } },
            _ => gen_op(&mut t, &m),
        };
        m.apply(&op);
        let probe = gen_probe(&mut t, &m, &op);
        steps.push(Step { op, probe });
    }
    HCase { n_sessions, steps }
}

// ------------------------------------------------------------------------------------------------
// part 1: deterministic histories

fn viewer_name(v: Option<usize>) -> String {
    v.map_or("no session".to_string(), |s| format!("session s{s}"))
}

/// aggregate relations (heads of aggregate clauses visible to the viewer) that depend on `rel`
fn agg_depends_on(layers: &[&State], goal_rel: &str, rel: &str) -> bool {
    let is_agg = layers.iter().any(|st| st.rules.iter().any(|c| c.head == goal_rel && c.has_agg()));
    is_agg && dependents(layers, rel).iter().any(|d| d == goal_rel)
}

pub const K_DUP_FACT: &str = "C10-duplicate-session-fact-counted-twice";

thread_local! {
    /// relations in which the request being judged states the same session fact more than once
    static REPEATED_IN_REQUEST: std::cell::RefCell<Vec<String>> = const { std::cell::RefCell::new(Vec::new()) };
}

/// Signature of K_DUP_FACT: the viewer holds a session/request fact of relation R that equals a
/// persistent fact (or, in one request, an earlier fact of the same request), and the goal is or
/// depends on an aggregate rule head that depends on R.
fn duplicate_fact_under_aggregate(pers: &State, extra: &[&State], goal_rel: &str) -> bool {
    let mut layers: Vec<&State> = vec![pers];
    layers.extend(extra.iter().copied());
    let repeated: Vec<String> = REPEATED_IN_REQUEST.with(|r| r.borrow().clone());
    let mut dup_rels: Vec<&String> = extra.iter().flat_map(|st| st.facts.iter().filter(|(rel, rows)| rows.iter().any(|r| pers.has(rel, r))).map(|(rel, _)| rel)).collect();
    dup_rels.extend(repeated.iter());
    let agg_heads: BTreeSet<&String> = layers.iter().flat_map(|st| st.rules.iter().filter(|c| c.has_agg()).map(|c| &c.head)).collect();
    dup_rels.iter().any(|rel| {
        let deps = dependents(&layers, rel);
        agg_heads.iter().any(|h| deps.contains(*h) && dependents(&layers, h).iter().any(|d| d == goal_rel))
    })
}

fn classify_known(f: Fail, pers: &State, extra: &[&State], goal: &Atom, got: &Got) -> Fail {
    // Only wrong ROWS qualify, never an error answer. The failure kind is not part of the
    // signature: when it holds, the viewer's aggregate is off by the duplicated tuples, and a count
    // that is one too high is also what a foreign session's fact, the facts of the request that
    // just ended, or state that should be gone would give - the kind is then only a guess.
    if matches!(got, Got::Rows(..)) && duplicate_fact_under_aggregate(pers, extra, &goal.rel) {
        return f.known(K_DUP_FACT);
    }
    f
}

pub fn check_history(_ctx: &Ctx, c: &HCase, obs: &mut Obs) -> CheckResult {
    let sc = Scratch::new("c10");
    let h = open_handler(&sc.path, |_| {}).map_err(|e| Fail::new("open_failed", e))?;
    let mut sids: Vec<String> = Vec::new();
    for _ in 0..c.n_sessions {
        sids.push(h.create_session(KG).map_err(|e| Fail::new("create_session_failed", e))?);
    }
    let mut m = Model::new(c.n_sessions);
    let texts: Vec<String> = c.steps.iter().map(|s| s.op.text()).collect();
    obs.sample = Some(json!({"sessions": c.n_sessions, "history": c.steps.iter().map(|s| format!("{}   then everybody asks ?{}", s.op.text(), s.probe.text())).collect::<Vec<_>>()}));
    let mut last_session_writer: Option<usize> = None;
    let mut n_queries = 0u64;
    let mut n_err_ok = 0u64;
    for (i, step) in c.steps.iter().enumerate() {
        let hist = |m: &Model| {
            format!(
                "history ({} sessions):\n  {}\nmodel now: persistent {}{}",
                c.n_sessions,
                texts[..=i].iter().enumerate().map(|(k, t)| format!("{k}. {t}")).collect::<Vec<_>>().join("\n  "),
                m.pers.short(),
                m.sess.iter().enumerate().map(|(k, s)| format!("\n  s{k}: {}", s.short())).collect::<String>()
            )
        };
        let before = m.clone();
        let mut session_op = false;
        // ---- the operation
        match &step.op {
            Op::S { s, op } => {
                session_op = true;
                obs.class(match op {
                    SOp::Fact { api: false, .. } => "op: session fact statement",
                    SOp::Fact { api: true, .. } => "op: insert_facts message",
                    SOp::Retract { .. } => "op: retract_facts message",
                    SOp::Rule { api: false, .. } => "op: session rule statement",
                    SOp::Rule { api: true, .. } => "op: add_rule message",
                    SOp::DropIdx(_) => "op: .session drop n",
                    SOp::Clear => "op: .session clear",
                });
                match block_on(do_sop(&h, &sids[*s], op)) {
                    Ok(true) => {
                        m.apply(&step.op);
                    }
                    Ok(false) => {
                        // `.session drop n` out of range is refused and changes nothing in the model either
                        if !matches!(op, SOp::DropIdx(_)) {
                            obs.class("session operation refused by the engine");
                        }
                        if matches!(op, SOp::DropIdx(_)) {
                            m.apply(&step.op);
                        }
                    }
                    Err(_) => {
                        obs.discard = Some("timeout".into());
                        return Ok(());
                    }
                }
                if m.sess[*s] != before.sess[*s] {
                    last_session_writer = Some(*s);
                }
            }
            Op::Reopen { s } => {
                session_op = true;
                obs.class("op: close + new session");
                let old = sids[*s].clone();
                h.close_session(&old).map_err(|e| Fail::new("close_session_failed", e))?;
                m.apply(&step.op);
                // (d) the closed session's state is gone: a request that still names it answers
                // like a request without session state, or is refused
                for legacy in [false, true] {
                    let got = to_got(block_on(query_as(&h, Some(&old), &step.probe, legacy)))?;
                    if let Got::Err(e) = &got {
                        if e == TIMEOUT {
                            obs.discard = Some("timeout".into());
                            return Ok(());
                        }
                    }
                    let exp = expected(&[&m.pers], &step.probe).map_err(|e| Fail::new("reference_failed", e))?;
                    if !(agrees(&got, &exp) || matches!(got, Got::Err(_))) {
                        return Err(Fail::new(
                            "closed_session_state_survives",
                            format!("{}\n?{} sent with the id of the closed session of s{s} returned {}, the persistent data alone give {:?}", hist(&m), step.probe.text(), got.short(), rows_plain(&exp.rows)),
                        ));
                    }
                }
                sids[*s] = h.create_session(KG).map_err(|e| Fail::new("create_session_failed", e))?;
                if !before.sess[*s].is_empty() {
                    last_session_writer = Some(*s);
                    obs.class("closed a session holding state");
                }
            }
            Op::P { via, op } => {
                obs.class(match op {
                    POp::Insert { .. } => "op: persistent insert",
                    POp::Delete { .. } => "op: persistent delete",
                    POp::Rule(_) => "op: persistent rule",
                    POp::DropRule(_) => "op: persistent rule drop",
                });
                obs.class_if(via.is_some(), "persistent write sent over a session connection");
                match block_on(do_pop(&h, via.map(|s| &sids[s]), op)) {
                    Ok(true) => m.apply(&step.op),
                    Ok(false) => obs.class("persistent operation refused by the engine"),
                    Err(_) => {
                        obs.discard = Some("timeout".into());
                        return Ok(());
                    }
                }
            }
            Op::Local { via, facts, rules, goal } => {
                session_op = true;
                obs.class(if via.is_some() { "op: multi-statement request over a session connection" } else { "op: session-less request with local facts/rules" });
                let text = local_text(facts, rules, goal);
                let res = match via {
                    None => block_on(timed(h.query_program(Some(KG.to_string()), text.clone()))),
                    Some(s) => block_on(timed(h.execute_program(Some(&sids[*s]), None, text.clone(), None))),
                };
                let got = to_got(res)?;
                if matches!(&got, Got::Err(e) if e == TIMEOUT) {
                    obs.discard = Some("timeout".into());
                    return Ok(());
                }
                let mut local = State::default();
                for (r, row) in facts {
                    local.insert(r, row);
                }
                local.rules = rules.clone();
                let exp = expected(&[&m.pers, &local], goal).map_err(|e| Fail::new("reference_failed", e))?;
                let mut ok = agrees(&got, &exp);
                if let Some(s) = via {
                    // sent over a session connection: the documents describe one statement per
                    // message, so whether such a request also sees the session's stored state is
                    // left open; both readings are admitted
                    let exp2 = expected(&[&m.pers, &m.sess[*s], &local], goal).map_err(|e| Fail::new("reference_failed", e))?;
                    if exp2.rows != exp.rows {
                        if ok {
                            obs.class("multi-statement request over a session connection answered WITHOUT the session's stored state");
                        } else if agrees(&got, &exp2) {
                            obs.class("multi-statement request over a session connection answered WITH the session's stored state");
                        }
                    }
                    ok = ok || agrees(&got, &exp2);
                }
                if facts.iter().any(|(r, row)| m.pers.has(r, row)) && agg_depends_on(&[&m.pers, &local], &goal.rel, &facts.iter().find(|(r, row)| m.pers.has(r, row)).unwrap().0) {
                    obs.nontrivial = true;
                    obs.class("nontrivial: session fact duplicates a persistent fact under an aggregate goal");
                }
                if !ok {
                    // is it another session's state that shows?
                    let mut kind = "request_local_answer_differs_from_model";
                    for (o, st) in m.sess.iter().enumerate() {
                        if Some(o) != *via && !st.is_empty() {
                            let e2 = expected(&[&m.pers, st, &local], goal).map_err(|e| Fail::new("reference_failed", e))?;
                            if agrees(&got, &e2) {
                                kind = "foreign_session_state_visible";
                            }
                        }
                    }
                    let mut f = Fail::new(
                        kind,
                        format!("{}\nthe request `{}` returned {}, R1(persistent + its own facts and rules) = {:?}", hist(&m), text.replace('\n', " ; "), got.short(), rows_plain(&exp.rows)),
                    );
                    let repeated: Vec<String> = facts.iter().enumerate().filter(|(k, x)| facts[..*k].contains(x)).map(|(_, x)| x.0.clone()).collect();
                    REPEATED_IN_REQUEST.with(|r| *r.borrow_mut() = repeated);
                    f.kind = "answer_differs_from_model".into();
                    let mut extra: Vec<&State> = vec![&local];
                    if let Some(s) = via {
                        extra.push(&m.sess[*s]);
                    }
                    f = classify_known(f, &m.pers, &extra, goal, &got);
                    REPEATED_IN_REQUEST.with(|r| r.borrow_mut().clear());
                    f.kind = kind.into();
                    return Err(f);
                }
            }
            Op::Orphan { facts, rules, exec } => {
                session_op = true;
                obs.class("op: session-less request with session facts/rules and no query");
                let text = orphan_text(facts, rules);
                let res = if *exec { block_on(timed(h.execute_program(None, Some(KG.to_string()), text, None))) } else { block_on(timed(h.query_program(Some(KG.to_string()), text))) };
                if matches!(&res, Err(e) if e == TIMEOUT) {
                    obs.discard = Some("timeout".into());
                    return Ok(());
                }
                // accepted or refused: either way nothing may remain of it (judged by (c) and the probes)
            }
        }
        // ---- (c) persistent facts and rules as stored
        check_persistent(&h, &m.pers, &|| hist(&m), &format!("step {i}"), session_op)?;
        // ---- (a), (b), (d): every viewer asks the probe goal
        let n_view = c.n_sessions + 1;
        for k in 0..n_view {
            let idx = (k + i) % n_view;
            let viewer: Option<usize> = if idx == c.n_sessions { None } else { Some(idx) };
            let legacy = (i + k) % 2 == 1;
            let got = to_got(block_on(query_as(&h, viewer.map(|s| &sids[s]), &step.probe, legacy)))?;
            if matches!(&got, Got::Err(e) if e == TIMEOUT) {
                obs.discard = Some("timeout".into());
                return Ok(());
            }
            n_queries += 1;
            let own: Option<&State> = viewer.map(|s| &m.sess[s]);
            let mut layers: Vec<&State> = vec![&m.pers];
            layers.extend(own);
            let exp = expected(&layers, &step.probe).map_err(|e| Fail::new("reference_failed", e))?;
            // non-triviality
            if let Some(s) = viewer {
                if let Some(w) = last_session_writer {
                    if w != s && m.sess[w] != m.sess[s] && m.sess.iter().filter(|x| !x.is_empty()).count() >= 1 {
                        obs.nontrivial = true;
                    }
                }
                let dup_rel = m.sess[s].facts.iter().find(|(r, rows)| rows.iter().any(|row| m.pers.has(r, row))).map(|(r, _)| r.clone());
                if let Some(r) = dup_rel {
                    if agg_depends_on(&layers, &step.probe.rel, &r) {
                        obs.nontrivial = true;
                        obs.class("nontrivial: session fact duplicates a persistent fact under an aggregate goal");
                    }
                }
            }
            if agrees(&got, &exp) {
                if matches!(got, Got::Err(_)) {
                    n_err_ok += 1;
                }
                continue;
            }
            // classify
            let mut kind = "answer_differs_from_model";
            if let Got::Rows(set, n) = &got {
                if *set == exp.rows && *n != set.len() {
                    kind = "duplicate_rows_in_answer";
                }
            }
            if let (Some(o), Got::Rows(set, _)) = (own, &got) {
                if !o.is_empty() {
                    let e0 = expected(&[&m.pers], &step.probe).map_err(|e| Fail::new("reference_failed", e))?;
                    if *set == e0.rows {
                        kind = "own_session_state_ignored";
                    }
                }
            }
            for (o, st) in m.sess.iter().enumerate() {
                if Some(o) == viewer || st.is_empty() {
                    continue;
                }
                let mut l2 = layers.clone();
                l2.push(st);
                let e2 = expected(&l2, &step.probe).map_err(|e| Fail::new("reference_failed", e))?;
                if agrees(&got, &e2) {
                    kind = "foreign_session_state_visible";
                }
            }
            // facts / rules of the request that just ended
            if let Op::Local { facts, rules, .. } | Op::Orphan { facts, rules, .. } = &step.op {
                let mut local = State::default();
                for (r, row) in facts {
                    local.insert(r, row);
                }
                local.rules = rules.clone();
                let mut l2 = layers.clone();
                l2.push(&local);
                let e2 = expected(&l2, &step.probe).map_err(|e| Fail::new("reference_failed", e))?;
                if !local.is_empty() && agrees(&got, &e2) {
                    kind = "request_local_state_visible_to_a_later_request";
                }
            }
            // state that should be gone (d)
            if let Some(s) = viewer {
                if matches!(step.op, Op::S { op: SOp::Clear, .. } | Op::Reopen { .. }) && !before.sess[s].is_empty() {
                    let e3 = expected(&[&m.pers, &before.sess[s]], &step.probe).map_err(|e| Fail::new("reference_failed", e))?;
                    if agrees(&got, &e3) {
                        kind = "session_state_survives_clear";
                    }
                }
            }
            let f = Fail::new(
                kind,
                format!(
                    "{}\nafter step {i}, ?{} asked by {} ({}) returned {}; R1(persistent{}) = {:?}",
                    hist(&m),
                    step.probe.text(),
                    viewer_name(viewer),
                    if viewer.is_some() {
                        if legacy {
                            "query_program_with_session"
                        } else {
                            "execute_program with the session id"
                        }
                    } else if legacy {
                        "query_program"
                    } else {
                        "execute_program without session"
                    },
                    got.short(),
                    if viewer.is_some() { " + own session facts and rules" } else { "" },
                    rows_plain(&exp.rows)
                ),
            );
            let extra: Vec<&State> = own.into_iter().collect();
            return Err(classify_known(f, &m.pers, &extra, &step.probe, &got));
        }
    }
    obs.count("queries_judged", n_queries);
    obs.count("queries_answered_with_error_on_undefined_relation", n_err_ok);
    obs.class_if(obs.nontrivial, "nontrivial");
    Ok(())
}

// ------------------------------------------------------------------------------------------------
// part 2: concurrent sessions

#[derive(Clone, Debug, Serialize, Deserialize)]
pub enum WOp {
    Ins(String, Row),
    Del(String, Row),
}

impl WOp {
    fn text(&self) -> String {
        match self {
            WOp::Ins(r, row) => format!("+{r}{}", row_text(row)),
            WOp::Del(r, row) => format!("-{r}{}", row_text(row)),
        }
    }
}

#[derive(Clone, Debug, Serialize, Deserialize)]
pub enum COp {
    S(SOp),
    /// query in the session (`legacy`: query_program_with_session, else execute_program)
    Q { goal: Atom, legacy: bool },
}

#[derive(Clone, Debug, Serialize, Deserialize)]
pub struct CCase {
    pub init: Vec<POp>,
    /// single-tuple persistent writes, executed one after the other by the writer task
    pub writer: Vec<WOp>,
    /// one sequential task per session
    pub sessions: Vec<Vec<COp>>,
    /// a session-less reader task
    pub reader: Vec<Atom>,
}

fn decode_concurrent(tape: &[u16]) -> CCase {
    let mut t = Tape::new(tape);
    let n_sessions = 2 + t.below(2);
    let mut pers = State::default();
    let mut init = Vec::new();
    let push = |op: POp, pers: &mut State, init: &mut Vec<POp>| {
        apply_pop(pers, &op);
        init.push(op);
    };
    push(POp::Insert { rel: "p".into(), rows: (0..(2 + t.below(3))).map(|_| gen_row(&mut t, 2)).collect() }, &mut pers, &mut init);
    push(POp::Insert { rel: "q".into(), rows: (0..(1 + t.below(2))).map(|_| gen_row(&mut t, 1)).collect() }, &mut pers, &mut init);
    for _ in 0..t.below(4) {
        if let Some(c) = gen_pool_rule(&mut t, &persistent_pool(), &pers.rules) {
            push(POp::Rule(c), &mut pers, &mut init);
        }
    }
    // writer
    let nw = 4 + t.below(9);
    let mut wstate = pers.clone();
    let mut writer = Vec::new();
    for _ in 0..nw {
        let all: Vec<(String, Row)> = wstate.facts.iter().flat_map(|(r, rows)| rows.iter().map(move |x| (r.clone(), x.clone()))).collect();
        let op = if !all.is_empty() && t.chance(6, 16) {
            let (r, row) = pick(&mut t, &all).clone();
            WOp::Del(r, row)
        } else {
            let (rel, ar) = *pick(&mut t, &PREL);
            WOp::Ins(rel.to_string(), gen_row(&mut t, ar))
        };
        match &op {
            WOp::Ins(r, row) => {
                wstate.insert(r, row);
            }
            WOp::Del(r, row) => {
                wstate.remove(r, row);
            }
        }
        writer.push(op);
    }
    // sessions
    let mut sessions = Vec::new();
    let mut all_states: Vec<State> = Vec::new();
    for _ in 0..n_sessions {
        let n = 4 + t.below(6);
        let mut own = State::default();
        let mut ops = Vec::new();
        for k in 0..n {
            if k > 0 && t.chance(7, 16) {
                // query something that depends on what this session holds or the writer writes
                let mut cands: BTreeSet<String> = own.rules.iter().map(|c| c.head.clone()).collect();
                cands.extend(own.facts.keys().cloned());
                cands.extend(pers.rules.iter().map(|c| c.head.clone()));
                cands.insert("p".into());
                cands.insert("q".into());
                let cands: Vec<String> = cands.into_iter().collect();
                let rel = pick(&mut t, &cands).clone();
                ops.push(COp::Q { goal: gen_goal_for(&mut t, &rel), legacy: t.chance(8, 16) });
            } else {
                // sessions see the writer's final state as "persistent" for the duplicate steering
                let op = gen_sop(&mut t, &own, &wstate);
                apply_sop(&mut own, &op);
                ops.push(COp::S(op));
            }
        }
        all_states.push(own);
        sessions.push(ops);
    }
    let nr = 2 + t.below(4);
    let mut names: BTreeSet<String> = pers.rules.iter().map(|c| c.head.clone()).collect();
    names.insert("p".into());
    names.insert("q".into());
    for st in &all_states {
        // the reader also asks for relations only sessions define: nothing of them may show
        names.extend(st.rules.iter().map(|c| c.head.clone()));
        names.extend(st.facts.keys().cloned());
    }
    let names: Vec<String> = names.into_iter().collect();
    let reader = (0..nr)
        .map(|_| {
            let rel = pick(&mut t, &names).clone();
            gen_goal_for(&mut t, &rel)
        })
        .collect();
    CCase { init, writer, sessions, reader }
}

#[derive(Clone, Debug)]
struct QObs {
    who: Option<usize>,
    state: State,
    goal: Atom,
    lo: usize,
    hi: usize,
    got: Got,
    t0: u64,
    t1: u64,
    legacy: bool,
}

struct Shared {
    h: Handler,
    started: AtomicUsize,
    acked: AtomicUsize,
    clock: AtomicU64,
}

pub fn check_concurrent(_ctx: &Ctx, c: &CCase, obs: &mut Obs) -> CheckResult {
    let sc = Scratch::new("c10c");
    let h = open_handler(&sc.path, |_| {}).map_err(|e| Fail::new("open_failed", e))?;
    let mut pers0 = State::default();
    for op in &c.init {
        match block_on(do_pop(&h, None, op)) {
            Ok(true) => apply_pop(&mut pers0, op),
            Ok(false) => {
                obs.discard = Some("setup refused".into());
                return Ok(());
            }
            Err(_) => {
                obs.discard = Some("timeout".into());
                return Ok(());
            }
        }
    }
    // prefixes of the writer
    let mut prefixes: Vec<State> = vec![pers0.clone()];
    for w in &c.writer {
        let mut st = prefixes.last().unwrap().clone();
        match w {
            WOp::Ins(r, row) => {
                st.insert(r, row);
            }
            WOp::Del(r, row) => {
                st.remove(r, row);
            }
        }
        prefixes.push(st);
    }
    let m = c.writer.len();
    let mut sids = Vec::new();
    for _ in 0..c.sessions.len() {
        sids.push(h.create_session(KG).map_err(|e| Fail::new("create_session_failed", e))?);
    }
    let sh = Arc::new(Shared { h, started: AtomicUsize::new(0), acked: AtomicUsize::new(0), clock: AtomicU64::new(0) });
    let barrier = Arc::new(tokio::sync::Barrier::new(c.sessions.len() + 2));

    type TaskOut = Result<(Vec<QObs>, Vec<(u64, u64)>, State), String>;
    let mut handles: Vec<tokio::task::JoinHandle<TaskOut>> = Vec::new();
    // writer
    {
        let (sh, barrier, ops) = (sh.clone(), barrier.clone(), c.writer.clone());
        handles.push(rt().spawn(async move {
            barrier.wait().await;
            for (i, op) in ops.iter().enumerate() {
                sh.started.store(i + 1, Ordering::SeqCst);
                let r = timed(sh.h.query_program(Some(KG.to_string()), op.text())).await?;
                let msgs = result_messages(&r).join(" | ");
                if !(msgs.contains("Inserted") || msgs.contains("Deleted")) {
                    return Err(format!("writer: `{}` answered `{msgs}`", op.text()));
                }
                sh.acked.store(i + 1, Ordering::SeqCst);
                tokio::task::yield_now().await;
            }
            Ok((vec![], vec![], State::default()))
        }));
    }
    // sessions
    for (s, ops) in c.sessions.iter().enumerate() {
        let (sh, barrier, ops, sid) = (sh.clone(), barrier.clone(), ops.clone(), sids[s].clone());
        handles.push(rt().spawn(async move {
            barrier.wait().await;
            let mut own = State::default();
            let mut out = Vec::new();
            let mut writes = Vec::new();
            for op in &ops {
                match op {
                    COp::S(sop) => {
                        let t0 = sh.clock.fetch_add(1, Ordering::SeqCst);
                        let accepted = do_sop(&sh.h, &sid, sop).await?;
                        let t1 = sh.clock.fetch_add(1, Ordering::SeqCst);
                        if accepted || matches!(sop, SOp::DropIdx(_)) {
                            apply_sop(&mut own, sop);
                        }
                        writes.push((t0, t1));
                    }
                    COp::Q { goal, legacy } => {
                        let t0 = sh.clock.fetch_add(1, Ordering::SeqCst);
                        let lo = sh.acked.load(Ordering::SeqCst);
                        let res = query_as(&sh.h, Some(&sid), goal, *legacy).await;
                        let hi = sh.started.load(Ordering::SeqCst);
                        let t1 = sh.clock.fetch_add(1, Ordering::SeqCst);
                        if matches!(&res, Err(e) if e == TIMEOUT) {
                            return Err(TIMEOUT.to_string());
                        }
                        let got = to_got(res).map_err(|f| format!("FAIL {}: {}", f.kind, f.detail))?;
                        out.push(QObs { who: Some(s), state: own.clone(), goal: goal.clone(), lo, hi, got, t0, t1, legacy: *legacy });
                    }
                }
                tokio::task::yield_now().await;
            }
            Ok((out, writes, own))
        }));
    }
    // reader
    {
        let (sh, barrier, goals) = (sh.clone(), barrier.clone(), c.reader.clone());
        handles.push(rt().spawn(async move {
            barrier.wait().await;
            let mut out = Vec::new();
            for (k, goal) in goals.iter().enumerate() {
                let legacy = k % 2 == 1;
                let t0 = sh.clock.fetch_add(1, Ordering::SeqCst);
                let lo = sh.acked.load(Ordering::SeqCst);
                let res = query_as(&sh.h, None, goal, legacy).await;
                let hi = sh.started.load(Ordering::SeqCst);
                let t1 = sh.clock.fetch_add(1, Ordering::SeqCst);
                if matches!(&res, Err(e) if e == TIMEOUT) {
                    return Err(TIMEOUT.to_string());
                }
                let got = to_got(res).map_err(|f| format!("FAIL {}: {}", f.kind, f.detail))?;
                out.push(QObs { who: None, state: State::default(), goal: goal.clone(), lo, hi, got, t0, t1, legacy });
                tokio::task::yield_now().await;
            }
            Ok((out, vec![], State::default()))
        }));
    }
    let joined: Result<Vec<Result<TaskOut, tokio::task::JoinError>>, ()> = block_on(async {
        let mut outs = Vec::new();
        let all = async {
            for hd in handles {
                outs.push(hd.await);
            }
        };
        match tokio::time::timeout(Duration::from_secs(90), all).await {
            Ok(()) => Ok(outs),
            Err(_) => Err(()),
        }
    });
    let Ok(joined) = joined else {
        obs.discard = Some("timeout".into());
        return Ok(());
    };
    let mut observations: Vec<QObs> = Vec::new();
    let mut writes: Vec<(usize, u64, u64)> = Vec::new();
    let mut finals: Vec<State> = Vec::new();
    for (ti, j) in joined.into_iter().enumerate() {
        match j {
            Err(e) => return Err(Fail::new("task_panicked", format!("{e}"))),
            Ok(Err(e)) if e == TIMEOUT => {
                obs.discard = Some("timeout".into());
                return Ok(());
            }
            Ok(Err(e)) if e.starts_with("FAIL ") => return Err(Fail::new("non_numeric_answer", e)),
            Ok(Err(e)) => {
                // the writer was refused: the run says nothing about isolation
                obs.discard = Some(crate::common::runner::truncate(&e, 60));
                return Ok(());
            }
            Ok(Ok((o, w, fin))) => {
                observations.extend(o);
                if ti >= 1 && ti <= c.sessions.len() {
                    writes.extend(w.into_iter().map(|(a, b)| (ti - 1, a, b)));
                    finals.push(fin);
                }
            }
        }
    }
    let describe = || {
        format!(
            "setup: {}\nwriter: {}\n{}\nreader: {}",
            c.init.iter().map(POp::text).collect::<Vec<_>>().join(" ; "),
            c.writer.iter().enumerate().map(|(i, w)| format!("{}. {}", i + 1, w.text())).collect::<Vec<_>>().join("  "),
            c.sessions
                .iter()
                .enumerate()
                .map(|(s, ops)| {
                    format!(
                        "s{s}: {}",
                        ops.iter()
                            .map(|o| match o {
                                COp::S(x) => x.text(),
                                COp::Q { goal, .. } => format!("?{}", goal.text()),
                            })
                            .collect::<Vec<_>>()
                            .join(" ; ")
                    )
                })
                .collect::<Vec<_>>()
                .join("\n"),
            c.reader.iter().map(|g| format!("?{}", g.text())).collect::<Vec<_>>().join(" ; ")
        )
    };
    // every state any session ever had (for the classification of a failure only)
    let mut ever: Vec<(usize, State)> = Vec::new();
    for (s, ops) in c.sessions.iter().enumerate() {
        let mut st = State::default();
        for o in ops {
            if let COp::S(x) = o {
                apply_sop(&mut st, x);
                if !st.is_empty() && !ever.iter().any(|(a, b)| *a == s && *b == st) {
                    ever.push((s, st.clone()));
                }
            }
        }
    }
    let mut overlapped = 0u64;
    let mut windows = 0u64;
    for q in &observations {
        let hi = q.hi.min(m);
        let lo = q.lo.min(hi);
        if hi > lo {
            windows += 1;
        }
        if let Some(s) = q.who {
            if writes.iter().any(|(w, a, b)| *w != s && *a < q.t1 && *b > q.t0) {
                overlapped += 1;
                let distinct = finals.iter().enumerate().filter(|(i, f)| !finals[..*i].contains(f)).count();
                if distinct >= 2 {
                    obs.nontrivial = true;
                }
            }
        }
        let mut ok = false;
        for k in lo..=hi {
            let layers: Vec<&State> = vec![&prefixes[k], &q.state];
            let exp = expected(&layers, &q.goal).map_err(|e| Fail::new("reference_failed", e))?;
            if agrees(&q.got, &exp) {
                ok = true;
                break;
            }
        }
        if ok {
            continue;
        }
        let mut kind = "no_admissible_writer_prefix";
        let mut note = String::new();
        for k in 0..=m {
            let exp = expected(&[&prefixes[k], &q.state], &q.goal).map_err(|e| Fail::new("reference_failed", e))?;
            if agrees(&q.got, &exp) {
                kind = "answer_outside_the_admissible_window";
                note = format!(" (it is the answer for writer prefix {k})");
                break;
            }
        }
        if kind == "no_admissible_writer_prefix" {
            'f: for (o, st) in &ever {
                if Some(*o) == q.who {
                    continue;
                }
                for k in lo..=hi {
                    let exp = expected(&[&prefixes[k], &q.state, st], &q.goal).map_err(|e| Fail::new("reference_failed", e))?;
                    if agrees(&q.got, &exp) {
                        kind = "foreign_session_state_visible";
                        note = format!(" (it is the answer with the state session s{o} had at some point: {})", st.short());
                        break 'f;
                    }
                }
            }
        }
        let exp_lo = expected(&[&prefixes[lo], &q.state], &q.goal).map_err(|e| Fail::new("reference_failed", e))?;
        let exp_hi = expected(&[&prefixes[hi], &q.state], &q.goal).map_err(|e| Fail::new("reference_failed", e))?;
        let f = Fail::new(
            kind,
            format!(
                "{}\n?{} asked by {} ({}) with own state {} returned {}{note}; {lo} writer operations were acknowledged before it was issued, {hi} started before it returned; R1 for prefix {lo}: {:?}, for prefix {hi}: {:?}",
                describe(),
                q.goal.text(),
                viewer_name(q.who),
                if q.legacy { "legacy entry point" } else { "execute_program" },
                q.state.short(),
                q.got.short(),
                rows_plain(&exp_lo.rows),
                rows_plain(&exp_hi.rows)
            ),
        );
        let extra: Vec<&State> = vec![&q.state];
        let dup = matches!(q.got, Got::Rows(..)) && (lo..=hi).any(|k| duplicate_fact_under_aggregate(&prefixes[k], &extra, &q.goal.rel));
        return Err(if dup { f.known(K_DUP_FACT) } else { f });
    }
    // the persistent state at the end is the writer's
    check_persistent(&sh.h, &prefixes[m], &describe, "all tasks finished", true)?;
    // and every session still holds exactly its own state
    for (s, fin) in finals.iter().enumerate() {
        for goal in [Atom { rel: "p".into(), args: vec![A, B] }, Atom { rel: "q".into(), args: vec![A] }, Atom { rel: "t".into(), args: vec![A] }] {
            let got = to_got(block_on(query_as(&sh.h, Some(&sids[s]), &goal, false)))?;
            let exp = expected(&[&prefixes[m], fin], &goal).map_err(|e| Fail::new("reference_failed", e))?;
            if !agrees(&got, &exp) {
                let f = Fail::new(
                    "final_session_view_differs",
                    format!("{}\nafter all tasks finished ?{} in session s{s} (state {}) returned {}, expected {:?}", describe(), goal.text(), fin.short(), got.short(), rows_plain(&exp.rows)),
                );
                let mut f2 = f.clone();
                f2.kind = "answer_differs_from_model".into();
                let f2 = classify_known(f2, &prefixes[m], &[fin], &goal, &got);
                return Err(if let Some(k) = f2.known { f.known(&k) } else { f });
            }
        }
    }
    obs.count("concurrent_queries_judged", observations.len() as u64);
    obs.count("queries_with_a_window_of_several_prefixes", windows);
    obs.count("session_queries_overlapping_a_foreign_session_write", overlapped);
    obs.class_if(windows > 0, "some query ran while the writer was writing");
    obs.class_if(overlapped > 0, "some session query overlapped a foreign session write");
    obs.sample = Some(json!({"tasks": describe().lines().collect::<Vec<_>>(), "queries_judged": observations.len(), "queries_with_window": windows, "overlapping_foreign_write": overlapped}));
    Ok(())
}

// ------------------------------------------------------------------------------------------------

pub fn run(ctx: &Ctx) {
    ctx.set_rule(
        "session_histories (deterministic): histories of 4-14 operations over ONE Handler with 2-3 WebSocket sessions (Handler::create_session), \
         each step followed by the same ?goal asked by every session and by a session-less client, alternating between the entry points \
         (execute_program with/without session id, query_program_with_session, query_program). Operations: session fact as a statement or \
         through insert_facts, retract_facts, session rule as a statement or through add_rule (pool of 15 clauses: projections, joins, \
         wildcard, one negation of a base relation, self-recursion, count/sum aggregates, rules over persistent rules and over other session \
         rules), `.session drop n`, `.session clear`, close + new session, persistent insert/delete/rule/view drop sent session-less or over \
         a session connection (pool of 10 persistent clauses, one of them over the session-only relation), one-request programs carrying \
         request-local session facts and rules plus a query (session-less, or over a session connection), and session-less requests that \
         state session facts/rules without asking anything. Base relations p/2 q/1 (persistent + session) and t/1 (session only) over values 0..2; a third of the session facts duplicate \
         a persistent fact. Oracle: own model (persistent facts as sets + persistent rules + per-session facts and rules) and the reference \
         evaluator R1: every answer = R1(persistent u own session state) as a set without repeated rows, for the session-less client and for \
         other sessions R1 without that state; after every step the stored relations and rule catalog equal the persistent writes alone; after \
         clear/close the state is gone. An error answer is accepted only when the goal depends on a relation without facts and rules for that \
         viewer. Non-trivial = a session queried after a state-changing operation of another session whose state differs from its own, or a \
         session/request fact duplicating a persistent fact under an aggregate goal. \
         concurrent_sessions (scheduler dependent, sampling): 2-3 session tasks (4-9 operations each), one session-less reader and one \
         persistent writer (4-12 single-tuple inserts/deletes) as concurrent tokio tasks on a multi-threaded runtime; an answer observed in \
         session s must equal R1(P u state(s)) for SOME writer prefix P between the operations acknowledged before the query was issued and \
         those started before it returned; the stored state at the end is the writer's. Non-trivial there = a session query overlapping in \
         time a state-changing operation of another session while the sessions' states differ. Distinct = case JSON.",
    );
    ctx.assume("`.session clear` removes the session's facts as well as its rules (websocket guide 'Clear Session'; python-sdk: `session.clear()  # or just disconnect`)");
    ctx.assume("session rules never share a head with persistent rules or base relations (the documents do not say how the two combine)");
    ctx.assume("a multi-statement program sent over a session connection may or may not see the session's stored state (the protocol documents one statement per message); it must never change it");
    ctx.assume("single-tuple persistent writes are atomic; the writer's operations become visible in issue order (prefix consistency) - concurrent part only");
    ctx.set_shrink_iters(250);
    ctx.run_part("session_histories", ctx.cases(2500, 32_000), || tape_strategy(TAPE_LEN).prop_map(|t| decode_history(&t)), |c, o| check_history(ctx, c, o));
    ctx.set_shrink_iters(40);
    ctx.run_part("concurrent_sessions", ctx.cases(1200, 15_000), || tape_strategy(TAPE_LEN).prop_map(|t| decode_concurrent(&t)), |c, o| check_concurrent(ctx, c, o));
}

pub fn replay(ctx: &Ctx, part: &str, case: &J) -> Option<Result<CheckResult, String>> {
    Some(match part {
        "session_histories" => ctx.replay_case(part, case, |c: &HCase, o: &mut Obs| check_history(ctx, c, o)),
        "concurrent_sessions" => ctx.replay_case(part, case, |c: &CCase, o: &mut Obs| check_concurrent(ctx, c, o)),
        _ => return None,
    })
}
