//! C11 — a clean restart reproduces exactly the live state (including histories with duplicate
//! inserts and deletes of absent tuples).

use crate::common::gen::{tape_strategy, Tape};
use crate::common::hist::*;
use crate::common::store::{open_store, Scratch};
use crate::common::{CheckResult, Ctx, Fail, Obs};
use proptest::prelude::*;
use serde_json::{json, Value as J};
use std::collections::BTreeMap;

pub const K_LOGGED: &str = "C11-ineffective-writes-logged";

pub type History = Vec<Op>;

fn describe(h: &[Op]) -> String {
    h.iter().map(Op::short).collect::<Vec<_>>().join(" ; ")
}

/// ineffective write on a tuple, later the opposite kind of write on the same tuple, later a restart
fn nontrivial(h: &[Op]) -> bool {
    let mut m = SetModel::default();
    // (relation, row, was_insert) of ineffective writes so far
    let mut ineffective: Vec<(String, Row, bool)> = Vec::new();
    let mut armed = false;
    for op in h.iter().chain(std::iter::once(&Op::Restart)) {
        match op {
            Op::Insert(r, rows) => {
                for row in rows {
                    if ineffective.iter().any(|(ir, irow, was_ins)| ir == r && irow == row && !*was_ins) {
                        armed = true;
                    }
                    if m.rels.get(r).is_some_and(|s| s.contains(row)) {
                        ineffective.push((r.clone(), row.clone(), true));
                    }
                    m.apply(&Op::Insert(r.clone(), vec![row.clone()]));
                }
            }
            Op::Delete(r, rows) => {
                for row in rows {
                    if ineffective.iter().any(|(ir, irow, was_ins)| ir == r && irow == row && *was_ins) {
                        armed = true;
                    }
                    if !m.rels.get(r).is_some_and(|s| s.contains(row)) {
                        ineffective.push((r.clone(), row.clone(), false));
                    }
                    m.apply(&Op::Delete(r.clone(), vec![row.clone()]));
                }
            }
            o if o.is_restart() && armed => return true,
            _ => {}
        }
    }
    false
}

pub fn check(_ctx: &Ctx, h: &History, obs: &mut Obs) -> CheckResult {
    let sc = Scratch::new("c11");
    let rels: Vec<String> = RELS.iter().map(|s| s.to_string()).collect();
    let mut st = Some(open_store(&sc.path, |_| {}).map_err(|e| Fail::new("open_failed", e))?);
    let mut model = SetModel::default();
    obs.nontrivial = nontrivial(h);
    obs.class_if(h.iter().any(Op::is_restart), "restart_inside_history");
    obs.class_if(h.iter().any(|o| matches!(o, Op::Compact)), "compaction");
    obs.class_if(h.iter().any(|o| matches!(o, Op::Save | Op::SaveKg)), "flush");
    obs.key = Some(describe(h));
    obs.sample = Some(json!(describe(h)));
    let mut all: Vec<Op> = h.clone();
    all.push(Op::Restart);
    for (i, op) in all.iter().enumerate() {
        if op.is_restart() {
            let engine = st.take().unwrap();
            let before = live_state(&engine, &rels).map_err(|e| Fail::new("read_failed", e))?;
            if matches!(op, Op::Restart) {
                engine.save_all().map_err(|e| Fail::new("save_failed", e.to_string()))?;
            }
            drop(engine);
            let engine = open_store(&sc.path, |_| {}).map_err(|e| Fail::new("reopen_failed", format!("history: {}\nStorageEngine::new failed after step {i}: {e}", describe(h))))?;
            let after = live_state(&engine, &rels).map_err(|e| Fail::new("read_failed", e))?;
            if after != before {
                let mut f = Fail::new(
                    "restart_changed_state",
                    format!("history: {}\nat step {i} ({}) the engine served {:?} before the restart and {:?} after it", describe(h), op.short(), before, after),
                );
                // signature of the known finding: an ineffective write happened AND the recovered
                // state is exactly what summing the logged +1/-1 diffs predicts
                if model.ineffective_seen && strip_empty(&model.logged_state()) == after {
                    f = f.known(K_LOGGED);
                }
                return Err(f);
            }
            st = Some(engine);
        } else {
            model.apply(op);
            apply_engine(st.as_ref().unwrap(), op).map_err(|e| Fail::new("write_failed", format!("history: {}\nstep {i} {}: {e}", describe(h), op.short())))?;
        }
    }
    let _: BTreeMap<String, ()> = BTreeMap::new();
    Ok(())
}

fn alphabet() -> Vec<Op> {
    let a = vec![1, 1];
    let b = vec![1, 2];
    let r = "r0".to_string();
    vec![
        Op::Insert(r.clone(), vec![a.clone()]),
        Op::Insert(r.clone(), vec![b.clone()]),
        Op::Delete(r.clone(), vec![a.clone()]),
        Op::Delete(r.clone(), vec![b.clone()]),
        Op::Insert(r.clone(), vec![a.clone(), a.clone()]),
        Op::Save,
        Op::Compact,
        Op::Restart,
    ]
}

fn enumerate(max_len: usize) -> Vec<History> {
    let al = alphabet();
    let mut out: Vec<History> = Vec::new();
    let mut frontier: Vec<History> = vec![vec![]];
    for _ in 0..max_len {
        let mut next = Vec::new();
        for h in &frontier {
            for op in &al {
                let mut h2 = h.clone();
                h2.push(op.clone());
                next.push(h2);
            }
        }
        out.extend(next.iter().cloned());
        frontier = next;
    }
    out
}

fn random_history() -> impl Strategy<Value = History> {
    tape_strategy(60).prop_map(|t| {
        let mut tape = Tape::new(&t);
        decode_history(&mut tape, 14, 2, 3, true)
    })
}

pub fn run(ctx: &Ctx) {
    let l = ctx.tier.pick(4, 5);
    ctx.set_rule(&format!(
        "exhaustive part: EVERY history of length 1..{l} over the 8-op alphabet {{insert a, insert b, delete a, delete b, bulk insert [a,a], \
         save_all, compact_all, clean restart}} on one relation (each followed by a final clean restart); random part: histories of up to 14 \
         ops over 2 relations x 3 tuples incl. bulk inserts/deletes with in-batch duplicates, save_knowledge_graph and restarts without a \
         preceding save. Oracle: the relation contents served before every restart must equal those served after StorageEngine::new on \
         the same data_dir. Non-trivial = a duplicate insert / absent delete on tuple t, later the opposite write on t, later a restart. \
         Distinct = distinct op sequence."
    ));
    ctx.assume("contents are read through the public query path (execute_query_tuples_on)");
    ctx.run_enum("exhaustive_short_histories", enumerate(l), true, |h, o| check(ctx, h, o));
    ctx.run_part("random_histories", ctx.cases(1500, 20_000), random_history, |h, o| check(ctx, h, o));
}

pub fn replay(ctx: &Ctx, part: &str, case: &J) -> Option<Result<CheckResult, String>> {
    Some(match part {
        "exhaustive_short_histories" | "random_histories" => ctx.replay_case(part, case, |h: &History, o: &mut Obs| check(ctx, h, o)),
        _ => return None,
    })
}
