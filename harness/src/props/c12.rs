//! C12 — every stored value survives a restart unchanged (value AND kind), and the store always
//! reopens whatever mix of kinds a schema-less relation holds.

use crate::common::gen::tape_strategy;
use crate::common::store::{open_store, read_relation_set, Scratch, KG};
use crate::common::val::{any_v, to_tuple, V, VT};
use crate::common::{CheckResult, Ctx, Fail, Obs};
use proptest::prelude::*;
use serde::{Deserialize, Serialize};
use serde_json::{json, Value as J};
use std::collections::BTreeSet;

#[derive(Clone, Debug, Serialize, Deserialize)]
pub struct VCase {
    pub arity: usize,
    /// batches of rows (each batch = one insert call)
    pub batches: Vec<Vec<VT>>,
    /// 0 = restart without save (WAL replay), 1 = save_all before restart (flush to batch files),
    /// 2 = save_all + compact_all
    pub persist_mode: u8,
    /// save_all between the batches (so later batches live in the WAL, earlier in batch files)
    pub flush_between: bool,
    pub buffer_size: usize,
}

const KINDS: [&str; 9] = ["null", "bool", "int32", "int64", "float64", "timestamp", "string", "vector", "vector_int8"];

fn v_of_kind(k: usize) -> BoxedStrategy<V> {
    // constructed per kind (no rejection)
    let fl = prop_oneof![
        Just(0.0f64), Just(-0.0), Just(f64::NAN), Just(f64::INFINITY), Just(f64::NEG_INFINITY), Just(f64::MIN_POSITIVE / 4.0),
        Just(1e300), Just(1.0), Just(2.5), Just(-3.75), Just(1e21), Just(1.5e-7), any::<f64>(),
    ];
    let st = prop_oneof![
        Just(String::new()), Just("a".to_string()), Just("hello world".to_string()), Just("quo\"te".to_string()),
        Just("back\\slash".to_string()), Just("naïve ☃".to_string()), Just("a,b".to_string()), Just("null".to_string()), Just("NaN".to_string()),
        "[a-z]{1,6}",
    ];
    let f32s = prop_oneof![Just(0.0f32), Just(-0.0f32), Just(1.0f32), Just(-2.5f32), Just(f32::NAN), Just(f32::INFINITY), Just(1e30f32), any::<f32>()];
    match KINDS[k % 9] {
        "null" => Just(V::Null).boxed(),
        "bool" => any::<bool>().prop_map(V::B).boxed(),
        "int32" => prop_oneof![Just(0), Just(-1), Just(i32::MIN), Just(i32::MAX), any::<i32>()].prop_map(V::I32).boxed(),
        "int64" => prop_oneof![Just(0i64), Just(-1), Just(i64::MIN), Just(i64::MAX), -5i64..5, any::<i64>()].prop_map(V::I64).boxed(),
        "float64" => fl.prop_map(|x| V::F(x.to_bits())).boxed(),
        "timestamp" => prop_oneof![Just(0i64), Just(1_700_000_000_000), Just(-1), any::<i64>()].prop_map(V::Ts).boxed(),
        "string" => st.prop_map(V::S).boxed(),
        "vector" => proptest::collection::vec(f32s, 0..6).prop_map(|v| V::Vec(v.into_iter().map(|x| x.to_bits()).collect())).boxed(),
        _ => proptest::collection::vec(any::<i8>(), 0..6).prop_map(V::VecI8).boxed(),
    }
}

/// column strategies: homogeneous, or an ordered pair of kinds (first rows kind a, later rows kind b)
fn column(n_rows: usize) -> BoxedStrategy<Vec<V>> {
    prop_oneof![
        3 => (0usize..9).prop_flat_map(move |k| proptest::collection::vec(v_of_kind(k), n_rows..=n_rows)),
        3 => (0usize..9, 0usize..9, 0..=n_rows).prop_flat_map(move |(a, b, split)| {
            (proptest::collection::vec(v_of_kind(a), split..=split), proptest::collection::vec(v_of_kind(b), (n_rows - split)..=(n_rows - split)))
                .prop_map(|(mut x, y)| {
                    x.extend(y);
                    x
                })
        }),
        1 => proptest::collection::vec(any_v(), n_rows..=n_rows),
    ]
    .boxed()
}

fn strategy() -> impl Strategy<Value = VCase> {
    (1usize..=3, 1usize..=6)
        .prop_flat_map(|(arity, n_rows)| {
            let cols = proptest::collection::vec(column(n_rows), arity..=arity);
            (Just(arity), Just(n_rows), cols, 0u8..3, any::<bool>(), prop_oneof![Just(1usize), Just(2), Just(10_000)], 1usize..=3)
        })
        .prop_map(|(arity, n_rows, cols, persist_mode, flush_between, buffer_size, n_batches)| {
            let rows: Vec<VT> = (0..n_rows).map(|i| cols.iter().map(|c| c[i].clone()).collect()).collect();
            let per = n_rows.div_ceil(n_batches);
            let batches: Vec<Vec<VT>> = rows.chunks(per.max(1)).map(|c| c.to_vec()).collect();
            VCase { arity, batches, persist_mode, flush_between, buffer_size }
        })
}

pub const K_TIMESTAMP: &str = "C12-timestamp-recovers-as-int64";
pub const K_MIXED: &str = "C12-mixed-kind-column";

fn classify(c: &VCase, lost: &BTreeSet<VT>, extra: &BTreeSet<VT>) -> Option<&'static str> {
    {
        // mixed-kind finding first: some column holds >= 2 kinds (an Int64-typed column also
        // swallows Timestamps, which must not be mistaken for the separate timestamp finding)
        let all: Vec<&VT> = c.batches.iter().flatten().collect();
        if (0..c.arity).any(|i| all.iter().map(|t| t[i].kind()).collect::<BTreeSet<_>>().len() >= 2) {
            return Some(K_MIXED);
        }
    }
    // timestamp finding: every lost tuple contains a Timestamp and reappears with Int64 in its place
    let ts_swap = |t: &VT| -> VT { t.iter().map(|v| if let V::Ts(x) = v { V::I64(*x) } else { v.clone() }).collect() };
    if !lost.is_empty() && lost.iter().all(|t| t.iter().any(|v| matches!(v, V::Ts(_))) && extra.contains(&ts_swap(t))) && extra.len() == lost.iter().map(ts_swap).collect::<BTreeSet<_>>().len() {
        return Some(K_TIMESTAMP);
    }
    // mixed-kind finding: some column holds >= 2 kinds
    let all: Vec<&VT> = c.batches.iter().flatten().collect();
    let mixed = (0..c.arity).any(|i| all.iter().map(|t| t[i].kind()).collect::<BTreeSet<_>>().len() >= 2);
    if mixed {
        return Some(K_MIXED);
    }
    None
}

pub fn check(_ctx: &Ctx, c: &VCase, obs: &mut Obs) -> CheckResult {
    let sc = Scratch::new("c12");
    let bs = c.buffer_size;
    let st = open_store(&sc.path, |cfg| cfg.storage.persist.buffer_size = bs).map_err(|e| Fail::new("open_failed", e))?;
    let mut accepted: BTreeSet<VT> = BTreeSet::new();
    let mut rejected = 0;
    // a failing flush/compaction is itself a defect for a relation the engine accepted, but the
    // history continues so that recovery is still judged
    let mut maintenance_errors: Vec<String> = Vec::new();
    for (bi, b) in c.batches.iter().enumerate() {
        match st.insert_tuples_into(KG, "vals", b.iter().map(|t| to_tuple(t)).collect()) {
            Ok(_) => accepted.extend(b.iter().cloned()),
            Err(_) => rejected += 1,
        }
        if c.flush_between && bi + 1 < c.batches.len() {
            if let Err(e) = st.save_all() {
                maintenance_errors.push(format!("save_all: {e}"));
            }
        }
    }
    if accepted.is_empty() {
        obs.discard = Some("no batch accepted".into());
        return Ok(());
    }
    let all: Vec<&VT> = accepted.iter().collect();
    let kinds: BTreeSet<&str> = all.iter().flat_map(|t| t.iter().map(V::kind)).collect();
    let special = all.iter().any(|t| t.iter().any(V::is_special_float));
    let has_vec = kinds.contains("vector") || kinds.contains("vector_int8");
    let mixed_col = (0..c.arity).any(|i| all.iter().map(|t| t[i].kind()).collect::<BTreeSet<_>>().len() >= 2);
    obs.nontrivial = kinds.len() >= 2 || special || has_vec;
    for k in &kinds {
        obs.class(&format!("kind: {k}"));
    }
    obs.class_if(mixed_col, "mixed_kind_column");
    obs.class_if(special, "special_float");
    obs.class(["restart_from_wal", "restart_after_save", "restart_after_compact"][c.persist_mode as usize % 3]);
    obs.count("batches_rejected", rejected);
    obs.sample = Some(json!({"rows": accepted.iter().take(4).collect::<Vec<_>>(), "persist_mode": c.persist_mode, "buffer_size": c.buffer_size}));
    let live = read_relation_set(&st, KG, "vals", c.arity).map_err(|e| Fail::new("read_failed", e))?;
    if live != accepted {
        return Err(Fail::new("live_state_differs_from_accepted", format!("accepted {accepted:?}\nserved before restart {live:?}")));
    }
    if c.persist_mode >= 1 {
        if let Err(e) = st.save_all() {
            maintenance_errors.push(format!("save_all: {e}"));
        }
    }
    if c.persist_mode >= 2 {
        if let Err(e) = st.compact_all() {
            maintenance_errors.push(format!("compact_all: {e}"));
        }
    }
    drop(st);
    if !maintenance_errors.is_empty() {
        obs.class("flush_or_compaction_failed");
        if !mixed_col {
            return Err(Fail::new("maintenance_failed", format!("stored {accepted:?}: {maintenance_errors:?}")));
        }
    }
    let st2 = match open_store(&sc.path, |cfg| cfg.storage.persist.buffer_size = bs) {
        Ok(s) => s,
        Err(e) => {
            let mut f = Fail::new("reopen_failed", format!("stored {accepted:?} (persist_mode {}, buffer {}): StorageEngine::new failed: {e}", c.persist_mode, c.buffer_size));
            if mixed_col {
                f = f.known(K_MIXED);
            }
            return Err(f);
        }
    };
    let after = read_relation_set(&st2, KG, "vals", c.arity).map_err(|e| Fail::new("read_failed_after_restart", e))?;
    if after != accepted {
        let lost: BTreeSet<VT> = accepted.difference(&after).cloned().collect();
        let extra: BTreeSet<VT> = after.difference(&accepted).cloned().collect();
        let mut f = Fail::new(
            "value_changed_by_restart",
            format!("persist_mode {} buffer {} flush_between {}\nstored   {accepted:?}\nrecovered {after:?}\nlost {lost:?}\nappeared {extra:?}", c.persist_mode, c.buffer_size, c.flush_between),
        );
        if let Some(k) = classify(c, &lost, &extra) {
            f = f.known(k);
        }
        return Err(f);
    }
    if !maintenance_errors.is_empty() {
        // recovery was fine, but the relation can never be flushed: part of the mixed-kind finding
        return Err(Fail::new("maintenance_failed", format!("stored {accepted:?}: {maintenance_errors:?}")).known(K_MIXED));
    }
    Ok(())
}

pub fn run(ctx: &Ctx) {
    ctx.set_rule(
        "Relations of arity 1-3 with 1-6 rows; each column is homogeneous in one of the nine value kinds, or switches from kind a to kind b \
         after some row (all 81 ordered pairs), or is fully mixed; values come from an edge-case-heavy generator (int extremes, -0.0, NaN, \
         inf, subnormal, unicode/quote strings, vectors of differing dimension incl. empty). Rows are inserted in 1-3 batches, optionally \
         flushed in between, buffer_size in {1,2,10000}; then restart from the WAL, after save_all, or after save_all+compact_all. Oracle: \
         StorageEngine::new succeeds and the recovered relation equals the accepted tuples value-for-value and kind-for-kind (floats by \
         bits). Non-trivial = relation holds >=2 kinds, a non-finite or negative-zero float, or a vector. Distinct = distinct case JSON.",
    );
    ctx.assume("only batches for which insert_tuples_into returned Ok count as stored");
    ctx.run_part("value_roundtrip", ctx.cases(3000, 60_000), strategy, |c, o| check(ctx, c, o));
}

pub fn replay(ctx: &Ctx, part: &str, case: &J) -> Option<Result<CheckResult, String>> {
    Some(match part {
        "value_roundtrip" => ctx.replay_case(part, case, |c: &VCase, o: &mut Obs| check(ctx, c, o)),
        _ => return None,
    })
}
