//! C13 — acknowledged writes survive any crash and recovery always succeeds (immediate
//! durability). Fault enumeration: the workload's file-system mutations are recorded by the
//! LD_PRELOAD shim, every crash point of the log (incl. torn writes and, in the power-loss
//! model, lost unsynced suffixes) is rebuilt at the original path and recovered.

use crate::common::crashfs::{build, markers_before, parse_log, power_loss_cut, process_crash_cuts, shim_path, Cut, Rec};
use crate::common::gen::{tape_strategy, Tape};
use crate::common::hist::{self, apply_engine, live_state, Op, SetModel};
use crate::common::runner::guarded;
use crate::common::store::{open_store, Scratch};
use crate::common::{CheckResult, Ctx, Fail, Obs};
use proptest::prelude::*;
use serde::{Deserialize, Serialize};
use serde_json::{json, Value as J};
use std::collections::{BTreeMap, BTreeSet};
use std::io::Write;
use std::path::Path;
use std::process::{Command, Stdio};

#[derive(Clone, Debug, Serialize, Deserialize)]
pub struct CrashCase {
    pub ops: Vec<Op>,
    pub buffer_size: usize,
    /// power-loss variant selectors (choice bits, keep fraction in quarters)
    pub power: Vec<(u64, usize)>,
}

#[derive(Serialize, Deserialize)]
struct Work {
    dir: String,
    ops: Vec<Op>,
    buffer_size: usize,
    /// "work" = run the history; "recover" = just open the store (recovery under the recorder)
    mode: String,
}

fn decode(tape: &[u16]) -> CrashCase {
    let mut t = Tape::new(tape);
    let dom = hist::domain_rows();
    let n = 2 + t.below(6);
    let mut m = SetModel::default();
    let mut ops = Vec::new();
    for _ in 0..n {
        let rel = hist::RELS[t.below(2)].to_string();
        match t.below(10) {
            0..=3 => {
                // mostly effective inserts (rows not present, in-batch distinct); one in four may repeat
                // a stored row or a row of the same batch (such a write changes nothing and must leave no trace)
                let k = 1 + t.below(2);
                let any_row = t.chance(1, 4);
                let mut rows = Vec::new();
                for _ in 0..k {
                    let r = dom[t.below(dom.len())].clone();
                    if any_row || (!m.rels.get(&rel).is_some_and(|s| s.contains(&r)) && !rows.contains(&r)) {
                        rows.push(r);
                    }
                }
                if !rows.is_empty() {
                    let op = Op::Insert(rel, rows);
                    m.apply(&op);
                    ops.push(op);
                }
            }
            4 | 5 => {
                // mostly effective deletes; one in four may name an absent row
                let mut present: Vec<_> = m.rels.get(&rel).map(|s| s.iter().cloned().collect()).unwrap_or_default();
                if t.chance(1, 4) {
                    present = dom.clone();
                }
                if !present.is_empty() {
                    let r: Vec<i64> = present[t.below(present.len())].clone();
                    let op = Op::Delete(rel, vec![r]);
                    m.apply(&op);
                    ops.push(op);
                }
            }
            6 => ops.push(Op::Save),
            7 => ops.push(Op::Compact),
            8 => ops.push(Op::SaveKg),
            _ => {
                if m.rels.get(&rel).is_some_and(|s| !s.is_empty()) {
                    let op = Op::DropRel(rel);
                    m.apply(&op);
                    ops.push(op);
                }
            }
        }
    }
    if ops.is_empty() {
        ops.push(Op::Insert("r0".into(), vec![dom[0].clone()]));
    }
    // every third history ends with the shape the multi-step operations are sensitive to: a relation
    // that has flushed batches AND unflushed (WAL / buffer) updates, then a drop / compaction / flush
    if t.chance(1, 3) {
        let rel = hist::RELS[t.below(2)].to_string();
        let absent: Vec<Vec<i64>> = dom.iter().filter(|r| !m.rels.get(&rel).is_some_and(|s| s.contains(*r))).cloned().collect();
        if absent.len() >= 2 {
            for (i, r) in absent.iter().take(2).enumerate() {
                let op = Op::Insert(rel.clone(), vec![r.clone()]);
                m.apply(&op);
                ops.push(op);
                if i == 0 {
                    ops.push([Op::Save, Op::SaveKg, Op::Compact][t.below(3)].clone());
                }
            }
            let last = match t.below(4) {
                0 | 1 => Op::DropRel(rel),
                2 => Op::Compact,
                _ => Op::Save,
            };
            m.apply(&last);
            ops.push(last);
        }
    }
    let power = (0..3).map(|_| (((t.next() as u64) << 16) | t.next() as u64, t.below(4))).collect();
    CrashCase { ops, buffer_size: [1, 3, 10_000][t.below(3)], power }
}

/// child process entry: `check __c13work` (stdin: Work JSON); runs under LD_PRELOAD=fsrec.so
pub fn child_main() -> i32 {
    let w: Work = match crate::common::child::read_case_from_stdin() {
        Ok(w) => w,
        Err(e) => {
            eprintln!("bad work: {e}");
            return 2;
        }
    };
    let bs = w.buffer_size;
    let st = match open_store(Path::new(&w.dir), |c| c.storage.persist.buffer_size = bs) {
        Ok(s) => s,
        Err(e) => {
            println!("OPEN_FAILED {e}");
            std::process::exit(3);
        }
    };
    if w.mode == "work" {
        for (i, op) in w.ops.iter().enumerate() {
            crate::common::crashfs::marker(&format!("attempt {i}"));
            match apply_engine(&st, op) {
                Ok(_) => crate::common::crashfs::marker(&format!("ack {i}")),
                Err(e) => {
                    println!("OP_FAILED {i} {e}");
                    break;
                }
            }
        }
    }
    // die without running destructors: the last image is whatever is on disk now
    std::process::exit(0)
}

fn run_child(work: &Work, log: &Path) -> Result<String, String> {
    run_recorded_child("__c13work", &work.dir, work, log)
}

/// Run the internal command `cmd` of this binary under the file-system recorder (mutations below
/// `root` are logged to `log`); `work` is passed as JSON on stdin; returns the child's stdout.
pub fn run_recorded_child<W: Serialize>(cmd: &str, root: &str, work: &W, log: &Path) -> Result<String, String> {
    let exe = std::env::current_exe().map_err(|e| e.to_string())?;
    let mut child = Command::new(exe)
        .arg(cmd)
        .env("LD_PRELOAD", shim_path())
        .env("FSREC_ROOT", root)
        .env("FSREC_LOG", log)
        .stdin(Stdio::piped())
        .stdout(Stdio::piped())
        .stderr(Stdio::null())
        .spawn()
        .map_err(|e| format!("spawn: {e}"))?;
    child.stdin.take().unwrap().write_all(serde_json::to_string(work).unwrap().as_bytes()).map_err(|e| e.to_string())?;
    let out = child.wait_with_output().map_err(|e| e.to_string())?;
    Ok(String::from_utf8_lossy(&out.stdout).to_string())
}

type State = BTreeMap<String, BTreeSet<Vec<i64>>>;

/// model states after each prefix of the attempted operations
fn prefix_states(ops: &[Op]) -> Vec<State> {
    let mut m = SetModel::default();
    let mut out = vec![m.nonempty()];
    for op in ops {
        m.apply(op);
        out.push(m.nonempty());
    }
    out
}

fn recover(dir: &Path, buffer_size: usize) -> Result<State, String> {
    let rels: Vec<String> = hist::RELS.iter().map(|s| s.to_string()).collect();
    let r = guarded(|| -> Result<State, String> {
        let st = open_store(dir, |c| c.storage.persist.buffer_size = buffer_size)?;
        live_state(&st, &rels)
    });
    match r {
        Ok(r) => r,
        Err(p) => Err(format!("panic during recovery: {p}")),
    }
}

pub fn describe_cut(log: &[Rec], cut: &Cut) -> String {
    let last = if cut.upto > 0 { format!("{:?}", log[cut.upto - 1]) } else { "start".into() };
    let next = log.get(cut.upto).map(|r| format!("{r:?}")).unwrap_or_else(|| "end".into());
    format!(
        "crash after record {} of {} (last applied: {}; next: {}){}{}",
        cut.upto,
        log.len(),
        crate::common::runner::truncate(&last, 160),
        crate::common::runner::truncate(&next, 160),
        cut.torn.map(|n| format!(", the next write torn after {n} bytes")).unwrap_or_default(),
        if cut.dropped.is_empty() { String::new() } else { format!(", power loss dropped unsynced records {:?}", cut.dropped) }
    )
}

pub fn check(ctx: &Ctx, c: &CrashCase, obs: &mut Obs) -> CheckResult {
    if !shim_path().exists() {
        return Err(Fail::new("shim_missing", "shim/fsrec.so not built (run ./setup.sh)"));
    }
    let sc = Scratch::new("c13");
    let logs = Scratch::new("c13log");
    let dir = sc.path.join("data");
    std::fs::create_dir_all(&dir).map_err(|e| Fail::new("setup", e.to_string()))?;
    let log_path = logs.path.join("fs.log");
    let work = Work { dir: dir.display().to_string(), ops: c.ops.clone(), buffer_size: c.buffer_size, mode: "work".into() };
    let out = run_child(&work, &log_path).map_err(|e| Fail::new("workload_failed", e))?;
    if out.contains("OPEN_FAILED") || out.contains("OP_FAILED") {
        obs.discard = Some(format!("workload: {}", crate::common::runner::truncate(out.trim(), 80)));
        return Ok(());
    }
    let log = parse_log(&log_path).map_err(|e| Fail::new("log_unreadable", e))?;
    if log.is_empty() {
        return Err(Fail::new("recorder_saw_nothing", "the shim recorded no file-system mutation (LD_PRELOAD not effective?)"));
    }
    let states = prefix_states(&c.ops);
    let desc = c.ops.iter().map(Op::short).collect::<Vec<_>>().join(" ; ");
    obs.sample = Some(json!({"history": desc, "buffer_size": c.buffer_size, "fs_records": log.len()}));
    let mut cuts = process_crash_cuts(&log);
    let n_process = cuts.len();
    if ctx.tier == crate::common::Tier::Thorough || std::env::var("VERIF_POWER").is_ok() || true {
        // power-loss model: at a sample of cut points, drop unsynced suffixes
        let step = (log.len() / 12).max(1);
        for (vi, (choice, keep)) in c.power.iter().enumerate() {
            let mut i = (vi * 3) % step + 1;
            while i <= log.len() {
                let cut = power_loss_cut(&log, i, *choice, *keep);
                if !cut.dropped.is_empty() {
                    cuts.push(cut);
                }
                i += step;
            }
        }
    }
    obs.count("crash_images", cuts.len() as u64);
    obs.count("process_crash_images", n_process as u64);
    let mut inside_maintenance = false;
    let mut second_level = 0u64;
    for (ci, cut) in cuts.iter().enumerate() {
        let acked = markers_before(&log, cut.upto, "ack ");
        let attempted = markers_before(&log, cut.upto, "attempt ");
        if attempted > acked {
            if let Some(Op::Save | Op::Compact | Op::SaveKg | Op::DropRel(_)) = c.ops.get(attempted - 1) {
                inside_maintenance = true;
            }
        }
        build(&log, cut).materialize(&dir).map_err(|e| Fail::new("image_build_failed", e))?;
        if std::env::var("VERIF_C13_DUMP").is_ok() && !cut.dropped.is_empty() {
            for (i, r) in log.iter().enumerate().take(cut.upto) {
                eprintln!("{}{i}: {}", if cut.dropped.contains(&i) { "DROPPED " } else { "" }, crate::common::runner::truncate(&format!("{r:?}"), 200));
            }
        }
        let judge = |got: Result<State, String>, what: &str| -> CheckResult {
            let got = got.map_err(|e| {
                Fail::new(
                    "recovery_failed",
                    format!("history: {desc}\nbuffer_size {}\n{}\n{what}StorageEngine::new / read failed: {e}", c.buffer_size, describe_cut(&log, cut)),
                )
            })?;
            let ok = (acked..=attempted).any(|j| states[j] == got);
            if !ok {
                let kind = if (0..acked).any(|j| states[j] == got) { "acknowledged_write_lost" } else { "recovered_state_matches_no_prefix" };
                return Err(Fail::new(
                    kind,
                    format!(
                        "history: {desc}\nbuffer_size {}\n{}\n{what}{acked} operation(s) were acknowledged and {attempted} attempted before the crash; recovered {got:?}\nadmissible states: {:?}",
                        c.buffer_size,
                        describe_cut(&log, cut),
                        &states[acked..=attempted]
                    ),
                ));
            }
            Ok(())
        };
        judge(recover(&dir, c.buffer_size), "")?;
        // crash during the first recovery: for a sample of images record the recovery itself and
        // cut it again
        if cut.torn.is_none() && ci % 7 == 3 && second_level < 6 {
            second_level += 1;
            build(&log, cut).materialize(&dir).map_err(|e| Fail::new("image_build_failed", e))?;
            let log2_path = logs.path.join(format!("rec{ci}.log"));
            let w2 = Work { dir: dir.display().to_string(), ops: vec![], buffer_size: c.buffer_size, mode: "recover".into() };
            run_child(&w2, &log2_path).map_err(|e| Fail::new("workload_failed", e))?;
            let log2 = parse_log(&log2_path).unwrap_or_default();
            let mut base: Vec<Rec> = log.iter().take(cut.upto).enumerate().filter(|(i, _)| !cut.dropped.contains(i)).map(|(_, r)| r.clone()).collect();
            let base_len = base.len();
            base.extend(log2.iter().cloned());
            for cut2 in process_crash_cuts(&log2) {
                let c2 = Cut { upto: base_len + cut2.upto, torn: cut2.torn, dropped: BTreeSet::new() };
                build(&base, &c2).materialize(&dir).map_err(|e| Fail::new("image_build_failed", e))?;
                obs.count("crash_during_recovery_images", 1);
                judge(recover(&dir, c.buffer_size), &format!("[second crash during the recovery of that image, after {} of its {} records] ", cut2.upto, log2.len()))?;
            }
        }
    }
    obs.nontrivial = inside_maintenance;
    obs.class_if(inside_maintenance, "crash_inside_flush_compaction_or_drop");
    obs.class(&format!("buffer_size_{}", c.buffer_size));
    Ok(())
}

pub fn run(ctx: &Ctx) {
    ctx.set_level("fault_enumeration");
    // a case costs hundreds of recoveries: keep proptest's own shrinking short
    ctx.set_shrink_iters(12);
    ctx.set_rule(
        "Histories of 2-7 effective operations (insert / delete on 2 relations, save_all, compact_all, save_knowledge_graph, relation drop) \
         under immediate durability with buffer_size in {1,3,10000}, executed in a child process whose file-system mutations are recorded by \
         an LD_PRELOAD shim with ATTEMPT/ACK markers per operation. For each history EVERY record boundary of the log is a crash point \
         (process-crash model), every write additionally torn after 1, half and len-1 bytes; power-loss variants drop unsynced data / \
         directory-entry suffixes at sampled points; for a sample of images the recovery itself is recorded and cut at every boundary \
         (crash during recovery). Each image is rebuilt at the original path and opened with StorageEngine::new: it must open, and its \
         contents must equal the set model after some prefix j of the attempted operations with j >= the number acknowledged before \
         the cut. evaluations counts histories; counters.crash_images counts images. Non-trivial = some crash point lies inside a \
         flush, compaction or drop. Distinct = distinct history + buffer size.",
    );
    ctx.assume("Int64 columns only, so finding C12-mixed-kind-column cannot masquerade as a crash bug; a quarter of the writes may be ineffective (duplicate insert / absent delete)");
    ctx.assume("power-loss model: only suffix loss of unsynced data per file and of unsynced entry operations per directory");
    ctx.run_part("crash_point_enumeration", ctx.cases(240, 4000), || tape_strategy(60).prop_map(|t| decode(&t)), |c, o| check(ctx, c, o));
}

pub fn replay(ctx: &Ctx, part: &str, case: &J) -> Option<Result<CheckResult, String>> {
    Some(match part {
        "crash_point_enumeration" => ctx.replay_case(part, case, |c: &CrashCase, o: &mut Obs| check(ctx, c, o)),
        _ => return None,
    })
}
