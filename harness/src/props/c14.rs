//! C14 — flushes, saves, compactions, WAL-size flushes and clean restarts are invisible: they
//! change neither the served answers nor the state recovered by a clean restart.

use crate::common::gen::{tape_strategy, Tape};
use crate::common::hist::*;
use crate::common::store::{open_store, Scratch};
use crate::common::{CheckResult, Ctx, Fail, Obs};
use inputlayer::DurabilityMode;
use proptest::prelude::*;
use serde::{Deserialize, Serialize};
use serde_json::{json, Value as J};
use std::collections::{BTreeMap, BTreeSet};

pub const K_LOGGED: &str = "C11-ineffective-writes-logged";

#[derive(Clone, Debug, Serialize, Deserialize)]
pub struct MCase {
    /// base history: writes only
    pub writes: Vec<Op>,
    /// maintenance ops inserted before write index `.0` (index == writes.len() means at the end)
    pub maintenance: Vec<(usize, Op)>,
    pub buffer_size: usize,
    pub max_wal_size: u64,
    /// 0 immediate, 1 batched, 2 async
    pub durability: u8,
}

fn durability(d: u8) -> DurabilityMode {
    match d % 3 {
        0 => DurabilityMode::Immediate,
        1 => DurabilityMode::Batched,
        _ => DurabilityMode::Async,
    }
}

fn strategy() -> impl Strategy<Value = MCase> {
    tape_strategy(90).prop_map(|t| {
        let mut tape = Tape::new(&t);
        let writes = decode_history(&mut tape, 10, 2, 4, false);
        let n_m = 1 + tape.below(5);
        let mut maintenance = Vec::new();
        for _ in 0..n_m {
            let pos = tape.below(writes.len() + 1);
            let op = match tape.below(6) {
                0 | 1 => Op::Compact,
                2 => Op::Save,
                3 => Op::SaveKg,
                4 => Op::Restart,
                _ => Op::RestartNoSave,
            };
            maintenance.push((pos, op));
        }
        maintenance.sort_by_key(|m| m.0);
        MCase { writes, maintenance, buffer_size: [1, 2, 3, 10_000][tape.below(4)], max_wal_size: [0u64, 200][tape.below(2)], durability: tape.below(3) as u8 }
    })
}

/// make every write effective w.r.t. the set model (used while the C11 finding is open)
fn effective_only(writes: &[Op]) -> (Vec<Op>, usize) {
    let mut m = SetModel::default();
    let mut out = Vec::new();
    let mut dropped = 0;
    for w in writes {
        match w {
            Op::Insert(r, rows) => {
                let set = m.rels.entry(r.clone()).or_default();
                let mut keep = Vec::new();
                for row in rows {
                    if set.insert(row.clone()) {
                        keep.push(row.clone());
                    } else {
                        dropped += 1;
                    }
                }
                if !keep.is_empty() {
                    out.push(Op::Insert(r.clone(), keep));
                }
            }
            Op::Delete(r, rows) => {
                let set = m.rels.entry(r.clone()).or_default();
                let mut keep = Vec::new();
                for row in rows {
                    if set.remove(row) {
                        keep.push(row.clone());
                    } else {
                        dropped += 1;
                    }
                }
                if !keep.is_empty() {
                    out.push(Op::Delete(r.clone(), keep));
                }
            }
            _ => {}
        }
    }
    (out, dropped)
}

type State = BTreeMap<String, BTreeSet<Row>>;

/// Run a full history under a configuration; compare the served state with the set model after
/// every step; return the state recovered by a final clean restart.
fn run_history(ops: &[Op], tweak: &dyn Fn(&mut inputlayer::Config), label: &str) -> Result<State, Fail> {
    let sc = Scratch::new("c14");
    let rels: Vec<String> = RELS.iter().map(|s| s.to_string()).collect();
    let desc = || ops.iter().map(Op::short).collect::<Vec<_>>().join(" ; ");
    let mut st = Some(open_store(&sc.path, |c| tweak(c)).map_err(|e| Fail::new("open_failed", e))?);
    let mut model = SetModel::default();
    for (i, op) in ops.iter().chain(std::iter::once(&Op::Restart)).enumerate() {
        if op.is_restart() {
            let engine = st.take().unwrap();
            if matches!(op, Op::Restart) {
                // clean shutdown = save_all, then drop
                engine.save_all().map_err(|e| Fail::new("save_failed", format!("[{label}] {}: save_all: {e}", desc())))?;
            }
            drop(engine);
            st = Some(open_store(&sc.path, |c| tweak(c)).map_err(|e| Fail::new("reopen_failed", format!("[{label}] history: {}\nstep {i}: StorageEngine::new failed: {e}", desc())))?);
        } else {
            model.apply(op);
            apply_engine(st.as_ref().unwrap(), op).map_err(|e| Fail::new("operation_failed", format!("[{label}] history: {}\nstep {i} {}: {e}", desc(), op.short())))?;
        }
        let live = live_state(st.as_ref().unwrap(), &rels).map_err(|e| Fail::new("read_failed", e))?;
        if live != model.nonempty() {
            return Err(Fail::new(
                "served_state_differs_from_model",
                format!("[{label}] history: {}\nafter step {i} ({}) the engine serves {live:?}, the writes so far imply {:?}", desc(), op.short(), model.nonempty()),
            ));
        }
    }
    live_state(st.as_ref().unwrap(), &rels).map_err(|e| Fail::new("read_failed", e))
}

pub fn check(ctx: &Ctx, c: &MCase, obs: &mut Obs) -> CheckResult {
    let (writes, dropped) = if ctx.is_open_known(K_LOGGED) { effective_only(&c.writes) } else { (c.writes.clone(), 0) };
    if dropped > 0 {
        obs.class("steered_to_effective_writes (C11 finding open)");
    }
    if writes.is_empty() {
        obs.discard = Some("no effective write left".into());
        return Ok(());
    }
    // H' = H with maintenance inserted (positions scaled to the possibly shortened write list)
    let mut with_m: Vec<Op> = Vec::new();
    let scale = |p: usize| (p * writes.len()) / c.writes.len().max(1);
    for (i, w) in writes.iter().enumerate() {
        for (p, m) in &c.maintenance {
            if scale(*p) == i {
                with_m.push(m.clone());
            }
        }
        with_m.push(w.clone());
    }
    for (p, m) in &c.maintenance {
        if scale(*p) >= writes.len() {
            with_m.push(m.clone());
        }
    }
    if c.durability % 3 != 0 {
        // batched / async modes promise durability only across a clean shutdown (save_all then
        // drop): dropping the engine without a save is a crash there, which C14 does not cover
        for o in &mut with_m {
            if matches!(o, Op::RestartNoSave) {
                *o = Op::Restart;
            }
        }
    }
    let n_updates: usize = writes.iter().map(|w| if let Op::Insert(_, r) | Op::Delete(_, r) = w { r.len() } else { 0 }).sum();
    let mut seen_delete = false;
    let mut compaction_after_delete = false;
    for o in &with_m {
        match o {
            Op::Delete(..) => seen_delete = true,
            Op::Compact if seen_delete => compaction_after_delete = true,
            _ => {}
        }
    }
    let buffer_flush = c.buffer_size <= n_updates;
    let wal_flush = c.max_wal_size > 0 && n_updates >= 2;
    obs.nontrivial = compaction_after_delete || buffer_flush || wal_flush;
    obs.class_if(compaction_after_delete, "compaction_after_delete");
    obs.class_if(buffer_flush, "buffer_full_flush");
    obs.class_if(wal_flush, "wal_size_flush_possible");
    obs.class(["immediate", "batched", "async"][c.durability as usize % 3]);
    obs.class_if(with_m.iter().any(Op::is_restart), "restart_inside_history");
    obs.sample = Some(json!({"history_with_maintenance": with_m.iter().map(Op::short).collect::<Vec<_>>(), "buffer_size": c.buffer_size, "max_wal_size": c.max_wal_size, "durability": c.durability}));
    let reference = run_history(&writes, &|_| {}, "reference run: writes only, default configuration")?;
    let (bs, mw, d) = (c.buffer_size, c.max_wal_size, c.durability);
    let got = run_history(
        &with_m,
        &move |cfg: &mut inputlayer::Config| {
            cfg.storage.persist.buffer_size = bs;
            cfg.storage.persist.max_wal_size_bytes = mw;
            cfg.storage.persist.durability_mode = durability(d);
        },
        &format!("buffer_size={bs} max_wal_size={mw} durability={}", ["immediate", "batched", "async"][d as usize % 3]),
    )?;
    if got != reference {
        return Err(Fail::new(
            "maintenance_changed_recovered_state",
            format!(
                "writes: {}\nwith maintenance: {}\nconfig buffer_size={bs} max_wal_size={mw} durability={d}\nrecovered without maintenance: {reference:?}\nrecovered with maintenance: {got:?}",
                writes.iter().map(Op::short).collect::<Vec<_>>().join(" ; "),
                with_m.iter().map(Op::short).collect::<Vec<_>>().join(" ; ")
            ),
        ));
    }
    Ok(())
}

pub fn run(ctx: &Ctx) {
    ctx.set_rule(
        "Base history H: up to 10 single/bulk inserts and deletes over 2 relations x 4 tuples; H' = H with 1-5 maintenance operations \
         (compact_all, save_all, save_knowledge_graph, clean restart with and without a preceding save) inserted at generated positions, \
         run under buffer_size in {1,2,3,10000} x max_wal_size_bytes in {0,200} x durability in {immediate,batched,async}. Oracle: in \
         both runs the served relations equal the set model after every step, and the state recovered by a final clean restart of H' \
         equals the one recovered from H under the default configuration. Non-trivial = H' has a compaction after a delete, or \
         buffer_size <= number of updates (buffer-full flush), or a WAL size limit. Distinct = distinct case JSON.",
    );
    ctx.assume("clean shutdown = save_all then drop; while finding C11-ineffective-writes-logged is open the generated writes are made effective (duplicate inserts / absent deletes dropped) so that C11's root cause is not re-reported here");
    ctx.run_part("maintenance_invisible", ctx.cases(1500, 30_000), strategy, |c, o| check(ctx, c, o));
}

pub fn replay(ctx: &Ctx, part: &str, case: &J) -> Option<Result<CheckResult, String>> {
    Some(match part {
        "maintenance_invisible" => ctx.replay_case(part, case, |c: &MCase, o: &mut Obs| check(ctx, c, o)),
        _ => return None,
    })
}
