//! C15 — concurrent writes are serializable and durable. Schedule exploration (E4): 2–3 writer
//! threads issue inserts, deletes, flushes and compactions through `StorageEngine`; the harness owns
//! the interleaving at the feature-guarded lock / I/O boundaries. Oracles: the served state, the
//! state after a restart and every process-crash image taken at a scheduling step must be explained
//! by a linearization of the acknowledged operations (plus any subset of the in-flight ones).

use crate::common::conc::{explains, run_case, ConcCase};
use crate::common::gen::{tape_strategy, Tape};
use crate::common::lin::{self, render_history, Op, Row};
use crate::common::{CheckResult, Ctx, Fail, Obs};
use proptest::prelude::*;
use serde_json::{json, Value as J};
use std::collections::BTreeSet;

pub const K_INEFFECTIVE: &str = "C11-ineffective-writes-logged";

pub const KG: &str = "default";
const RELS: [&str; 2] = ["r0", "r1"];
pub const TAPE_LEN: usize = 160;

fn ins(rel: &str, rows: Vec<Row>) -> Op {
    Op::Insert { kg: KG.into(), rel: rel.into(), rows }
}
fn del(rel: &str, rows: Vec<Row>) -> Op {
    Op::Delete { kg: KG.into(), rel: rel.into(), rows }
}

/// Two families. "private": every thread writes tuples of its own (first column = 10*(thread+1)+i)
/// and only effective writes, so that no interleaving contains a duplicate insert or an absent
/// delete (those are known finding C11-ineffective-writes-logged). "shared": threads write a common
/// 3-tuple alphabet.
pub fn decode(tape: &[u16]) -> ConcCase {
    let mut t = Tape::new(tape);
    let shared = t.chance(1, 3);
    let nthreads = 2 + t.below(2);
    let buffer_size = [10_000, 1, 2, 3][t.below(4)];
    let mut init = Vec::new();
    let mut threads = Vec::new();
    let shared_rows: Vec<Row> = vec![vec![1, 1], vec![1, 2], vec![2, 1]];
    // preload: data that sits in the shard buffers / WAL (and, after a save, in batch files)
    let mut present: Vec<BTreeSet<(usize, Row)>> = vec![BTreeSet::new(); nthreads]; // (rel index, row) per owner
    for th in 0..nthreads {
        let k = t.below(3);
        for i in 0..k {
            let rel = t.below(2);
            let row = if shared { shared_rows[t.below(3)].clone() } else { vec![10 * (th as i64 + 1) + i as i64, 0] };
            if present.iter().any(|p| p.contains(&(rel, row.clone()))) {
                continue;
            }
            init.push(ins(RELS[rel], vec![row.clone()]));
            present[th].insert((rel, row));
        }
    }
    if t.chance(1, 3) {
        init.push(Op::Save(KG.into()));
        if t.chance(1, 2) {
            // more buffered data on top of the batch files
            let rel = t.below(2);
            let row = vec![99, 0];
            init.push(ins(RELS[rel], vec![row]));
        }
    }
    for th in 0..nthreads {
        let n = 1 + t.below(3);
        let mut ops = Vec::new();
        let mut next = 5i64;
        for _ in 0..n {
            let rel = t.below(2);
            match t.below(8) {
                0..=2 => {
                    let k = 1 + t.below(2);
                    let mut rows = Vec::new();
                    for _ in 0..k {
                        let row = if shared {
                            shared_rows[t.below(3)].clone()
                        } else {
                            next += 1;
                            vec![10 * (th as i64 + 1) + next, 0]
                        };
                        if !rows.contains(&row) {
                            rows.push(row);
                        }
                    }
                    for r in &rows {
                        present[th].insert((rel, r.clone()));
                    }
                    ops.push(ins(RELS[rel], rows));
                }
                3 | 4 => {
                    if shared {
                        ops.push(del(RELS[rel], vec![shared_rows[t.below(3)].clone()]));
                    } else {
                        let mine: Vec<(usize, Row)> = present[th].iter().cloned().collect();
                        if !mine.is_empty() {
                            let (r, row) = mine[t.below(mine.len())].clone();
                            present[th].remove(&(r, row.clone()));
                            ops.push(del(RELS[r], vec![row]));
                        }
                    }
                }
                5 | 6 => ops.push(Op::Save(KG.into())),
                _ => ops.push(Op::Compact),
            }
        }
        if ops.is_empty() {
            ops.push(Op::Save(KG.into()));
        }
        threads.push(ops);
    }
    let free = t.chance(1, 6);
    let sticky = [0u16, 32768, 55705, 62259][t.below(4)];
    let schedule: Vec<u16> = (0..100).map(|_| t.next()).collect();
    ConcCase { buffer_size, init, threads, schedule, free, sticky }
}

fn is_shared(c: &ConcCase) -> bool {
    let writes = |ops: &Vec<Op>| -> BTreeSet<(String, Row)> {
        ops.iter()
            .flat_map(|o| match o {
                Op::Insert { rel, rows, .. } | Op::Delete { rel, rows, .. } => rows.iter().map(|r| (rel.clone(), r.clone())).collect::<Vec<_>>(),
                _ => vec![],
            })
            .collect()
    };
    let sets: Vec<_> = c.threads.iter().map(writes).collect();
    (0..sets.len()).any(|i| (i + 1..sets.len()).any(|j| sets[i].intersection(&sets[j]).next().is_some()))
}

pub fn check(_ctx: &Ctx, c: &ConcCase, obs: &mut Obs) -> CheckResult {
    let out = run_case("c15", c, true).map_err(|e| Fail::new("harness_error", e))?;
    if out.info.stuck || out.info.deadlock {
        obs.discard = Some(if out.info.deadlock { "schedule ended in a lock cycle among parked threads (run released, not judged)".into() } else { "run made no progress (released, not judged)".into() });
        return Ok(());
    }
    let shared = is_shared(c);
    obs.class(if shared { "family: shared tuples" } else { "family: private tuples" });
    obs.class(&format!("threads: {}", c.threads.len()));
    obs.class(if c.free { "mode: free-running threads (OS scheduler)".to_string() } else { format!("mode: generated schedule, stickiness {}%", c.sticky as u32 * 100 / 65536) }.as_str());
    obs.class(&format!("buffer_size: {}", c.buffer_size));
    obs.class_if(out.info.detach_events > 0, "a thread was detached (lock invisible to the hooks or long step)");
    obs.class_if(out.info.blocked_events > 0, "a thread waited for a lock held by a parked thread");
    obs.class_if(out.ineffective, "engine reported an ineffective write");
    for s in &out.info.sites {
        obs.count(&format!("site {s}"), 1);
    }
    obs.count("crash images recovered", out.images.len() as u64);
    obs.count("scheduling steps", out.info.steps as u64);
    // the window the property is about: a thread was resumed from between its WAL append and its buffer
    // insertion right after another thread ran a flush/compact step, or a flush ran between them
    let tr = &out.info.trace;
    let window = (1..tr.len()).any(|i| tr[i].site == "persist.append.wal_written" && tr[i - 1].tid != tr[i].tid);
    obs.class_if(window, "another thread was scheduled while a thread sat between its WAL append and its buffer insertion");
    obs.nontrivial = out.info.switches >= 2 && c.threads.iter().filter(|t| t.iter().any(|o| o.is_write())).count() >= 1 && c.threads.iter().any(|t| t.iter().any(|o| matches!(o, Op::Save(_) | Op::Compact)));
    obs.key = Some(format!("{:?}/{:?}", c.threads, out.info.trace.iter().map(|s| s.tid).collect::<Vec<_>>()));
    obs.sample = Some(json!({"case": c.text(), "switches": out.info.switches, "steps": out.info.steps, "images": out.images.len()}));
    let sched_txt = || out.info.trace.iter().map(|s| format!("T{}@{}", s.tid, s.site)).collect::<Vec<_>>().join(" ");
    let fail = |kind: &str, what: String| -> Fail {
        let f = Fail::new(kind, format!("{}\n{what}\nhistory:\n{}\nschedule: {}", c.text(), render_history(&out.history), sched_txt()));
        if out.ineffective {
            f.known(K_INEFFECTIVE)
        } else {
            f
        }
    };
    if out.panicked {
        return Err(fail("writer_thread_panicked", "a writer thread panicked".into()));
    }
    for o in &out.history {
        if let Some((_, lin::Res::Err(e))) = &o.ret {
            return Err(fail("operation_failed", format!("T{} {} failed: {e}", o.thread, o.op.text())));
        }
    }
    let served = out.served.as_ref().map_err(|e| fail("served_state_unreadable", e.clone()))?;
    if !explains(&out.init_state, &out.history, served) {
        let adm = lin::final_states(&out.init_state, &out.history, 6);
        return Err(fail("served_state_not_serializable", format!("served state {}\nstates reachable by a serial order of the acknowledged operations: {:?}", served.render(), adm.iter().map(|s| s.render()).collect::<Vec<_>>())));
    }
    let restarted = out.restarted.as_ref().map_err(|e| fail("restart_failed", e.clone()))?;
    if restarted != served {
        return Err(fail("restart_differs_from_served_state", format!("served {}\nafter restart {}", served.render(), restarted.render())));
    }
    for (im, rec) in &out.images {
        let hist = out.log.history(im.events);
        let acked = hist.iter().filter(|o| o.ret.is_some()).count();
        let at = format!("crash at scheduling step {} (a thread parked at {}), {} operations acknowledged, {} in flight", im.step, im.site, acked, hist.len() - acked);
        let rec = rec.as_ref().map_err(|e| fail("recovery_failed", format!("{at}: {e}")))?;
        if !explains(&out.init_state, &hist, rec) {
            let adm = lin::final_states(&out.init_state, &hist, 6);
            return Err(fail(
                "acknowledged_operation_lost_by_crash",
                format!("{at}\nrecovered {}\nadmissible (every acknowledged operation, any subset of the in-flight ones): {:?}\nhistory up to the crash:\n{}", rec.render(), adm.iter().map(|s| s.render()).collect::<Vec<_>>(), render_history(&hist)),
            ));
        }
    }
    Ok(())
}

pub fn run(ctx: &Ctx) {
    ctx.set_rule(
        "non-trivial = the schedule switches threads at least twice and some thread runs a flush or compaction while another writes \
         (a class counts the schedules in which another thread runs while a thread sits between its WAL append and its buffer insertion)",
    );
    ctx.assume("the harness owns the interleaving only at the feature-guarded sites (verif-hooks) - between two sites a thread runs alone; crash images are process-crash images (all writes issued so far are on disk), taken at scheduling steps only (syscall-level cuts and power loss are C13's business, single-threaded)");
    ctx.assume("operations are compared by Ok/Err class and by the states they lead to; duplicate inserts / absent deletes (reported as such by the engine's own return values) fall under known finding C11-ineffective-writes-logged");
    ctx.set_shrink_iters(60);
    ctx.run_part("schedules_storage_engine", ctx.cases(400, 8000), || tape_strategy(TAPE_LEN).prop_map(|t| decode(&t)), |c, o| check(ctx, c, o));
}

pub fn replay(ctx: &Ctx, part: &str, case: &J) -> Option<Result<CheckResult, String>> {
    Some(match part {
        "schedules_storage_engine" => ctx.replay_case(part, case, |c: &ConcCase, o: &mut Obs| check(ctx, c, o)),
        _ => return None,
    })
}
