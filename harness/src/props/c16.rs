//! C16 — rule and schema catalogs are durable and crash-safe.
//!
//! Part 1 (`catalog_histories_clean_restart`): generated histories of rule / schema catalog
//! operations on 1-2 knowledge graphs with clean restarts; after every restart the catalogs read
//! back through the public API must equal the model built from the acknowledged operations.
//! Part 2 (`catalog_crash_points`): short histories run in a child process under the file-system
//! recorder; every crash image (process crash incl. torn writes and the cut between
//! `open(O_TRUNC)` and `write`; sampled power-loss images) is rebuilt, reopened and judged: the
//! store opens, every knowledge graph is there, and the catalogs equal the model after a prefix of
//! the attempted operations that contains every completed one.
//!
//! Findings of the current tree (ids below) are recognised from the failure itself; while one is
//! open the enumeration continues past the images / restarts it explains (counted in
//! `counters.tolerated_*`), so the remaining crash points are still judged. `VERIF_STRICT=1` shows
//! the raw failures; witnesses are stored as parts `witness_crash@<id>` / `witness_history@<id>`.

use crate::common::crashfs::{build, marker, markers_before, parse_log, power_loss_cut, process_crash_cuts, shim_path, Cut, Rec, Vfs};
use crate::common::gen::{tape_strategy, Tape};
use crate::common::runner::{guarded, truncate};
use crate::common::store::{itup, open_store, Scratch};
use crate::common::{CheckResult, Ctx, Fail, Obs};
use crate::props::c13::{describe_cut, run_recorded_child};
use inputlayer::schema::{ColumnSchema, RelationSchema, SchemaType};
use inputlayer::StorageEngine;
use proptest::prelude::*;
use serde::{Deserialize, Serialize};
use serde_json::{json, Value as J};
use std::collections::{BTreeMap, BTreeSet, HashMap};
use std::path::Path;

/// a crash inside the in-place rewrite of `<kg>/rules/catalog.json` leaves an empty / torn file and
/// `StorageEngine::new` then fails for the whole data directory
pub const K_RULES_TORN: &str = "C16-rule-catalog-rewrite-unopenable";
/// a crash inside the in-place rewrite of `<kg>/schema.json` leaves an empty / torn file; the load
/// error is swallowed and the knowledge graph comes up with an empty schema catalog
pub const K_SCHEMA_TORN: &str = "C16-schema-catalog-rewrite-emptied";
/// catalog files are never fsynced (nor is their directory entry): a power loss after the
/// acknowledgement loses or tears the catalog
pub const K_NOFSYNC: &str = "C16-catalog-write-not-fsynced";
/// `drop_relation_in` removes the relation's schema in memory only; `schema.json` is not rewritten
pub const K_DROPREL: &str = "C16-drop-relation-schema-not-saved";

pub const KGS: [&str; 2] = ["default", "k2"];
const SCHEMA_RELS: [&str; 3] = ["r0", "r1", "s0"];
/// rule name -> clause pool (always parseable, safe, positive => stratified in any combination;
/// one arity per rule name so that arity checks never interfere)
const RULE_POOL: [(&str, &[&str]); 3] = [
    ("d1", &["d1(X, Y) <- r0(X, Y)", "d1(X, Y) <- r0(X, Z), r1(Z, Y)", "d1(X, Y) <- r1(Y, X)"]),
    ("d2", &["d2(X) <- d1(X, _)", "d2(X) <- r1(X, X)"]),
    ("e1", &["e1(X, Y) <- r1(X, Y), X < Y", "e1(X, 7) <- r0(X, 7)", "e1(X, Y) <- d1(Y, X)"]),
];

type Cols = Vec<(String, String)>;

fn schema_variants() -> Vec<Cols> {
    let v = |c: &[(&str, &str)]| -> Cols { c.iter().map(|(a, b)| (a.to_string(), b.to_string())).collect() };
    vec![
        v(&[("a", "int"), ("b", "int")]),
        v(&[("x", "any"), ("y", "int")]),
        v(&[("a", "int"), ("b", "string")]),
        v(&[("k", "int"), ("v", "float"), ("w", "string")]),
    ]
}

#[derive(Clone, Debug, Serialize, Deserialize, PartialEq, Eq)]
pub enum Op {
    /// base fact insert (so that relations exist / persist traffic interleaves with catalog writes)
    Insert { kg: String, rel: String, row: Vec<i64> },
    /// `register_rule_in`: new rule, or an extra clause of an existing rule
    AddClause { kg: String, text: String },
    DropRule { kg: String, name: String },
    ClearRule { kg: String, name: String },
    /// `remove_rule_clause_in` (0-based index)
    RemoveClause { kg: String, name: String, index: usize },
    DropPrefix { kg: String, prefix: String },
    /// `register_schema_in` (refused when a schema exists)
    SchemaRegister { kg: String, rel: String, cols: Cols },
    /// `register_or_update_schema_in`
    SchemaUpdate { kg: String, rel: String, cols: Cols },
    SchemaRemove { kg: String, rel: String },
    /// `drop_relation_in`: removes data, schema and the rule of that name
    DropRelation { kg: String, rel: String },
    /// clean restart (optionally after `save_all`)
    Restart { save: bool },
}

fn cols_text(cols: &Cols) -> String {
    cols.iter().map(|(n, t)| format!("{n}: {t}")).collect::<Vec<_>>().join(", ")
}

impl Op {
    pub fn short(&self) -> String {
        match self {
            Op::Insert { kg, rel, row } => format!("{kg}: insert {rel}{row:?}"),
            Op::AddClause { kg, text } => format!("{kg}: +{text}"),
            Op::DropRule { kg, name } => format!("{kg}: drop rule {name}"),
            Op::ClearRule { kg, name } => format!("{kg}: clear rule {name}"),
            Op::RemoveClause { kg, name, index } => format!("{kg}: remove clause #{} of {name}", index + 1),
            Op::DropPrefix { kg, prefix } => format!("{kg}: drop rules with prefix '{prefix}'"),
            Op::SchemaRegister { kg, rel, cols } => format!("{kg}: register schema {rel}({})", cols_text(cols)),
            Op::SchemaUpdate { kg, rel, cols } => format!("{kg}: register_or_update schema {rel}({})", cols_text(cols)),
            Op::SchemaRemove { kg, rel } => format!("{kg}: remove schema {rel}"),
            Op::DropRelation { kg, rel } => format!("{kg}: drop relation {rel}"),
            Op::Restart { save: true } => "save_all + restart".into(),
            Op::Restart { save: false } => "restart".into(),
        }
    }
    fn kind(&self) -> &'static str {
        match self {
            Op::Insert { .. } => "insert",
            Op::AddClause { .. } => "register_rule",
            Op::DropRule { .. } => "drop_rule",
            Op::ClearRule { .. } => "clear_rule",
            Op::RemoveClause { .. } => "remove_rule_clause",
            Op::DropPrefix { .. } => "drop_rules_by_prefix",
            Op::SchemaRegister { .. } => "register_schema",
            Op::SchemaUpdate { .. } => "register_or_update_schema",
            Op::SchemaRemove { .. } => "remove_schema",
            Op::DropRelation { .. } => "drop_relation",
            Op::Restart { .. } => "restart",
        }
    }
    fn kg(&self) -> Option<&str> {
        match self {
            Op::Insert { kg, .. }
            | Op::AddClause { kg, .. }
            | Op::DropRule { kg, .. }
            | Op::ClearRule { kg, .. }
            | Op::RemoveClause { kg, .. }
            | Op::DropPrefix { kg, .. }
            | Op::SchemaRegister { kg, .. }
            | Op::SchemaUpdate { kg, .. }
            | Op::SchemaRemove { kg, .. }
            | Op::DropRelation { kg, .. } => Some(kg),
            Op::Restart { .. } => None,
        }
    }
}

fn desc(ops: &[Op]) -> String {
    ops.iter().map(Op::short).collect::<Vec<_>>().join(" ; ")
}

/// clause text without white space (the engine prints `d1(X, Y) <- r0(X, Y)`; spacing is not part
/// of the catalog's meaning)
fn norm(s: &str) -> String {
    s.chars().filter(|c| !c.is_whitespace()).collect()
}

fn head_of(text: &str) -> String {
    text.split('(').next().unwrap_or("").trim().to_string()
}

/// The catalogs of one knowledge graph as a user can read them back.
#[derive(Clone, Debug, Default, PartialEq, Eq, Serialize, Deserialize)]
pub struct Catalog {
    /// rule name -> clauses in clause-index order (normalised text)
    pub rules: BTreeMap<String, Vec<String>>,
    /// relation -> (column name, type)
    pub schemas: BTreeMap<String, Cols>,
}

pub type World = BTreeMap<String, Catalog>;

fn world_text(w: &World) -> String {
    w.iter()
        .map(|(kg, c)| {
            let rules = c.rules.iter().map(|(n, cl)| format!("{n}=[{}]", cl.join(" | "))).collect::<Vec<_>>().join(", ");
            let schemas = c.schemas.iter().map(|(n, cols)| format!("{n}({})", cols_text(cols))).collect::<Vec<_>>().join(", ");
            format!("{kg}{{rules: {rules}; schemas: {schemas}}}")
        })
        .collect::<Vec<_>>()
        .join(" ")
}

/// What an acknowledged operation did to the model.
#[derive(Clone, Copy, Default, Debug)]
struct Effect {
    registered: bool,
    removed: bool,
    deduplicated: bool,
}

/// R3 for catalogs: per KG rule name -> ordered clause list, relation -> schema; plus which
/// relations hold facts (only to predict refusals) and the schema catalog as of the last schema
/// save (only to recognise the signature of finding K_DROPREL).
#[derive(Clone, Debug, Default)]
struct Model {
    world: World,
    saved_schemas: BTreeMap<String, BTreeMap<String, Cols>>,
    data: BTreeSet<(String, String)>,
}

fn conforms_to_int_pairs(cols: &Cols) -> bool {
    cols.len() == 2 && cols.iter().all(|(_, t)| t == "int" || t == "any")
}

impl Model {
    fn new(kgs: &[String]) -> Model {
        let mut m = Model::default();
        for kg in kgs {
            m.world.insert(kg.clone(), Catalog::default());
            m.saved_schemas.insert(kg.clone(), BTreeMap::new());
            // setup(): every KG gets facts in r0 and r1
            m.data.insert((kg.clone(), "r0".into()));
            m.data.insert((kg.clone(), "r1".into()));
        }
        m
    }

    /// Does the documented behaviour accept this operation? (generator steering and the
    /// `unexpected_*` counters only; the oracle follows the engine's own Ok / Err)
    fn expects_ok(&self, op: &Op) -> bool {
        let Some(kg) = op.kg() else { return true };
        let Some(cat) = self.world.get(kg) else { return false };
        let has_data = |rel: &str| self.data.contains(&(kg.to_string(), rel.to_string()));
        match op {
            Op::Insert { rel, .. } => cat.schemas.get(rel).map_or(true, conforms_to_int_pairs),
            Op::AddClause { .. } => true,
            Op::DropRule { name, .. } | Op::ClearRule { name, .. } => cat.rules.contains_key(name),
            Op::RemoveClause { name, index, .. } => cat.rules.get(name).is_some_and(|c| *index < c.len()),
            Op::DropPrefix { prefix, .. } => !prefix.is_empty(),
            Op::SchemaRegister { rel, cols, .. } => !cat.schemas.contains_key(rel) && (!has_data(rel) || conforms_to_int_pairs(cols)),
            Op::SchemaUpdate { rel, cols, .. } => !has_data(rel) || conforms_to_int_pairs(cols),
            Op::SchemaRemove { .. } => true,
            Op::DropRelation { rel, .. } => has_data(rel) || cat.rules.contains_key(rel) || cat.schemas.contains_key(rel),
            Op::Restart { .. } => true,
        }
    }

    /// Apply an operation the engine acknowledged.
    fn apply_ok(&mut self, op: &Op) -> Effect {
        let mut e = Effect::default();
        let Some(kg) = op.kg().map(str::to_string) else { return e };
        let cat = self.world.entry(kg.clone()).or_default();
        let mut schema_saved = false;
        match op {
            Op::Insert { rel, .. } => {
                self.data.insert((kg.clone(), rel.clone()));
            }
            Op::AddClause { text, .. } => {
                let clause = norm(text);
                let list = cat.rules.entry(head_of(text)).or_default();
                // RuleDefinition::add_rule ignores a clause identical to an existing one
                if list.contains(&clause) {
                    e.deduplicated = true;
                } else {
                    list.push(clause);
                }
                e.registered = true;
            }
            Op::DropRule { name, .. } => {
                e.removed = cat.rules.remove(name).is_some();
            }
            Op::ClearRule { name, .. } => {
                // the rule stays registered, with no clauses
                if let Some(l) = cat.rules.get_mut(name) {
                    e.removed = !l.is_empty();
                    l.clear();
                }
            }
            Op::RemoveClause { name, index, .. } => {
                if let Some(l) = cat.rules.get_mut(name) {
                    if *index < l.len() {
                        l.remove(*index);
                        e.removed = true;
                    }
                    // removing the last clause removes the rule
                    if l.is_empty() {
                        cat.rules.remove(name);
                    }
                }
            }
            Op::DropPrefix { prefix, .. } => {
                let before = cat.rules.len();
                cat.rules.retain(|n, _| !n.starts_with(prefix.as_str()));
                e.removed = cat.rules.len() != before;
            }
            Op::SchemaRegister { rel, cols, .. } | Op::SchemaUpdate { rel, cols, .. } => {
                cat.schemas.insert(rel.clone(), cols.clone());
                e.registered = true;
                schema_saved = true;
            }
            Op::SchemaRemove { rel, .. } => {
                e.removed = cat.schemas.remove(rel).is_some();
                schema_saved = e.removed;
            }
            Op::DropRelation { rel, .. } => {
                let a = cat.schemas.remove(rel).is_some();
                let b = cat.rules.remove(rel).is_some();
                e.removed = a || b;
                self.data.remove(&(kg.clone(), rel.clone()));
            }
            Op::Restart { .. } => {}
        }
        if schema_saved {
            let s = self.world[&kg].schemas.clone();
            self.saved_schemas.insert(kg, s);
        }
        e
    }

    /// the world finding K_DROPREL predicts after a restart: schemas as of the last schema save
    fn world_with_saved_schemas(&self) -> World {
        let mut w = self.world.clone();
        for (kg, c) in w.iter_mut() {
            if let Some(s) = self.saved_schemas.get(kg) {
                c.schemas = s.clone();
            }
        }
        w
    }
}

// ---------------------------------------------------------------------------------------------
// engine adapters

fn stype(t: &str) -> SchemaType {
    match t {
        "int" => SchemaType::Int,
        "float" => SchemaType::Float,
        "string" => SchemaType::String,
        _ => SchemaType::Any,
    }
}

fn tname(t: &SchemaType) -> String {
    match t {
        SchemaType::Int => "int".into(),
        SchemaType::Float => "float".into(),
        SchemaType::String => "string".into(),
        SchemaType::Any => "any".into(),
        other => format!("{other:?}"),
    }
}

fn schema_of(rel: &str, cols: &Cols) -> RelationSchema {
    let mut rs = RelationSchema::new(rel);
    for (n, t) in cols {
        rs = rs.with_column(ColumnSchema::new(n.as_str(), stype(t)));
    }
    rs
}

/// Apply one operation through the public `StorageEngine` API; Ok = acknowledged.
fn apply_engine(st: &StorageEngine, op: &Op) -> Result<(), String> {
    let e = |e: inputlayer::StorageError| e.to_string();
    match op {
        Op::Insert { kg, rel, row } => st.insert_tuples_into(kg, rel, vec![itup(row)]).map(|_| ()).map_err(e),
        Op::AddClause { kg, text } => {
            let def = inputlayer::statement::parse_rule_definition(text).map_err(|e| format!("parse_rule_definition: {e}"))?;
            st.register_rule_in(kg, &def).map(|_| ()).map_err(e)
        }
        Op::DropRule { kg, name } => st.drop_rule_in(kg, name).map_err(e),
        Op::ClearRule { kg, name } => st.clear_rule_in(kg, name).map_err(e),
        Op::RemoveClause { kg, name, index } => st.remove_rule_clause_in(kg, name, *index).map(|_| ()).map_err(e),
        Op::DropPrefix { kg, prefix } => st.drop_rules_by_prefix_in(kg, prefix).map(|_| ()).map_err(e),
        Op::SchemaRegister { kg, rel, cols } => st.register_schema_in(kg, schema_of(rel, cols)).map_err(e),
        Op::SchemaUpdate { kg, rel, cols } => st.register_or_update_schema_in(kg, schema_of(rel, cols)).map_err(e),
        Op::SchemaRemove { kg, rel } => st.remove_schema_in(kg, rel).map(|_| ()).map_err(e),
        Op::DropRelation { kg, rel } => st.drop_relation_in(kg, rel).map_err(e),
        Op::Restart { .. } => Ok(()),
    }
}

/// Clause texts of `describe_rule_in`'s output ("Rule: n\nClauses:\n  1. head <- body\n ...").
fn parse_describe(text: &str) -> Result<Vec<String>, String> {
    let mut in_clauses = false;
    let mut out = Vec::new();
    for line in text.lines() {
        let l = line.trim();
        if l == "Clauses:" {
            in_clauses = true;
            continue;
        }
        if !in_clauses || l.is_empty() {
            continue;
        }
        let (num, rest) = l.split_once(". ").ok_or_else(|| format!("unexpected clause line {l:?}"))?;
        if num.parse::<usize>().ok() != Some(out.len() + 1) {
            return Err(format!("clause numbering broken at {l:?}"));
        }
        out.push(norm(rest));
    }
    if !in_clauses {
        return Err(format!("no 'Clauses:' section in {text:?}"));
    }
    Ok(out)
}

/// Read the catalogs of every expected knowledge graph back through the public API.
pub fn observe(st: &StorageEngine, kgs: &[String]) -> Result<World, String> {
    let present = st.list_knowledge_graphs();
    let mut w = World::new();
    for kg in kgs {
        if !present.contains(kg) {
            return Err(format!("knowledge graph '{kg}' is missing (list_knowledge_graphs = {present:?})"));
        }
        let mut cat = Catalog::default();
        for name in st.list_rules_in(kg).map_err(|e| format!("list_rules_in({kg}): {e}"))? {
            let text = st
                .describe_rule_in(kg, &name)
                .map_err(|e| format!("describe_rule_in({kg},{name}): {e}"))?
                .ok_or_else(|| format!("rule {name} of {kg} is listed but cannot be described"))?;
            let clauses = parse_describe(&text)?;
            if cat.rules.insert(name.clone(), clauses).is_some() {
                return Err(format!("rule {name} of {kg} is listed twice"));
            }
        }
        for rel in st.list_schemas_in(kg).map_err(|e| format!("list_schemas_in({kg}): {e}"))? {
            let s = st
                .get_schema_in(kg, &rel)
                .map_err(|e| format!("get_schema_in({kg},{rel}): {e}"))?
                .ok_or_else(|| format!("schema {rel} of {kg} is listed but get_schema_in returns None"))?;
            if s.name != rel {
                return Err(format!("schema stored under {rel} of {kg} names relation {}", s.name));
            }
            cat.schemas.insert(rel, s.columns.iter().map(|c| (c.name.clone(), tname(&c.data_type))).collect());
        }
        w.insert(kg.clone(), cat);
    }
    Ok(w)
}

/// Common start of every history: the extra KG and a few base facts (so r0 / r1 exist as stored
/// relations in every KG; s0 never holds facts).
fn setup(st: &StorageEngine, kgs: &[String]) -> Result<(), String> {
    for kg in kgs.iter().skip(1) {
        st.create_knowledge_graph(kg).map_err(|e| format!("create_knowledge_graph({kg}): {e}"))?;
    }
    for kg in kgs {
        st.insert_tuples_into(kg, "r0", vec![itup(&[1, 2]), itup(&[2, 3]), itup(&[3, 7])]).map_err(|e| format!("insert r0: {e}"))?;
        st.insert_tuples_into(kg, "r1", vec![itup(&[2, 1]), itup(&[2, 2])]).map_err(|e| format!("insert r1: {e}"))?;
    }
    Ok(())
}

// ---------------------------------------------------------------------------------------------
// generators

fn gen_op(t: &mut Tape, m: &Model, kgs: &[String], crash_part: bool) -> Op {
    let kg = kgs[t.below(kgs.len())].clone();
    let cat = m.world.get(&kg).cloned().unwrap_or_default();
    // most operations are valid by construction; the rest aims at the refusal paths
    let valid = !t.chance(3, 16);
    let any_rule = |t: &mut Tape| ["d1", "d2", "e1", "zz"][t.below(4)].to_string();
    let existing_rule = |t: &mut Tape| -> Option<String> {
        let names: Vec<&String> = cat.rules.keys().collect();
        if names.is_empty() {
            None
        } else {
            Some(names[t.below(names.len())].clone())
        }
    };
    let add_clause = |t: &mut Tape| -> Op {
        let (_, pool) = RULE_POOL[t.below(RULE_POOL.len())];
        Op::AddClause { kg: kg.clone(), text: pool[t.below(pool.len())].to_string() }
    };
    let variants = schema_variants();
    let k = t.below(100);
    match k {
        0..=33 => add_clause(t),
        34..=42 => match (valid, existing_rule(t)) {
            (true, Some(name)) => Op::DropRule { kg, name },
            (true, None) => add_clause(t),
            _ => Op::DropRule { kg, name: any_rule(t) },
        },
        43..=48 => match (valid, existing_rule(t)) {
            (true, Some(name)) => Op::ClearRule { kg, name },
            (true, None) => add_clause(t),
            _ => Op::ClearRule { kg, name: any_rule(t) },
        },
        49..=58 => match (valid, existing_rule(t)) {
            (true, Some(name)) => {
                let n = cat.rules[&name].len().max(1);
                Op::RemoveClause { kg, name, index: t.below(n) }
            }
            (true, None) => add_clause(t),
            _ => Op::RemoveClause { kg, name: any_rule(t), index: t.below(4) },
        },
        59..=63 => Op::DropPrefix { kg, prefix: ["d", "e", "d1", "d2", "x"][t.below(5)].to_string() },
        64..=72 => {
            let rel = SCHEMA_RELS[t.below(3)].to_string();
            let cols = variants[t.below(if valid { 2 } else { variants.len() })].clone();
            if valid && cat.schemas.contains_key(&rel) {
                Op::SchemaUpdate { kg, rel, cols }
            } else {
                Op::SchemaRegister { kg, rel, cols }
            }
        }
        73..=81 => {
            let rel = SCHEMA_RELS[t.below(3)].to_string();
            // s0 holds no facts: every variant is acceptable there
            let n = if valid && rel != "s0" { 2 } else { variants.len() };
            Op::SchemaUpdate { kg, rel, cols: variants[t.below(n)].clone() }
        }
        82..=89 => {
            let have: Vec<&String> = cat.schemas.keys().collect();
            let rel = if valid && !have.is_empty() { have[t.below(have.len())].clone() } else { SCHEMA_RELS[t.below(3)].to_string() };
            Op::SchemaRemove { kg, rel }
        }
        90..=94 => Op::DropRelation { kg, rel: ["r0", "r1", "s0", "d1"][t.below(4)].to_string() },
        _ => Op::Insert { kg, rel: ["r0", "r1"][t.below(2)].to_string(), row: vec![1 + t.below(3) as i64, 1 + t.below(3) as i64] },
    }
}

#[derive(Clone, Debug, Serialize, Deserialize)]
pub struct HistCase {
    pub kgs: Vec<String>,
    pub ops: Vec<Op>,
}

fn decode_hist(tape: &[u16]) -> HistCase {
    let mut t = Tape::new(tape);
    let kgs: Vec<String> = KGS[..1 + t.below(2)].iter().map(|s| s.to_string()).collect();
    let n = 3 + t.below(12);
    let mut m = Model::new(&kgs);
    let mut ops = Vec::new();
    for _ in 0..n {
        let op = if t.chance(3, 16) { Op::Restart { save: t.chance(8, 16) } } else { gen_op(&mut t, &m, &kgs, false) };
        if m.expects_ok(&op) {
            m.apply_ok(&op);
        }
        ops.push(op);
    }
    HistCase { kgs, ops }
}

#[derive(Clone, Debug, Serialize, Deserialize)]
pub struct CrashCase {
    pub kgs: Vec<String>,
    /// at most 6 catalog operations (no restart)
    pub ops: Vec<Op>,
    /// power-loss variant selectors (choice bits, keep fraction in quarters)
    pub power: Vec<(u64, usize)>,
}

fn decode_crash(tape: &[u16]) -> CrashCase {
    let mut t = Tape::new(tape);
    let kgs: Vec<String> = KGS[..1 + t.below(2)].iter().map(|s| s.to_string()).collect();
    let n = 2 + t.below(5);
    let mut m = Model::new(&kgs);
    let mut ops = Vec::new();
    for _ in 0..n {
        let op = gen_op(&mut t, &m, &kgs, true);
        if m.expects_ok(&op) {
            m.apply_ok(&op);
        }
        ops.push(op);
    }
    let power = (0..3).map(|_| (((t.next() as u64) << 16) | t.next() as u64, t.below(4))).collect();
    CrashCase { kgs, ops, power }
}

// ---------------------------------------------------------------------------------------------
// part 1: histories with clean restarts

/// Which open known findings a run continues past (their failures are counted, the history goes
/// on): all of them in the generated parts; none, or all but the one under test, for witnesses.
#[derive(Clone, Copy)]
pub enum Tol<'a> {
    AllOpen,
    Nothing,
    AllOpenBut(&'a str),
}

impl Tol<'_> {
    fn tolerates(&self, ctx: &Ctx, id: &str) -> bool {
        match self {
            Tol::AllOpen => ctx.is_open_known(id),
            Tol::Nothing => false,
            Tol::AllOpenBut(x) => *x != id && ctx.is_open_known(id),
        }
    }
}

pub fn check_hist(ctx: &Ctx, c: &HistCase, obs: &mut Obs, tol: Tol) -> CheckResult {
    let sc = Scratch::new("c16");
    let dir = sc.path.join("data");
    let history = desc(&c.ops);
    let mut st = Some(open_store(&dir, |_| {}).map_err(|e| Fail::new("open_failed", e))?);
    setup(st.as_ref().unwrap(), &c.kgs).map_err(|e| Fail::new("setup_failed", e))?;
    let mut m = Model::new(&c.kgs);
    let mut registered = false;
    let mut removal_after_registration = false;
    let mut restart_after_removal = false;
    let mut classes: BTreeSet<String> = BTreeSet::new();
    let mut rejected = 0u64;
    let mut trace: Vec<String> = Vec::new();
    let final_restart = Op::Restart { save: false };
    for (i, op) in c.ops.iter().chain(std::iter::once(&final_restart)).enumerate() {
        let ctxt = |what: &str| format!("history ({}): {history}\nstep {i} ({}): {what}", c.kgs.join(","), op.short());
        if let Op::Restart { save } = op {
            let engine = st.take().unwrap();
            if *save {
                engine.save_all().map_err(|e| Fail::new("save_failed", ctxt(&format!("save_all: {e}"))))?;
            }
            drop(engine);
            let reopened = guarded(|| open_store(&dir, |_| {})).unwrap_or_else(|p| Err(format!("panic: {p}")));
            st = Some(reopened.map_err(|e| Fail::new("reopen_failed", ctxt(&format!("StorageEngine::new failed after a clean restart: {e}"))))?);
            let got = observe(st.as_ref().unwrap(), &c.kgs).map_err(|e| Fail::new("catalog_unreadable_after_restart", ctxt(&e)))?;
            if got != m.world {
                let detail = ctxt(&format!(
                    "after the restart the catalogs are\n  {}\nthe acknowledged operations imply\n  {}\n(acknowledged / refused so far: {})",
                    world_text(&got),
                    world_text(&m.world),
                    trace.join(" ; ")
                ));
                // K_DROPREL: rules as expected, schemas exactly those of the last schema save
                if got == m.world_with_saved_schemas() {
                    if tol.tolerates(ctx, K_DROPREL) {
                        obs.count(&format!("tolerated_restarts[{K_DROPREL}]"), 1);
                        *ctx.ev.lock().unwrap().known_hits.entry(K_DROPREL.to_string()).or_default() += 1;
                        classes.insert(format!("continued past open finding {K_DROPREL}"));
                        for (kg, cat) in m.world.iter_mut() {
                            cat.schemas = got[kg].schemas.clone();
                        }
                    } else {
                        return Err(Fail::new("schema_removed_by_drop_relation_is_back_after_restart", detail).known(K_DROPREL));
                    }
                } else {
                    return Err(Fail::new("catalog_after_restart_differs_from_acknowledged", detail));
                }
            }
            for (kg, cat) in &m.world {
                m.saved_schemas.insert(kg.clone(), cat.schemas.clone());
            }
            if removal_after_registration {
                restart_after_removal = true;
            }
            if m.world.values().any(|c| c.rules.values().any(|l| l.is_empty())) {
                classes.insert("restart_with_a_cleared_rule (zero clauses)".into());
            }
            if m.world.values().filter(|c| !c.rules.is_empty() || !c.schemas.is_empty()).count() >= 2 {
                classes.insert("restart_with_non_empty_catalogs_in_two_kgs".into());
            }
            trace.push(op.short());
            continue;
        }
        let expected_ok = m.expects_ok(op);
        let engine = st.as_ref().unwrap();
        let res = guarded(|| apply_engine(engine, op)).map_err(|p| Fail::new("panic", ctxt(&format!("panic escaped the API: {p}"))))?;
        match &res {
            Ok(()) => {
                let e = m.apply_ok(op);
                registered |= e.registered;
                if e.removed && registered {
                    removal_after_registration = true;
                }
                classes.insert(format!("op:{}", op.kind()));
                if e.deduplicated {
                    classes.insert("identical_clause_registered_twice (deduplicated)".into());
                }
                if !expected_ok {
                    obs.count("unexpected_accept", 1);
                    classes.insert(format!("unexpected_accept:{}", truncate(&op.short(), 70)));
                }
                trace.push(format!("{} -> ok", op.short()));
            }
            Err(msg) => {
                rejected += 1;
                classes.insert(format!("refused:{}", op.kind()));
                if expected_ok {
                    obs.count("unexpected_refusal", 1);
                    classes.insert(format!("unexpected_refusal:{}: {}", op.kind(), truncate(msg, 60)));
                }
                trace.push(format!("{} -> refused", op.short()));
            }
        }
        // the live catalogs follow the acknowledged operations (a refused one changes nothing)
        let live = observe(engine, &c.kgs).map_err(|e| Fail::new("catalog_unreadable", ctxt(&e)))?;
        if live != m.world {
            let kind = if res.is_err() { "refused_operation_changed_the_catalog" } else { "live_catalog_differs_from_acknowledged" };
            return Err(Fail::new(
                kind,
                ctxt(&format!("result {res:?}; the engine now serves\n  {}\nthe acknowledged operations imply\n  {}", world_text(&live), world_text(&m.world))),
            ));
        }
    }
    obs.nontrivial = restart_after_removal;
    obs.key = Some(format!("{:?}|{history}", c.kgs));
    for cl in classes {
        obs.class(&cl);
    }
    obs.class_if(restart_after_removal, "restart_after_removal_following_registration");
    obs.class_if(c.kgs.len() == 2, "two_kgs");
    obs.count("refused_operations", rejected);
    obs.count("operations", c.ops.len() as u64);
    obs.sample = Some(json!({"kgs": c.kgs, "history": trace.join(" ; "), "final_catalogs": world_text(&m.world)}));
    Ok(())
}

// ---------------------------------------------------------------------------------------------
// part 2: crash points

#[derive(Serialize, Deserialize)]
struct Work {
    dir: String,
    kgs: Vec<String>,
    ops: Vec<Op>,
}

/// child process entry: `check __c16work` (stdin: Work JSON); runs under LD_PRELOAD=fsrec.so
pub fn child_main() -> i32 {
    let w: Work = match crate::common::child::read_case_from_stdin() {
        Ok(w) => w,
        Err(e) => {
            eprintln!("bad work: {e}");
            return 2;
        }
    };
    let st = match open_store(Path::new(&w.dir), |_| {}) {
        Ok(s) => s,
        Err(e) => {
            println!("OPEN_FAILED {e}");
            std::process::exit(3);
        }
    };
    if let Err(e) = setup(&st, &w.kgs) {
        println!("SETUP_FAILED {e}");
        std::process::exit(3);
    }
    marker("setup done");
    for (i, op) in w.ops.iter().enumerate() {
        marker(&format!("attempt {i}"));
        match guarded(|| apply_engine(&st, op)) {
            Ok(Ok(())) => {
                marker(&format!("ack {i}"));
                println!("RES {i} ok");
            }
            Ok(Err(e)) => {
                marker(&format!("rej {i}"));
                println!("RES {i} err {}", e.replace('\n', " "));
            }
            Err(p) => {
                println!("PANIC {i} {}", p.replace('\n', " "));
                std::process::exit(4);
            }
        }
    }
    // die without running destructors: the last image is whatever is on disk now
    std::process::exit(0)
}

fn rec_paths(r: &Rec) -> Vec<&str> {
    match r {
        Rec::Open { path, .. } | Rec::Write { path, .. } | Rec::Truncate { path, .. } => vec![path],
        Rec::Rename { from, to } => vec![from, to],
        Rec::Unlink(p) | Rec::Mkdir(p) | Rec::Rmdir(p) | Rec::SyncFile(p) | Rec::SyncDir(p) => vec![p],
        Rec::Marker(_) => vec![],
    }
}

/// which catalog a path belongs to: Some("rules") / Some("schemas") (incl. temp files next to
/// them, so the classification survives a write-to-temp + rename fix)
fn catalog_part(p: &str) -> Option<&'static str> {
    if p.contains("/rules/") || p.ends_with("/rules") {
        Some("rules")
    } else if p.rsplit('/').next().is_some_and(|f| f.starts_with("schema.json") || f.starts_with(".schema.json")) {
        Some("schemas")
    } else {
        None
    }
}

fn part_nonempty(c: &Catalog, part: &str) -> bool {
    if part == "rules" {
        !c.rules.is_empty()
    } else {
        !c.schemas.is_empty()
    }
}

fn recover(dir: &Path, kgs: &[String]) -> Result<Result<World, String>, String> {
    // outer Err: the store does not open; inner Err: it opens but a KG / catalog cannot be read
    let r = guarded(|| -> Result<Result<World, String>, String> {
        let st = open_store(dir, |_| {})?;
        Ok(observe(&st, kgs))
    });
    match r {
        Ok(r) => r,
        Err(p) => Err(format!("panic during recovery: {p}")),
    }
}

fn unparseable_json(path: &Path) -> Option<String> {
    let bytes = std::fs::read(path).ok()?;
    if serde_json::from_slice::<J>(&bytes).is_ok() {
        return None;
    }
    Some(format!("{} holds {} byte(s): {:?}", path.display(), bytes.len(), truncate(&String::from_utf8_lossy(&bytes), 60)))
}

pub fn check_crash(ctx: &Ctx, c: &CrashCase, obs: &mut Obs, tol: Tol) -> CheckResult {
    if !shim_path().exists() {
        return Err(Fail::new("shim_missing", "shim/fsrec.so not built (run ./setup.sh)"));
    }
    let sc = Scratch::new("c16c");
    let logs = Scratch::new("c16log");
    let dir = sc.path.join("data");
    std::fs::create_dir_all(&dir).map_err(|e| Fail::new("setup", e.to_string()))?;
    let log_path = logs.path.join("fs.log");
    let work = Work { dir: dir.display().to_string(), kgs: c.kgs.clone(), ops: c.ops.clone() };
    let out = match run_recorded_child("__c16work", &work.dir, &work, &log_path) {
        Ok(o) => o,
        Err(e) => {
            // the child process could not be started / waited for: infrastructure, not a verdict
            obs.discard = Some(format!("workload process: {}", truncate(&e, 60)));
            return Ok(());
        }
    };
    let history = desc(&c.ops);
    if let Some(l) = out.lines().find(|l| l.starts_with("PANIC ")) {
        return Err(Fail::new("panic", format!("history ({}): {history}\npanic escaped the API in the workload: {l}", c.kgs.join(","))));
    }
    if out.contains("OPEN_FAILED") || out.contains("SETUP_FAILED") {
        obs.discard = Some(format!("workload: {}", truncate(out.trim(), 80)));
        return Ok(());
    }
    // outcome of every operation as the workload saw it
    let mut outcome: Vec<Option<bool>> = vec![None; c.ops.len()];
    for l in out.lines() {
        if let Some(rest) = l.strip_prefix("RES ") {
            let mut it = rest.splitn(3, ' ');
            if let (Some(i), Some(r)) = (it.next().and_then(|x| x.parse::<usize>().ok()), it.next()) {
                if i < outcome.len() {
                    outcome[i] = Some(r == "ok");
                }
            }
        }
    }
    if outcome.iter().any(Option::is_none) {
        return Err(Fail::new("workload_incomplete", format!("history: {history}\nthe workload did not report every operation: {}", truncate(&out, 400))));
    }
    let outcome: Vec<bool> = outcome.into_iter().map(|o| o.unwrap()).collect();
    let log = parse_log(&log_path).map_err(|e| Fail::new("log_unreadable", e))?;
    let Some(setup_end) = log.iter().position(|r| matches!(r, Rec::Marker(m) if m == "setup done")) else {
        return Err(Fail::new("recorder_saw_nothing", "the shim recorded no 'setup done' marker (LD_PRELOAD not effective?)"));
    };
    // model states after each prefix of the attempted operations (a refused operation changes nothing)
    let mut m = Model::new(&c.kgs);
    let mut states: Vec<World> = vec![m.world.clone()];
    // what finding K_DROPREL predicts on disk after each prefix (schemas as of the last schema save)
    let mut states_saved: Vec<World> = vec![m.world_with_saved_schemas()];
    let mut classes: BTreeSet<String> = BTreeSet::new();
    for (op, ok) in c.ops.iter().zip(&outcome) {
        if *ok {
            let e = m.apply_ok(op);
            classes.insert(format!("op:{}", op.kind()));
            if e.deduplicated {
                classes.insert("identical_clause_registered_twice (deduplicated)".into());
            }
        } else {
            classes.insert(format!("refused:{}", op.kind()));
        }
        states.push(m.world.clone());
        states_saved.push(m.world_with_saved_schemas());
    }
    let trace = c.ops.iter().zip(&outcome).map(|(o, ok)| format!("{} -> {}", o.short(), if *ok { "ok" } else { "refused" })).collect::<Vec<_>>().join(" ; ");
    // index of the attempt marker of every operation
    let attempt_idx: Vec<usize> = log.iter().enumerate().filter(|(_, r)| matches!(r, Rec::Marker(m) if m.starts_with("attempt "))).map(|(i, _)| i).collect();

    let mut cuts: Vec<Cut> = process_crash_cuts(&log).into_iter().filter(|c| c.upto > setup_end).collect();
    let n_process = cuts.len();
    {
        // power-loss model: at a sample of cut points after the setup, drop unsynced suffixes
        // (cut points: after every state-changing record and after every completion marker; at most
        // ~16 per variant)
        let points: Vec<usize> = (setup_end + 2..=log.len())
            .filter(|i| match &log[i - 1] {
                Rec::Marker(m) => m.starts_with("ack ") || m.starts_with("rej "),
                Rec::SyncFile(_) | Rec::SyncDir(_) => false,
                _ => true,
            })
            .collect();
        let step = points.len().div_ceil(16).max(1);
        let mut seen: BTreeSet<(usize, Vec<usize>)> = BTreeSet::new();
        for (vi, (choice, keep)) in c.power.iter().enumerate() {
            for i in points.iter().skip(vi % step).step_by(step) {
                let cut = power_loss_cut(&log, *i, *choice, *keep);
                if !cut.dropped.is_empty() && seen.insert((cut.upto, cut.dropped.iter().copied().collect())) {
                    cuts.push(cut);
                }
            }
        }
    }
    obs.count("crash_images", cuts.len() as u64);
    obs.count("process_crash_images", n_process as u64);
    let mut nontrivial = false;
    let mut tolerated: BTreeMap<&'static str, u64> = BTreeMap::new();
    let mut memo: HashMap<(u64, usize, usize), CheckResult> = HashMap::new();
    let mut recoveries = 0u64;
    for cut in &cuts {
        let done = markers_before(&log, cut.upto, "ack ") + markers_before(&log, cut.upto, "rej ");
        let attempted = markers_before(&log, cut.upto, "attempt ");
        // is the crash point inside a catalog write of the operation in flight?
        // (= some record of the catalog file precedes the cut and some record of it follows, both
        // belonging to that operation; or the cut tears a write of the catalog file)
        let mut inside: Option<&'static str> = None;
        if attempted > done {
            let from = attempt_idx[attempted - 1];
            let end = log.iter().enumerate().skip(from).find(|(_, r)| matches!(r, Rec::Marker(m) if m.starts_with("ack ") || m.starts_with("rej "))).map_or(log.len(), |(i, _)| i);
            let part_of = |range: &[Rec]| -> Option<&'static str> { range.iter().flat_map(rec_paths).find_map(catalog_part) };
            if let (Some(a), Some(b)) = (part_of(&log[from..cut.upto]), part_of(&log[cut.upto.min(end)..end])) {
                if a == b {
                    inside = Some(a);
                }
            }
            if cut.torn.is_some() {
                if let Some(Rec::Write { path, .. }) = log.get(cut.upto) {
                    if let Some(part) = catalog_part(path) {
                        inside = Some(part);
                        classes.insert(format!("torn_write_of_{part}_catalog"));
                    }
                }
            }
            if let (Some(part), Some(kg)) = (inside, c.ops[attempted - 1].kg()) {
                if part_nonempty(&states[attempted - 1][kg], part) {
                    nontrivial = true;
                    classes.insert(format!("crash_inside_{part}_catalog_write_with_non_empty_previous_catalog"));
                } else {
                    classes.insert(format!("crash_inside_first_{part}_catalog_write"));
                }
            }
        }
        let dropped_catalog = cut.dropped.iter().any(|i| rec_paths(&log[*i]).iter().any(|p| catalog_part(p).is_some()));
        if dropped_catalog {
            classes.insert("power_loss_dropping_unsynced_catalog_records".into());
        }
        let admissible = &states[done..=attempted];
        // verdict on one image of this crash point (memoised per distinct image: many cuts -- after
        // markers, syncs, power-loss variants that drop nothing relevant -- rebuild the same tree)
        let mut judge = |cut: &Cut| -> CheckResult {
            let image = build(&log, cut);
            let key = (image_hash(&image), done, attempted);
            if let Some(v) = memo.get(&key) {
                return v.clone();
            }
            image.materialize(&dir).map_err(|e| Fail::new("image_build_failed", e))?;
            recoveries += 1;
            if std::env::var("VERIF_C16_DUMP").is_ok() {
                eprintln!("--- cut upto {} torn {:?} dropped {:?}", cut.upto, cut.torn, cut.dropped);
            }
        let header = || {
            format!(
                "history ({}): {trace}\n{}\n{done} operation(s) had completed and {attempted} had been attempted before the crash{}",
                c.kgs.join(","),
                describe_cut(&log, cut),
                if attempted > done { format!(" (in flight: {})", c.ops[attempted - 1].short()) } else { String::new() }
            )
        };
        // on-disk evidence used to name the root cause
        let torn_files = |part: &str| -> Vec<String> {
            c.kgs
                .iter()
                .filter_map(|kg| {
                    let p = if part == "rules" { dir.join(kg).join("rules").join("catalog.json") } else { dir.join(kg).join("schema.json") };
                    unparseable_json(&p)
                })
                .collect()
        };
        let verdict: CheckResult = match recover(&dir, &c.kgs) {
            Err(e) => {
                let torn = torn_files("rules");
                let f = Fail::new(
                    "store_unopenable_after_crash",
                    format!("{}\nStorageEngine::new on the crash image failed: {e}{}", header(), if torn.is_empty() { String::new() } else { format!("\non the image: {}", torn.join("; ")) }),
                );
                Err(if !torn.is_empty() && e.contains("catalog") { f.known(K_RULES_TORN) } else { f })
            }
            Ok(Err(e)) => Err(Fail::new("knowledge_graph_lost_after_crash", format!("{}\nthe store opens but: {e}", header()))),
            Ok(Ok(got)) => {
                if admissible.contains(&got) {
                    Ok(())
                } else {
                    // name the deviation
                    let emptied: Vec<String> = c
                        .kgs
                        .iter()
                        .flat_map(|kg| ["rules", "schemas"].into_iter().map(move |part| (kg, part)))
                        .filter(|(kg, part)| !part_nonempty(&got[*kg], part) && admissible.iter().all(|w| part_nonempty(&w[*kg], part)))
                        .map(|(kg, part)| format!("{part} of {kg}"))
                        .collect();
                    let kind = if !emptied.is_empty() {
                        "catalog_emptied_by_crash"
                    } else if states[..done].contains(&got) {
                        "acknowledged_catalog_operation_lost"
                    } else {
                        "recovered_catalog_matches_no_prefix"
                    };
                    let torn = torn_files("schemas");
                    let f = Fail::new(
                        kind,
                        format!(
                            "{}\nrecovered catalogs:\n  {}\nadmissible (old .. new):\n  {}{}{}",
                            header(),
                            world_text(&got),
                            admissible.iter().map(world_text).collect::<Vec<_>>().join("\n  "),
                            if emptied.is_empty() { String::new() } else { format!("\nemptied: {}", emptied.join(", ")) },
                            if torn.is_empty() { String::new() } else { format!("\non the image: {}", torn.join("; ")) }
                        ),
                    );
                    // K_SCHEMA_TORN: the only deviation is an empty schema catalog in the KG(s) whose
                    // schema.json is unparseable on the image
                    let explained_by_torn_schema = !torn.is_empty() && {
                        let torn_kgs: Vec<&String> = c.kgs.iter().filter(|kg| unparseable_json(&dir.join(kg.as_str()).join("schema.json")).is_some()).collect();
                        torn_kgs.iter().all(|kg| got[*kg].schemas.is_empty())
                            && admissible.iter().any(|w| {
                                let mut g = got.clone();
                                for kg in &torn_kgs {
                                    g.get_mut(*kg).unwrap().schemas = w[*kg].schemas.clone();
                                }
                                g == *w
                            })
                    };
                    Err(if explained_by_torn_schema {
                        f.known(K_SCHEMA_TORN)
                    } else if states_saved[done..=attempted].contains(&got) {
                        // rules as expected, schemas exactly those of the last schema save
                        f.known(K_DROPREL)
                    } else {
                        f
                    })
                }
            }
            };
            memo.insert(key, verdict.clone());
            verdict
        };
        let mut verdict = judge(cut);
        if dropped_catalog && verdict.is_err() {
            // causal test for K_NOFSYNC: the same power-loss image with the unsynced catalog records
            // kept is admissible (or fails only the way a process crash at that point does)
            let mut kept = cut.clone();
            kept.dropped.retain(|i| !rec_paths(&log[*i]).iter().any(|p| catalog_part(p).is_some()));
            let v2 = judge(&kept);
            if let Err(f) = &mut verdict {
                let caused_by_drop = match &v2 {
                    Ok(()) => true,
                    Err(g) => g.known.is_some() && g.known != f.known,
                };
                if caused_by_drop {
                    f.known = Some(K_NOFSYNC.to_string());
                    f.detail = format!("{}\n(with the unsynced catalog records kept the same image is {})", f.detail, if v2.is_ok() { "admissible".to_string() } else { format!("a {} image", v2.as_ref().err().and_then(|g| g.known.clone()).unwrap_or_default()) });
                }
            }
        }
        if let Err(f) = verdict {
            let id: Option<&'static str> = [K_RULES_TORN, K_SCHEMA_TORN, K_NOFSYNC, K_DROPREL].into_iter().find(|k| f.known.as_deref() == Some(*k));
            match id {
                Some(id) if tol.tolerates(ctx, id) => {
                    // while that finding is open the enumeration goes on past this image
                    *tolerated.entry(id).or_default() += 1;
                }
                _ => return Err(f),
            }
        }
    }
    for (id, n) in &tolerated {
        obs.count(&format!("tolerated_images[{id}]"), *n);
        classes.insert(format!("continued past open finding {id}"));
        // one known-finding hit per history that ran into it (the history is still evaluated)
        *ctx.ev.lock().unwrap().known_hits.entry(id.to_string()).or_default() += 1;
    }
    obs.count("distinct_images_recovered", recoveries);
    obs.nontrivial = nontrivial;
    obs.key = Some(format!("{:?}|{history}", c.kgs));
    for cl in classes {
        obs.class(&cl);
    }
    obs.class_if(c.kgs.len() == 2, "two_kgs");
    obs.sample = Some(json!({"kgs": c.kgs, "history": trace, "fs_records_after_setup": log.len() - setup_end, "crash_images": cuts.len(), "distinct_images_recovered": recoveries}));
    Ok(())
}

fn image_hash(v: &Vfs) -> u64 {
    use std::hash::{Hash, Hasher};
    let mut h = std::collections::hash_map::DefaultHasher::new();
    v.files.hash(&mut h);
    v.dirs.hash(&mut h);
    h.finish()
}

/// Structural shrinkers (after proptest's own shrinking): drop operations one by one, then the
/// second knowledge graph, while the same kind of failure remains.
fn shrink_ops(ops: &[Op], kgs: &[String], still: &dyn Fn(&[Op], &[String]) -> bool) -> (Vec<Op>, Vec<String>) {
    let mut ops = ops.to_vec();
    let mut kgs = kgs.to_vec();
    let mut progress = true;
    while progress {
        progress = false;
        let mut i = ops.len();
        while i > 0 {
            i -= 1;
            let mut cand = ops.clone();
            cand.remove(i);
            if still(&cand, &kgs) {
                ops = cand;
                progress = true;
            }
        }
    }
    if kgs.len() > 1 && !ops.iter().any(|o| o.kg().is_some_and(|k| k == kgs[1])) {
        let cand = kgs[..1].to_vec();
        if still(&ops, &cand) {
            kgs = cand;
        }
    }
    (ops, kgs)
}

fn shrink_hist(c: &HistCase, still: &dyn Fn(&HistCase) -> bool) -> HistCase {
    let (ops, kgs) = shrink_ops(&c.ops, &c.kgs, &|ops, kgs| still(&HistCase { kgs: kgs.to_vec(), ops: ops.to_vec() }));
    HistCase { kgs, ops }
}

fn shrink_crash(c: &CrashCase, still: &dyn Fn(&CrashCase) -> bool) -> CrashCase {
    let (ops, kgs) = shrink_ops(&c.ops, &c.kgs, &|ops, kgs| still(&CrashCase { kgs: kgs.to_vec(), ops: ops.to_vec(), power: c.power.clone() }));
    CrashCase { kgs, ops, power: c.power.clone() }
}

// ---------------------------------------------------------------------------------------------

pub fn run(ctx: &Ctx) {
    ctx.set_level("fault_enumeration");
    // a crash case costs ~100 recoveries: keep proptest's own shrinking short
    ctx.set_shrink_iters(24);
    ctx.set_rule(
        "Part catalog_histories_clean_restart: histories of 3-14 operations on 1-2 knowledge graphs (register_rule_in: new rule / extra or identical \
         clause; drop_rule_in; clear_rule_in; remove_rule_clause_in; drop_rules_by_prefix_in; register_schema_in; register_or_update_schema_in; \
         remove_schema_in; drop_relation_in; base-fact inserts; ~19% clean restarts with or without save_all; ~19% of the operations aim at the \
         refusal paths) over a pool of 8 safe positive clauses for rules d1/d2/e1 and 4 schema shapes for r0/r1/s0. Model: per KG rule name -> \
         ordered clause list, relation -> columns, updated only by acknowledged (Ok) operations. After every operation the catalogs served \
         (list_rules_in + describe_rule_in, list_schemas_in + get_schema_in) must equal the model (a refused operation changes nothing); after \
         every restart and after a final restart they must equal it exactly for every KG. Non-trivial = a restart happens after an effective \
         removal (rule drop / clear / clause removal / prefix drop / schema removal / relation drop) that follows a registration. \
         Part catalog_crash_points: histories of 2-6 such operations (no restart) run in a child process under the LD_PRELOAD \
         file-system recorder with ATTEMPT / ACK|REJ markers. Every record boundary after the setup is a crash point (process-crash model: \
         includes the cut between open(O_TRUNC) and write), every write is additionally torn after 1, half and len-1 bytes, and power-loss \
         images (3 generated variants per history) drop unsynced data / directory-entry suffixes after every state-changing record and every \
         completion marker (at most 16 points per variant); a failing power-loss image that dropped catalog records is re-judged with those \
         records kept (causal test for the missing-fsync finding). Each image is rebuilt at the original path and opened with \
         StorageEngine::new: it must open, every KG must be listed, and the catalogs of all KGs must equal the model after some prefix j of the \
         attempted operations with j >= the number completed before the cut (for the operation in flight: old or new catalog). evaluations \
         counts histories; counters.crash_images counts images. Non-trivial = some crash point lies inside a catalog write of the operation in \
         flight while the previous catalog of that kind in that KG was non-empty. Distinct = distinct KG set + history.",
    );
    ctx.assume("clause order is part of the catalog: describe_rule_in numbers the clauses and remove_rule_clause_in addresses them by index, so the model keeps an ordered list");
    ctx.assume("registering a clause identical to an existing clause of the rule is acknowledged and changes nothing (RuleDefinition::add_rule deduplicates): the model deduplicates too");
    ctx.assume("clear_rule_in keeps the rule registered with zero clauses (documented: 'clear for re-registration'); removing the last clause by index removes the rule");
    ctx.assume("clause texts are compared modulo white space with the source text that was registered (pool clauses print back verbatim)");
    ctx.assume("only the catalogs are judged here; the durability of the base facts is C13's subject");
    ctx.assume("power-loss model: only suffix loss of unsynced data per file and of unsynced entry operations per directory (as in C13); crash during recovery is not enumerated (recovery does not write catalogs)");
    ctx.run_part_with(
        "catalog_histories_clean_restart",
        ctx.cases(1200, 20_000),
        || tape_strategy(120).prop_map(|t| decode_hist(&t)),
        |c, o| check_hist(ctx, c, o, Tol::AllOpen),
        Some(&shrink_hist),
    );
    ctx.run_part_with(
        "catalog_crash_points",
        ctx.cases(96, 1500),
        || tape_strategy(80).prop_map(|t| decode_crash(&t)),
        |c, o| check_crash(ctx, c, o, Tol::AllOpen),
        Some(&shrink_crash),
    );
}

pub fn replay(ctx: &Ctx, part: &str, case: &J) -> Option<Result<CheckResult, String>> {
    // witnesses of known findings are stored as part "witness_history@<id>" / "witness_crash@<id>":
    // judged without tolerance for <id> (so that finding itself is reported), continuing past the
    // other open findings; without "@<id>" nothing is tolerated
    let (base, focus) = match part.split_once('@') {
        Some((b, id)) => (b, Tol::AllOpenBut(id)),
        None => (part, Tol::Nothing),
    };
    Some(match base {
        "catalog_histories_clean_restart" => ctx.replay_case(part, case, |c: &HistCase, o: &mut Obs| check_hist(ctx, c, o, Tol::AllOpen)),
        "catalog_crash_points" => ctx.replay_case(part, case, |c: &CrashCase, o: &mut Obs| check_crash(ctx, c, o, Tol::AllOpen)),
        "witness_history" => ctx.replay_case(part, case, |c: &HistCase, o: &mut Obs| check_hist(ctx, c, o, focus)),
        "witness_crash" => ctx.replay_case(part, case, |c: &CrashCase, o: &mut Obs| check_crash(ctx, c, o, focus)),
        _ => return None,
    })
}
