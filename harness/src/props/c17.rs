//! C17 — knowledge graphs are isolated and drops are final.
//! Part 1 (histories): create / drop / re-create / insert / delete / rule / schema / save / compact
//! / restart over three knowledge graphs against the per-KG model; after every step every graph's
//! facts, rules and schemas must equal the model's (so an operation on one graph changes nothing in
//! another, and nothing of a dropped graph is visible - live, in a re-created graph of the same
//! name, or after a restart).
//! Part 2 (schedules, E4): an inserter races with a drop (and re-create) of the same graph under
//! generated interleavings; the history must be linearizable, the state after a restart must equal
//! the served state, and no process-crash image taken after an acknowledged drop may show data of
//! the dropped graph.

use crate::common::conc::{exec_op, explains, observe, run_case, ConcCase};
use crate::common::gen::{tape_strategy, Tape};
use crate::common::lin::{self, render_history, Op, Res, Row, RuleKind, State};
use crate::common::store::{open_store, Scratch};
use crate::common::{CheckResult, Ctx, Fail, Obs};
use inputlayer::schema::{ColumnSchema, RelationSchema, SchemaType};
use inputlayer::StorageEngine;
use proptest::prelude::*;
use serde::{Deserialize, Serialize};
use serde_json::{json, Value as J};
use std::collections::{BTreeMap, BTreeSet};
use std::sync::atomic::AtomicBool;

pub const K_INEFFECTIVE: &str = "C11-ineffective-writes-logged";
// names chosen so that one graph's name is a prefix of another's and so that "<kg>:<relation>" of
// different graphs can look alike once separators are replaced ("ka" + "r_r0" vs "ka_r" + "r0")
const KGS: [&str; 3] = ["default", "ka", "ka_r"];
const RELS: [&str; 3] = ["r0", "r1", "r_r0"];
pub const TAPE_LEN: usize = 160;

#[derive(Clone, Debug, Serialize, Deserialize)]
pub enum Step {
    Do(Op),
    /// declare a schema (two int columns) for relation `s<i>` in a graph
    Schema { kg: String, rel: String },
    RemoveSchema { kg: String, rel: String },
    /// drop the engine and open the directory again
    Restart,
}

impl Step {
    fn text(&self) -> String {
        match self {
            Step::Do(o) => o.text(),
            Step::Schema { kg, rel } => format!("schema {kg}.{rel}(a: int, b: int)"),
            Step::RemoveSchema { kg, rel } => format!("remove_schema {kg}.{rel}"),
            Step::Restart => "RESTART".into(),
        }
    }
}

#[derive(Clone, Debug, Serialize, Deserialize)]
pub struct HistCase {
    pub steps: Vec<Step>,
    pub buffer_size: usize,
}

#[derive(Clone, Debug, Default, PartialEq, Eq)]
struct Full {
    st: State,
    schemas: BTreeMap<String, BTreeSet<String>>,
}

fn dom() -> Vec<Row> {
    vec![vec![1, 1], vec![1, 2], vec![2, 1], vec![3, 7]]
}

/// Histories whose writes are all effective in the model (no duplicate insert / absent delete:
/// those fall under known finding C11-ineffective-writes-logged).
pub fn decode_hist(tape: &[u16]) -> HistCase {
    let mut t = Tape::new(tape);
    let n = 4 + t.below(12);
    let mut m = Full::default();
    m.st = State::with_kgs(&["default"]);
    let mut steps = Vec::new();
    for _ in 0..n {
        let kg = KGS[t.below(3)].to_string();
        let exists = m.st.kgs.contains_key(&kg);
        let rel = RELS[t.below(3)].to_string();
        let step = match t.below(16) {
            0 | 1 => Step::Do(Op::CreateKg(kg.clone())),
            2 | 3 => Step::Do(Op::DropKg(kg.clone())),
            4..=7 => {
                let have = m.st.kgs.get(&kg).and_then(|k| k.get(&rel)).cloned().unwrap_or_default();
                let mut rows = Vec::new();
                for _ in 0..1 + t.below(2) {
                    let r = dom()[t.below(4)].clone();
                    if (!exists || !have.contains(&r)) && !rows.contains(&r) {
                        rows.push(r);
                    }
                }
                if rows.is_empty() {
                    continue;
                }
                Step::Do(Op::Insert { kg: kg.clone(), rel, rows })
            }
            8 | 9 => {
                let have: Vec<Row> = m.st.kgs.get(&kg).and_then(|k| k.get(&rel)).map(|s| s.iter().cloned().collect()).unwrap_or_default();
                if exists && have.is_empty() {
                    continue;
                }
                let row = if have.is_empty() { dom()[t.below(4)].clone() } else { have[t.below(have.len())].clone() };
                Step::Do(Op::Delete { kg: kg.clone(), rel, rows: vec![row] })
            }
            10 => Step::Do(Op::AddRule { kg: kg.clone(), rule: if t.chance(1, 2) { RuleKind::Copy(rel) } else { RuleKind::Join("r0".into(), "r1".into()) } }),
            11 => Step::Schema { kg: kg.clone(), rel: format!("s{}", t.below(2)) },
            12 => Step::RemoveSchema { kg: kg.clone(), rel: format!("s{}", t.below(2)) },
            13 => Step::Do(if t.chance(1, 2) { Op::Save(kg.clone()) } else { Op::Compact }),
            _ => Step::Restart,
        };
        apply_model(&mut m, &step);
        steps.push(step);
    }
    steps.push(Step::Restart);
    HistCase { steps, buffer_size: [10_000, 1, 3][t.below(3)] }
}

fn apply_model(m: &mut Full, s: &Step) -> Res {
    match s {
        Step::Do(Op::DropKg(k)) if k == "default" => Res::Err("the default graph cannot be dropped (documented)".into()),
        Step::Do(op) => {
            let r = lin::apply(&mut m.st, op);
            if let Op::DropKg(k) = op {
                m.schemas.remove(k);
            }
            r
        }
        Step::Schema { kg, rel } => {
            if m.st.kgs.contains_key(kg) {
                m.schemas.entry(kg.clone()).or_default().insert(rel.clone());
                Res::Ok
            } else {
                Res::Err("no such kg".into())
            }
        }
        Step::RemoveSchema { kg, rel } => {
            if m.st.kgs.contains_key(kg) {
                if let Some(s) = m.schemas.get_mut(kg) {
                    s.remove(rel);
                }
                Res::Ok
            } else {
                Res::Err("no such kg".into())
            }
        }
        Step::Restart => Res::Ok,
    }
}

fn observe_full(st: &StorageEngine) -> Result<Full, String> {
    let s = observe(st)?;
    let mut out = Full { st: s, schemas: BTreeMap::new() };
    for kg in st.list_knowledge_graphs() {
        let rules = st.list_rules_in(&kg).map_err(|e| format!("list_rules_in({kg}): {e}"))?;
        if !rules.is_empty() {
            // the model registers clauses for `d` only: record their number
            let n = st.rule_count_in(&kg, "d").map_err(|e| e.to_string())?.unwrap_or(0);
            if rules != vec!["d".to_string()] {
                return Err(format!("knowledge graph {kg} lists rules {rules:?}"));
            }
            out.st.rules.insert(kg.clone(), vec![RuleKind::Copy("?".into()); n]);
        }
        let mut sch: BTreeSet<String> = st.list_schemas_in(&kg).map_err(|e| format!("list_schemas_in({kg}): {e}"))?.into_iter().collect();
        sch.retain(|s| s.starts_with('s'));
        if !sch.is_empty() {
            out.schemas.insert(kg, sch);
        }
    }
    Ok(out)
}

/// model in the same shape as `observe_full` gives (clause count per graph, no empty entries)
fn shape(m: &Full) -> Full {
    let mut f = m.clone();
    f.st.normalise();
    f.st.rules = f.st.rules.iter().filter(|(_, v)| !v.is_empty()).map(|(k, v)| (k.clone(), vec![RuleKind::Copy("?".into()); v.len()])).collect();
    f.schemas.retain(|_, s| !s.is_empty());
    f
}

fn render(f: &Full) -> String {
    format!("{} rules(clauses of d) {:?} schemas {:?}", f.st.render(), f.st.rules.iter().map(|(k, v)| (k.clone(), v.len())).collect::<Vec<_>>(), f.schemas)
}

pub fn check_hist(_ctx: &Ctx, c: &HistCase, obs: &mut Obs) -> CheckResult {
    let scratch = Scratch::new("c17h");
    let bs = c.buffer_size;
    let open = || open_store(&scratch.path, |cfg| cfg.storage.persist.buffer_size = bs);
    let mut st = open().map_err(|e| Fail::new("open_failed", e))?;
    let mut m = Full::default();
    m.st = State::with_kgs(&["default"]);
    let ineffective = AtomicBool::new(false);
    let mut trace: Vec<String> = Vec::new();
    let (mut drops, mut recreated, mut restarts_after_drop, mut foreign_ops) = (0, 0, 0, 0);
    let mut dropped_once: BTreeSet<String> = BTreeSet::new();
    for (i, step) in c.steps.iter().enumerate() {
        let want = apply_model(&mut m, step);
        let got = match step {
            Step::Do(op) => exec_op(&st, op, &ineffective),
            Step::Schema { kg, rel } => {
                let rs = RelationSchema::new(rel).with_column(ColumnSchema::new("a", SchemaType::Int)).with_column(ColumnSchema::new("b", SchemaType::Int));
                st.register_or_update_schema_in(kg, rs).map(|_| Res::Ok).unwrap_or_else(|e| Res::Err(e.to_string()))
            }
            Step::RemoveSchema { kg, rel } => st.remove_schema_in(kg, rel).map(|_| Res::Ok).unwrap_or_else(|e| Res::Err(e.to_string())),
            Step::Restart => {
                drop(st);
                st = open().map_err(|e| Fail::new("restart_failed", format!("{}\nafter: {}", e, trace.join("; "))))?;
                if !dropped_once.is_empty() {
                    restarts_after_drop += 1;
                }
                Res::Ok
            }
        };
        trace.push(step.text());
        if let Step::Do(Op::DropKg(k)) = step {
            if want.is_ok() {
                drops += 1;
                dropped_once.insert(k.clone());
            }
        }
        if let Step::Do(Op::CreateKg(k)) = step {
            if want.is_ok() && dropped_once.contains(k) {
                recreated += 1;
            }
        }
        if m.st.kgs.len() >= 2 {
            foreign_ops += 1;
        }
        let ctx_txt = || format!("step #{i} `{}` of: {}", step.text(), c.steps.iter().map(|s| s.text()).collect::<Vec<_>>().join("; "));
        // "default" cannot be dropped and the engine refuses it: the model agrees (it never drops default)
        if want.is_ok() != got.is_ok() {
            // operations on a graph that does not exist: the engine must refuse them (class comparison)
            return Err(Fail::new("operation_outcome_differs", format!("{}\nmodel: {:?}, engine: {:?}", ctx_txt(), want, got)));
        }
        let seen = observe_full(&st).map_err(|e| Fail::new("state_unreadable", format!("{}\n{e}", ctx_txt())))?;
        let exp = shape(&m);
        if seen != exp {
            let kind = if matches!(step, Step::Restart) { "state_after_restart_differs" } else { "state_after_operation_differs" };
            return Err(Fail::new(kind, format!("{}\nexpected {}\nobserved {}", ctx_txt(), render(&exp), render(&seen))));
        }
    }
    obs.class_if(drops > 0, "a graph with data was dropped");
    obs.class_if(recreated > 0, "a dropped graph was re-created under the same name");
    obs.class_if(restarts_after_drop > 0, "restart after a drop");
    obs.class(&format!("buffer_size: {}", c.buffer_size));
    obs.nontrivial = drops > 0 && restarts_after_drop > 0 && foreign_ops > 2;
    obs.key = Some(format!("{:?}", c.steps.iter().map(|s| s.text()).collect::<Vec<_>>()));
    obs.sample = Some(json!(c.steps.iter().map(|s| s.text()).collect::<Vec<_>>().join("; ")));
    Ok(())
}

// ---------------------------------------------------------------------------------------------
// part 2: schedules

const K: &str = "ka";

pub fn decode_sched(tape: &[u16]) -> ConcCase {
    let mut t = Tape::new(tape);
    let mut init = vec![Op::CreateKg(K.into())];
    // private rows per thread: no interleaving can make a write ineffective inside one graph
    // incarnation (a re-created graph starts empty, so inserts stay effective there as well)
    if t.chance(2, 3) {
        init.push(Op::Insert { kg: K.into(), rel: "r0".into(), rows: vec![vec![50, 0]] });
    }
    if t.chance(1, 3) {
        init.push(Op::Save(K.into()));
    }
    init.push(Op::Insert { kg: "default".into(), rel: "r0".into(), rows: vec![vec![60, 0]] });
    let mut threads = Vec::new();
    // inserter(s)
    let inserters = 1 + t.below(2);
    for th in 0..inserters {
        let n = 1 + t.below(2);
        let mut ops = Vec::new();
        for i in 0..n {
            let rel = RELS[t.below(2)].to_string();
            ops.push(Op::Insert { kg: K.into(), rel, rows: vec![vec![10 * (th as i64 + 1) + i as i64, 1]] });
        }
        if t.chance(1, 4) {
            ops.push(Op::Insert { kg: "default".into(), rel: "r1".into(), rows: vec![vec![70 + th as i64, 0]] });
        }
        threads.push(ops);
    }
    // dropper
    let mut d = vec![Op::DropKg(K.into())];
    if t.chance(1, 2) {
        d.push(Op::CreateKg(K.into()));
        if t.chance(1, 2) {
            d.push(Op::Insert { kg: K.into(), rel: "r0".into(), rows: vec![vec![90, 9]] });
        }
    }
    threads.push(d);
    let free = t.chance(1, 8);
    let sticky = [0u16, 32768, 55705, 62259][t.below(4)];
    let schedule: Vec<u16> = (0..110).map(|_| t.next()).collect();
    ConcCase { buffer_size: [10_000, 1][t.below(2)], init, threads, schedule, free, sticky }
}

pub fn check_sched(_ctx: &Ctx, c: &ConcCase, obs: &mut Obs) -> CheckResult {
    let out = run_case("c17s", c, true).map_err(|e| Fail::new("harness_error", e))?;
    if out.info.stuck || out.info.deadlock {
        obs.discard = Some(if out.info.deadlock { "schedule ended in a lock cycle among parked threads (run released, not judged)".into() } else { "run made no progress (released, not judged)".into() });
        return Ok(());
    }
    let tr = &out.info.trace;
    // the window of the property: an inserter passed its existence check, then the drop ran to its end
    let drop_thread = c.threads.len() - 1;
    // (while the inserter sat in front of the dropping guard - its existence checks done - the drop
    // thread went from setting the tombstone to removing it)
    let window = tr.iter().enumerate().any(|(i, s)| {
        s.tid != drop_thread && s.site == "se.insert.dropping" && {
            let since = tr[..i].iter().rposition(|p| p.tid == s.tid).unwrap_or(0);
            let seg = &tr[since..i];
            seg.iter().any(|p| p.tid == drop_thread && p.site == "se.drop.tombstone") && seg.iter().any(|p| p.tid == drop_thread && p.site == "se.drop.untombstone")
        }
    });
    let refused = out.history.iter().filter(|o| matches!(o.op, Op::Insert { .. }) && o.ret.as_ref().is_some_and(|r| !r.1.is_ok())).count();
    obs.class_if(window, "an insert passed its view check before the drop and took the dropping guard after the drop had finished");
    obs.class_if(refused > 0, "an insert was refused (graph gone)");
    obs.class_if(c.threads[drop_thread].len() > 1, "drop followed by re-create");
    obs.class(if c.free { "mode: free-running threads (OS scheduler)".to_string() } else { format!("mode: generated schedule, stickiness {}%", c.sticky as u32 * 100 / 65536) }.as_str());
    obs.class_if(out.info.detach_events > 0, "a thread was detached (lock invisible to the hooks or long step)");
    obs.count("crash images recovered", out.images.len() as u64);
    obs.count("scheduling steps", out.info.steps as u64);
    for s in &out.info.sites {
        if s.starts_with("se.drop") || s.starts_with("se.create") || s.starts_with("persist.delete_shard") {
            obs.count(&format!("site {s}"), 1);
        }
    }
    obs.nontrivial = out.info.switches >= 2 && out.history.iter().any(|i| matches!(i.op, Op::Insert { .. }) && out.history.iter().any(|d| matches!(d.op, Op::DropKg(_)) && i.ret.as_ref().is_some_and(|r| r.0 > d.inv) && d.ret.as_ref().is_some_and(|r| r.0 > i.inv)));
    obs.key = Some(format!("{:?}/{:?}", c.threads, tr.iter().map(|s| s.tid).collect::<Vec<_>>()));
    obs.sample = Some(json!({"case": c.text(), "switches": out.info.switches, "steps": out.info.steps, "images": out.images.len()}));
    let sched_txt = || tr.iter().map(|s| format!("T{}@{}", s.tid, s.site)).collect::<Vec<_>>().join(" ");
    let fail = |kind: &str, what: String| -> Fail {
        let f = Fail::new(kind, format!("{}\n{what}\nhistory:\n{}\nschedule: {}", c.text(), render_history(&out.history), sched_txt()));
        if out.ineffective {
            f.known(K_INEFFECTIVE)
        } else {
            f
        }
    };
    if out.panicked {
        return Err(fail("thread_panicked", "a thread panicked".into()));
    }
    let served = out.served.as_ref().map_err(|e| fail("served_state_unreadable", e.clone()))?;
    if !explains(&out.init_state, &out.history, served) {
        let adm = lin::final_states(&out.init_state, &out.history, 6);
        return Err(fail("history_not_linearizable", format!("served state {}\nstates reachable by an order of the operations that respects real time and their outcomes: {:?}", served.render(), adm.iter().map(|s| s.render()).collect::<Vec<_>>())));
    }
    let restarted = out.restarted.as_ref().map_err(|e| fail("restart_failed", e.clone()))?;
    let (mut a, mut b) = (restarted.clone(), served.clone());
    a.normalise();
    b.normalise();
    if a != b {
        return Err(fail("restart_differs_from_served_state", format!("served {}\nafter restart {}", served.render(), restarted.render())));
    }
    // crash images: once a drop is acknowledged (and no re-create has been issued) nothing of the graph may come back
    for (im, rec) in &out.images {
        let hist = out.log.history(im.events);
        let drop_acked = hist.iter().any(|o| matches!(o.op, Op::DropKg(_)) && o.ret.as_ref().is_some_and(|r| r.1.is_ok()));
        let create_issued = hist.iter().any(|o| matches!(o.op, Op::CreateKg(_)));
        if !drop_acked || create_issued {
            continue;
        }
        let at = format!("crash at scheduling step {} (a thread parked at {})", im.step, im.site);
        let rec = rec.as_ref().map_err(|e| fail("recovery_failed", format!("{at}: {e}")))?;
        if let Some(k) = rec.kgs.get(K) {
            return Err(fail("dropped_graph_reappears_after_crash", format!("{at}: the drop of {K} was acknowledged before, the recovered store lists it with {k:?}\nhistory up to the crash:\n{}", render_history(&hist))));
        }
        // isolation: the other graph is explained by the history
        let mut others = rec.clone();
        others.kgs.remove(K);
        let ok = lin::linearize(&out.init_state, &hist, &|s| {
            let mut s = s.clone();
            s.kgs.remove(K);
            s.normalise();
            let mut o = others.clone();
            o.normalise();
            s.kgs == o.kgs
        });
        if ok.is_none() {
            return Err(fail("other_graph_changed", format!("{at}: recovered {} is not explained for the graphs other than {K}", rec.render())));
        }
    }
    Ok(())
}

pub fn run(ctx: &Ctx) {
    ctx.set_rule(
        "histories: non-trivial = a graph holding data is dropped, a restart follows, and operations happen while >= 2 graphs exist; \
         schedules: non-trivial = at least two thread switches and an insert into the graph overlaps its drop in real time",
    );
    ctx.assume("history writes are effective in the model (duplicate inserts / absent deletes are known finding C11-ineffective-writes-logged); operations on a graph that does not exist must be refused (Ok/Err class) and leave no trace");
    ctx.assume("schedules: the harness owns the interleaving only at the feature-guarded sites (verif-hooks); crash images are process-crash images taken at scheduling steps; a drop still in flight at the crash is not judged here (C13's business)");
    ctx.run_part("kg_histories", ctx.cases(600, 12_000), || tape_strategy(TAPE_LEN).prop_map(|t| decode_hist(&t)), |c, o| check_hist(ctx, c, o));
    ctx.set_shrink_iters(60);
    ctx.run_part("insert_vs_drop_schedules", ctx.cases(400, 8000), || tape_strategy(TAPE_LEN).prop_map(|t| decode_sched(&t)), |c, o| check_sched(ctx, c, o));
}

pub fn replay(ctx: &Ctx, part: &str, case: &J) -> Option<Result<CheckResult, String>> {
    Some(match part {
        "kg_histories" => ctx.replay_case(part, case, |c: &HistCase, o: &mut Obs| check_hist(ctx, c, o)),
        "insert_vs_drop_schedules" => ctx.replay_case(part, case, |c: &ConcCase, o: &mut Obs| check_sched(ctx, c, o)),
        _ => return None,
    })
}
