//! C18 — materialization and incremental maintenance are invisible: the same history of base
//! writes and rule operations is applied to a plain store (A), to a store whose incremental engine
//! is switched on the way users switch it on (`.index create` through the Handler, store B) and to
//! a store where `KnowledgeGraph::enable_incremental` is called directly at a generated point
//! (store C). After every step every relation is queried on all three stores; the answers must be
//! equal (differential oracle) and equal to the reference evaluator R1 on the model's current
//! facts and current rules.

use crate::common::eng::{diff_sets, key_set, short_err, with_watchdog};
use crate::common::gen::{tape_strategy, Tape};
use crate::common::prog::{eval, Agg, Atom, Clause, Edb, KRow, Lit, Op as COp, Row, HT, T};
use crate::common::store::{block_on, itup, open_handler, result_messages, Scratch, KG};
use crate::common::{CheckResult, Ctx, Fail, Obs};
use inputlayer::protocol::Handler;
use inputlayer::StorageEngine;
use proptest::prelude::*;
use serde::{Deserialize, Serialize};
use serde_json::{json, Value as J};
use std::collections::{BTreeMap, BTreeSet};

/// base relations (name, arity); integer domain 0..=3
pub const BASE: [(&str, usize); 3] = [("e0", 2), ("e1", 1), ("e2", 2)];
/// derived relations, ordered by level: a clause of `p_i` mentions base relations, `p_j` with
/// j < i (positively or negated) and possibly `p_i` itself (positively) — so every generated rule
/// set is stratified and free of mutual recursion, whatever sub-sequence of the history is applied
pub const DERIVED: [&str; 4] = ["p0", "p1", "p2", "p3"];
const DOM: i64 = 4;

#[derive(Clone, Debug, Serialize, Deserialize, PartialEq, Eq)]
pub enum Step {
    /// StorageEngine::insert_tuples_into (bulk, may contain in-batch duplicates / existing rows)
    Insert(String, Vec<Row>),
    /// StorageEngine::delete_tuples_from (may name absent rows)
    Delete(String, Vec<Row>),
    /// StorageEngine::register_rule_in: new rule, or one more clause of an existing rule
    AddClause(Clause),
    /// StorageEngine::remove_rule_clause_in (removing the last clause deletes the rule)
    RemoveClause(String, usize),
    /// StorageEngine::clear_rule_in (rule stays registered with no clauses)
    Clear(String),
    /// StorageEngine::drop_rule_in
    Drop(String),
}

impl Step {
    pub fn short(&self) -> String {
        match self {
            Step::Insert(r, rows) => format!("+{r}{rows:?}"),
            Step::Delete(r, rows) => format!("-{r}{rows:?}"),
            Step::AddClause(c) => format!("register[{}]", c.text()),
            Step::RemoveClause(r, i) => format!("remove_clause {r}#{i}"),
            Step::Clear(r) => format!("clear {r}"),
            Step::Drop(r) => format!("drop {r}"),
        }
    }
    fn is_base_write(&self) -> bool {
        matches!(self, Step::Insert(..) | Step::Delete(..))
    }
}

#[derive(Clone, Debug, Serialize, Deserialize)]
pub struct HCase {
    pub steps: Vec<Step>,
    /// arities of the derived relations
    pub arity: BTreeMap<String, usize>,
    /// store B: `.index create` is sent through the Handler before step `enable_b`
    pub enable_b: usize,
    /// store C: `KnowledgeGraph::enable_incremental` is called before step `enable_c`
    pub enable_c: usize,
}

fn describe(c: &HCase) -> Vec<String> {
    let mut out = Vec::new();
    for (i, s) in c.steps.iter().enumerate() {
        let mut tag = String::new();
        if i == c.enable_b {
            tag.push_str("[B: .index create] ");
        }
        if i == c.enable_c {
            tag.push_str("[C: enable_incremental] ");
        }
        out.push(format!("{i}: {tag}{}", s.short()));
    }
    out
}

// ------------------------------------------------------------------------------------------------
// model: current facts and current rules

#[derive(Clone, Debug, Default)]
pub struct RModel {
    pub facts: BTreeMap<String, BTreeSet<Row>>,
    /// registered rules (a cleared rule stays here with no clauses)
    pub rules: BTreeMap<String, Vec<Clause>>,
}

impl RModel {
    /// apply a step the engine accepted; returns true if the state changed
    pub fn apply(&mut self, s: &Step) -> bool {
        match s {
            Step::Insert(r, rows) => {
                let set = self.facts.entry(r.clone()).or_default();
                let mut ch = false;
                for row in rows {
                    ch |= set.insert(row.clone());
                }
                ch
            }
            Step::Delete(r, rows) => {
                let set = self.facts.entry(r.clone()).or_default();
                let mut ch = false;
                for row in rows {
                    ch |= set.remove(row);
                }
                ch
            }
            Step::AddClause(c) => {
                let cl = self.rules.entry(c.head.clone()).or_default();
                // the catalog ignores a clause identical to an existing one
                if cl.contains(c) {
                    false
                } else {
                    cl.push(c.clone());
                    true
                }
            }
            Step::RemoveClause(r, i) => {
                if let Some(cl) = self.rules.get_mut(r) {
                    if *i < cl.len() {
                        cl.remove(*i);
                        if cl.is_empty() {
                            self.rules.remove(r);
                        }
                        return true;
                    }
                }
                false
            }
            Step::Clear(r) => {
                if let Some(cl) = self.rules.get_mut(r) {
                    let ch = !cl.is_empty();
                    cl.clear();
                    ch
                } else {
                    false
                }
            }
            Step::Drop(r) => self.rules.remove(r).is_some(),
        }
    }
    pub fn clauses(&self) -> Vec<Clause> {
        self.rules.values().flatten().cloned().collect()
    }
    pub fn edb(&self) -> Edb {
        self.facts.iter().map(|(r, s)| (r.clone(), s.iter().cloned().collect())).collect()
    }
    fn has_clauses(&self, r: &str) -> bool {
        self.rules.get(r).is_some_and(|c| !c.is_empty())
    }
    /// does some current clause of `p` mention another derived relation that currently has clauses?
    fn derived_on_derived(&self, p: &str) -> bool {
        self.rules.get(p).is_some_and(|cl| {
            cl.iter().any(|c| c.body.iter().any(|l| matches!(l, Lit::Pos(a) | Lit::Neg(a) if a.rel != p && self.has_clauses(&a.rel))))
        })
    }
    /// base relations in the transitive support of `p`
    fn base_support(&self, p: &str) -> BTreeSet<String> {
        let mut seen: BTreeSet<String> = BTreeSet::new();
        let mut todo = vec![p.to_string()];
        let mut out = BTreeSet::new();
        while let Some(r) = todo.pop() {
            if !seen.insert(r.clone()) {
                continue;
            }
            match self.rules.get(&r) {
                Some(cl) => {
                    for c in cl {
                        for l in &c.body {
                            if let Lit::Pos(a) | Lit::Neg(a) = l {
                                todo.push(a.rel.clone());
                            }
                        }
                    }
                }
                None => {
                    out.insert(r);
                }
            }
        }
        out
    }
}

// ------------------------------------------------------------------------------------------------
// generator

fn gen_rows(t: &mut Tape, m: &RModel, rel: &str, ar: usize, n: usize, prefer_existing: bool) -> Vec<Row> {
    let existing: Vec<Row> = m.facts.get(rel).map(|s| s.iter().cloned().collect()).unwrap_or_default();
    (0..n)
        .map(|_| {
            if prefer_existing && !existing.is_empty() && t.chance(11, 16) {
                existing[t.below(existing.len())].clone()
            } else {
                (0..ar).map(|_| t.range(0, DOM - 1)).collect()
            }
        })
        .collect()
}

/// body atoms + filters of a clause for `DERIVED[hi]`; returns (body, bound variables)
fn gen_body(t: &mut Tape, m: &RModel, arity: &BTreeMap<String, usize>, hi: usize, allow_rec: bool, allow_wild: bool) -> (Vec<Lit>, Vec<u8>) {
    let head = DERIVED[hi];
    let lower: Vec<(String, usize)> = DERIVED[..hi].iter().filter(|p| m.rules.contains_key(**p)).map(|p| (p.to_string(), arity[*p])).collect();
    let pick_any = |t: &mut Tape| -> (String, usize) {
        let i = t.below(BASE.len() + lower.len());
        if i < BASE.len() {
            (BASE[i].0.to_string(), BASE[i].1)
        } else {
            lower[i - BASE.len()].clone()
        }
    };
    let n_atoms = 1 + t.below(2);
    let mut atoms: Vec<(String, usize)> = Vec::new();
    if !lower.is_empty() && t.chance(11, 16) {
        atoms.push(lower[t.below(lower.len())].clone());
    }
    while atoms.len() < n_atoms {
        atoms.push(pick_any(t));
    }
    if allow_rec && m.has_clauses(head) && t.chance(7, 16) {
        atoms.push((head.to_string(), arity[head]));
        if t.chance(8, 16) {
            atoms.rotate_right(1);
        }
    }
    let mut body = Vec::new();
    let mut bound: Vec<u8> = Vec::new();
    let mut nextv = 0u8;
    for (rel, ar) in &atoms {
        let mut args = Vec::new();
        for _ in 0..*ar {
            let c = t.below(16);
            if !bound.is_empty() && c < 6 {
                args.push(T::V(bound[t.below(bound.len())]));
            } else if c == 6 {
                args.push(T::C(t.range(0, DOM - 1)));
            } else if c == 7 && allow_wild {
                args.push(T::W);
            } else {
                args.push(T::V(nextv));
                bound.push(nextv);
                nextv += 1;
            }
        }
        body.push(Lit::Pos(Atom { rel: rel.clone(), args }));
    }
    if bound.is_empty() {
        if let Some(Lit::Pos(a)) = body.first_mut() {
            a.args[0] = T::V(0);
            bound.push(0);
        }
    }
    if t.chance(3, 16) {
        let a = T::V(bound[t.below(bound.len())]);
        let op = COp::ALL[t.below(6)];
        let b = if bound.len() > 1 && t.chance(6, 16) { T::V(bound[t.below(bound.len())]) } else { T::C(t.range(0, DOM - 1)) };
        body.push(Lit::Cmp(a, op, b));
    }
    if t.chance(4, 16) {
        // negated atom over a base relation or a lower derived relation, every argument bound
        let (rel, ar) = pick_any(t);
        let mut args: Vec<T> = (0..ar).map(|_| if t.chance(2, 16) { T::C(t.range(0, DOM - 1)) } else { T::V(bound[t.below(bound.len())]) }).collect();
        if !args.iter().any(|a| matches!(a, T::V(_))) {
            // the engine rejects (at query time) a negated atom that shares no variable with the body
            args[0] = T::V(bound[0]);
        }
        body.push(Lit::Neg(Atom { rel, args }));
    }
    (body, bound)
}

fn gen_clause(t: &mut Tape, m: &RModel, arity: &BTreeMap<String, usize>, is_agg: &[bool; 4], hi: usize) -> Clause {
    let head = DERIVED[hi].to_string();
    let ar = arity[&head];
    if is_agg[hi] {
        let (body, bound) = gen_body(t, m, arity, hi, false, false);
        let f = [Agg::Count, Agg::Sum, Agg::Min, Agg::Max][t.below(4)];
        let v = bound[t.below(bound.len())];
        let hargs = if ar == 1 {
            vec![HT::Agg(f, v)]
        } else {
            let g = bound[t.below(bound.len())];
            if t.chance(4, 16) {
                vec![HT::Agg(f, v), HT::V(g)]
            } else {
                vec![HT::V(g), HT::Agg(f, v)]
            }
        };
        return Clause { head, hargs, body };
    }
    let (body, bound) = gen_body(t, m, arity, hi, true, true);
    let hargs = (0..ar).map(|k| if k > 0 && t.chance(1, 16) { HT::C(t.range(0, DOM - 1)) } else { HT::V(bound[t.below(bound.len())]) }).collect();
    Clause { head, hargs, body }
}

pub fn decode(tape: &[u16]) -> HCase {
    let mut t = Tape::new(tape);
    let mut arity: BTreeMap<String, usize> = BTreeMap::new();
    let mut is_agg = [false; 4];
    for (i, p) in DERIVED.iter().enumerate() {
        arity.insert(p.to_string(), 1 + t.below(2));
        is_agg[i] = i >= 1 && t.chance(2, 16);
    }
    let n = 5 + t.below(11);
    let mut m = RModel::default();
    let mut steps: Vec<Step> = Vec::new();
    // some data first, so that joins over derived relations have something to produce
    let n_seed = 1 + t.below(3);
    for (rel, ar) in BASE.iter().take(n_seed) {
        let seed_n = 2 + t.below(4);
        let first = Step::Insert(rel.to_string(), gen_rows(&mut t, &m, rel, *ar, seed_n, false));
        m.apply(&first);
        steps.push(first);
    }
    for si in 0..n {
        // the history ends with two base writes (so that some write follows every registration)
        let k = if si + 2 >= n { 2 + 2 * (n - si - 1) } else { t.below(16) };
        let with_clauses: Vec<String> = m.rules.iter().filter(|(_, c)| !c.is_empty()).map(|(r, _)| r.clone()).collect();
        let registered: Vec<String> = m.rules.keys().cloned().collect();
        // the two final writes go to a base relation below some derived-on-derived relation, if any
        let mut targets: Vec<(&str, usize)> = BASE.to_vec();
        if si + 2 >= n {
            let sup: BTreeSet<String> = DERIVED.iter().filter(|p| m.derived_on_derived(p)).flat_map(|p| m.base_support(p)).collect();
            let pref: Vec<(&str, usize)> = BASE.iter().copied().filter(|(r, _)| sup.contains(*r)).collect();
            if !pref.is_empty() {
                targets = pref;
            }
        }
        let step = match k {
            0..=2 | 15 => {
                let (rel, ar) = targets[t.below(targets.len())];
                let cnt = 1 + t.below(3);
                Step::Insert(rel.into(), gen_rows(&mut t, &m, rel, ar, cnt, false))
            }
            3..=5 => {
                let (rel, ar) = targets[t.below(targets.len())];
                let cnt = 1 + t.below(2);
                Step::Delete(rel.into(), gen_rows(&mut t, &m, rel, ar, cnt, true))
            }
            12 if !with_clauses.is_empty() => {
                let r = with_clauses[t.below(with_clauses.len())].clone();
                let n_cl = m.rules[&r].len();
                Step::RemoveClause(r, t.below(n_cl))
            }
            13 if !registered.is_empty() => Step::Clear(registered[t.below(registered.len())].clone()),
            14 if !registered.is_empty() => Step::Drop(registered[t.below(registered.len())].clone()),
            _ => {
                // an aggregate relation keeps a single clause; prefer the lowest level that has no
                // rule yet so that higher levels find something to build on
                let cands: Vec<usize> = (0..DERIVED.len()).filter(|i| !(is_agg[*i] && m.has_clauses(DERIVED[*i]))).collect();
                let fresh: Vec<usize> = cands.iter().copied().filter(|i| !m.rules.contains_key(DERIVED[*i])).collect();
                let hi = if !fresh.is_empty() && t.chance(10, 16) { fresh[0] } else { cands[t.below(cands.len())] };
                Step::AddClause(gen_clause(&mut t, &m, &arity, &is_agg, hi))
            }
        };
        m.apply(&step);
        steps.push(step);
    }
    let enable_b = if t.chance(8, 16) { t.below(steps.len()) } else { 0 };
    let enable_c = t.below(steps.len());
    HCase { steps, arity, enable_b, enable_c }
}

fn strategy() -> impl Strategy<Value = HCase> {
    tape_strategy(700).prop_map(|t| decode(&t))
}

// ------------------------------------------------------------------------------------------------
// the three stores

struct Store {
    name: &'static str,
    _sc: Scratch,
    h: Handler,
    incremental: bool,
}

fn open(name: &'static str) -> Result<Store, String> {
    let sc = Scratch::new("c18");
    let h = open_handler(&sc.path, |_| {})?;
    // the relation that will carry the vector index exists (with the same schema) in every store
    block_on(h.query_program(Some(KG.to_string()), "+vx(id: int, emb: vector)".to_string())).map_err(|e| format!("schema declaration: {e}"))?;
    Ok(Store { name, _sc: sc, h, incremental: false })
}

fn incremental_on(st: &StorageEngine) -> bool {
    st.with_kg_read(KG, |kg| Ok(kg.incremental().is_some())).unwrap_or(false)
}

/// number of derived relations with a valid materialization (None when incremental is off)
fn materialized_count(st: &StorageEngine) -> Option<usize> {
    st.with_kg_read(KG, |kg| Ok(kg.incremental().map(|dd| dd.derived_relations().lock().get_materialized_relation_names().len()))).ok().flatten()
}

impl Store {
    fn enable_via_index(&mut self) -> Result<(), String> {
        let r = block_on(self.h.query_program(Some(KG.to_string()), ".index create vx_idx on vx(emb)".to_string())).map_err(|e| format!(".index create: {e}"))?;
        let msgs = result_messages(&r);
        if !incremental_on(&self.h.get_storage()) {
            return Err(format!(".index create did not enable the incremental engine; messages: {msgs:?}"));
        }
        self.incremental = true;
        Ok(())
    }
    fn enable_directly(&mut self) -> Result<(), String> {
        self.h.get_storage().with_kg_mut(KG, |kg| kg.enable_incremental().map_err(|e| e.to_string())).map_err(|e| e.to_string())?;
        self.incremental = true;
        Ok(())
    }
    /// Ok(report) / Err(message)
    fn apply(&self, s: &Step) -> Result<String, String> {
        let st = self.h.get_storage();
        match s {
            Step::Insert(r, rows) => st.insert_tuples_into(KG, r, rows.iter().map(|x| itup(x)).collect()).map(|(n, d)| format!("inserted {n} new, {d} duplicate")).map_err(|e| e.to_string()),
            Step::Delete(r, rows) => st.delete_tuples_from(KG, r, rows.iter().map(|x| itup(x)).collect()).map(|n| format!("deleted {n}")).map_err(|e| e.to_string()),
            Step::AddClause(c) => {
                let def = inputlayer::statement::parse_rule_definition(&c.text()).map_err(|e| format!("parse_rule_definition: {e}"))?;
                st.register_rule_in(KG, &def).map(|r| format!("{r:?}")).map_err(|e| e.to_string())
            }
            Step::RemoveClause(r, i) => st.remove_rule_clause_in(KG, r, *i).map(|d| format!("rule deleted: {d}")).map_err(|e| e.to_string()),
            Step::Clear(r) => st.clear_rule_in(KG, r).map(|_| "cleared".to_string()).map_err(|e| e.to_string()),
            Step::Drop(r) => st.drop_rule_in(KG, r).map(|_| "dropped".to_string()).map_err(|e| e.to_string()),
        }
    }
    fn query(&self, rel: &str, ar: usize) -> Result<Result<BTreeSet<KRow>, String>, Fail> {
        let vars: Vec<String> = (0..ar).map(|i| format!("X{i}")).collect();
        let text = format!("q({}) <- {}({})", vars.join(", "), rel, vars.join(", "));
        let (r, fired) = with_watchdog(20, || self.h.get_storage().execute_query_with_rules_tuples_on(KG, &text));
        if fired {
            return Err(Fail::new("watchdog", "query did not finish"));
        }
        Ok(match r {
            Ok(ts) => Ok(key_set(&ts).map_err(|e| Fail::new("non_numeric_answer", format!("store {} relation {rel}: {e}", self.name)))?),
            Err(e) => Err(e.to_string()),
        })
    }
}

/// Sensitivity mode (off unless VERIF_C18_EMULATE_AUTOMAT is set; never part of a normal run):
/// do what `KnowledgeGraph::auto_materialize_rule` would do if its query text parsed — evaluate
/// the clauses of the registered rule over the current base facts and store the result with
/// `materialize_derived_relation`. Used to show that the oracles see a live materialization path.
fn emulate_automaterialize() -> bool {
    std::env::var("VERIF_C18_EMULATE_AUTOMAT").is_ok()
}

fn emulate_auto_materialize_rule(st: &StorageEngine, model: &RModel, name: &str, ar: usize) {
    let Some(clauses) = model.rules.get(name) else { return };
    if clauses.is_empty() {
        return;
    }
    let vars: Vec<String> = (0..ar).map(|i| format!("V{i}")).collect();
    let mut program: String = clauses.iter().map(|c| format!("{}\n", c.text())).collect();
    program.push_str(&format!("q({}) <- {}({})", vars.join(", "), name, vars.join(", ")));
    let mut engine = inputlayer::IQLEngine::new();
    for (rel, rows) in &model.facts {
        if !rows.is_empty() {
            engine.add_tuples(rel, rows.iter().map(|r| itup(r)).collect());
        }
    }
    if let Ok(tuples) = engine.execute_tuples(&program) {
        let _ = st.with_kg_read(KG, |kg| kg.materialize_derived_relation(name, tuples));
    }
}

pub fn check(_ctx: &Ctx, case: &HCase, obs: &mut Obs) -> CheckResult {
    let hist = || describe(case).join("\n");
    let a = open("A(plain)").map_err(|e| Fail::new("open_failed", e))?;
    let mut b = open("B(.index create)").map_err(|e| Fail::new("open_failed", e))?;
    let mut c = open("C(enable_incremental)").map_err(|e| Fail::new("open_failed", e))?;
    let mut model = RModel::default();
    let mut last_reg: BTreeMap<String, usize> = BTreeMap::new();
    let mut last_write: BTreeMap<String, usize> = BTreeMap::new();
    let mut nt_queries = 0u64;
    let mut nt_nonempty = 0u64;
    let mut dod_queries = 0u64;
    let mut engine_errors: BTreeMap<String, u64> = BTreeMap::new();
    let mut registers_inc = 0u64;
    let mut materialized_seen = 0u64;
    let rels: Vec<(String, usize)> = DERIVED.iter().map(|p| (p.to_string(), case.arity.get(*p).copied().unwrap_or(1))).chain(BASE.iter().map(|(r, a)| (r.to_string(), *a))).collect();
    for (i, step) in case.steps.iter().enumerate() {
        if i == case.enable_b {
            b.enable_via_index().map_err(|e| Fail::new("enable_failed", format!("history:\n{}\nstore B before step {i}: {e}", hist())))?;
        }
        if i == case.enable_c {
            c.enable_directly().map_err(|e| Fail::new("enable_failed", format!("history:\n{}\nstore C before step {i}: {e}", hist())))?;
        }
        let ra = a.apply(step);
        let rb = b.apply(step);
        let rc = c.apply(step);
        for (s, r) in [(&b, &rb), (&c, &rc)] {
            if r.is_ok() != ra.is_ok() || (r.is_ok() && r != &ra) {
                return Err(Fail::new(
                    "write_outcome_differs",
                    format!("history:\n{}\nstep {i} ({}): store A reports {ra:?}, store {} (incremental {}) reports {r:?}", hist(), step.short(), s.name, if s.incremental { "on" } else { "off" }),
                ));
            }
        }
        match &ra {
            Ok(_) => {
                let changed = model.apply(step);
                match step {
                    Step::AddClause(cl) => {
                        last_reg.insert(cl.head.clone(), i);
                        for s in [&b, &c] {
                            if s.incremental && emulate_automaterialize() {
                                emulate_auto_materialize_rule(&s.h.get_storage(), &model, &cl.head, case.arity.get(&cl.head).copied().unwrap_or(1));
                            }
                            if s.incremental {
                                registers_inc += 1;
                                materialized_seen += materialized_count(&s.h.get_storage()).unwrap_or(0) as u64;
                            }
                        }
                    }
                    Step::Insert(r, _) | Step::Delete(r, _) if changed => {
                        last_write.insert(r.clone(), i);
                    }
                    _ => {}
                }
            }
            Err(e) => {
                *engine_errors.entry(format!("step rejected: {}", short_err(e))).or_default() += 1;
            }
        }
        let reference = match eval(&model.clauses(), &model.edb()) {
            Ok(m) => m,
            Err(e) => {
                obs.discard = Some(format!("reference: {e:?}"));
                return Ok(());
            }
        };
        let inc_on = b.incremental || c.incremental;
        for (rel, ar) in &rels {
            let qa = a.query(rel, *ar);
            let qb = b.query(rel, *ar);
            let qc = c.query(rel, *ar);
            let (qa, qb, qc) = match (qa, qb, qc) {
                (Ok(x), Ok(y), Ok(z)) => (x, y, z),
                (Err(f), _, _) | (_, Err(f), _) | (_, _, Err(f)) => {
                    if f.kind == "watchdog" {
                        obs.discard = Some("watchdog".into());
                        return Ok(());
                    }
                    return Err(f);
                }
            };
            let expected = reference.db.get(rel).cloned().unwrap_or_default();
            let is_derived = model.rules.contains_key(rel);
            let dod = is_derived && model.derived_on_derived(rel);
            // differential oracle
            for (s, q) in [(&b, &qb), (&c, &qc)] {
                if q != &qa {
                    let show = |x: &Result<BTreeSet<KRow>, String>| match x {
                        Ok(s) => format!("{} rows {:?}", s.len(), s.iter().take(8).collect::<Vec<_>>()),
                        Err(e) => format!("Err({e})"),
                    };
                    let f = Fail::new(
                        "incremental_changes_answer",
                        format!(
                            "history:\n{}\nafter step {i} ({}) the query over {rel} returns {} on store A and {} on store {} (incremental {}); reference: {} rows {:?}\ncurrent rules: {:?}\ncurrent facts: {:?}",
                            hist(),
                            step.short(),
                            show(&qa),
                            show(q),
                            s.name,
                            if s.incremental { "on" } else { "off" },
                            expected.len(),
                            expected.iter().take(8).collect::<Vec<_>>(),
                            model.clauses().iter().map(Clause::text).collect::<Vec<_>>(),
                            model.facts
                        ),
                    );
                    return Err(f);
                }
            }
            // reference oracle (A == B == C here)
            match &qa {
                Ok(got) => {
                    if got != &expected {
                        let (missing, extra) = diff_sets(got, &expected);
                        let kind = if !extra.is_empty() { "extra_tuples" } else { "missing_tuples" };
                        return Err(Fail::new(
                            kind,
                            format!(
                                "history:\n{}\nafter step {i} ({}) all three stores return {} rows for {rel}, the reference model has {}; missing {:?} extra {:?}\ncurrent rules: {:?}\ncurrent facts: {:?}",
                                hist(),
                                step.short(),
                                got.len(),
                                expected.len(),
                                missing,
                                extra,
                                model.clauses().iter().map(Clause::text).collect::<Vec<_>>(),
                                model.facts
                            ),
                        ));
                    }
                }
                Err(e) => {
                    let e = e.trim_start_matches("Query execution failed: ");
                    *engine_errors.entry(format!("query rejected: {}", short_err(e))).or_default() += 1;
                    if std::env::var("VERIF_C18_DEBUG").is_ok() {
                        eprintln!("C18DEBUG query over {rel} rejected: {e}\n  rules: {:?}", model.clauses().iter().map(Clause::text).collect::<Vec<_>>());
                    }
                }
            }
            if dod {
                dod_queries += 1;
            }
            if dod && inc_on && qa.is_ok() {
                let reg = last_reg.get(rel).copied().unwrap_or(usize::MAX);
                let written_after = model.base_support(rel).iter().any(|b| last_write.get(b).is_some_and(|w| reg != usize::MAX && *w > reg));
                if written_after {
                    nt_queries += 1;
                    if !expected.is_empty() {
                        nt_nonempty += 1;
                    }
                }
            }
        }
    }
    obs.nontrivial = nt_queries > 0;
    obs.class_if(nt_nonempty > 0, "nontrivial_query_with_nonempty_answer");
    obs.class_if(dod_queries > 0, "derived_on_derived_relation_queried");
    obs.class_if(case.enable_b > 0, "B_enabled_mid_history(replay of existing data)");
    obs.class_if(case.steps.iter().any(|s| matches!(s, Step::AddClause(c) if c.pos_rels().contains(&c.head.as_str()))), "self_recursive_clause");
    obs.class_if(case.steps.iter().any(|s| matches!(s, Step::AddClause(c) if !c.neg_rels().is_empty())), "negation");
    obs.class_if(case.steps.iter().any(|s| matches!(s, Step::AddClause(c) if c.has_agg())), "aggregate");
    obs.class_if(case.steps.iter().any(|s| matches!(s, Step::RemoveClause(..))), "remove_clause");
    obs.class_if(case.steps.iter().any(|s| matches!(s, Step::Clear(..))), "clear_rule");
    obs.class_if(case.steps.iter().any(|s| matches!(s, Step::Drop(..))), "drop_rule");
    obs.class_if(case.steps.iter().filter(|s| s.is_base_write()).count() >= 3, "three_or_more_base_writes");
    obs.count("queries_per_store", (case.steps.len() * rels.len()) as u64);
    obs.count("nontrivial_queries", nt_queries);
    obs.count("registers_with_incremental_on", registers_inc);
    obs.count("valid_materializations_seen_after_register", materialized_seen);
    for (k, n) in engine_errors {
        obs.count(&k, n);
    }
    obs.sample = Some(json!({"history": describe(case)}));
    Ok(())
}

/// structural shrinker: drop steps, drop rows, move the enable points to the front
fn shrink(case: &HCase, still_fails: &dyn Fn(&HCase) -> bool) -> HCase {
    let mut cur = case.clone();
    let mut budget = 150usize;
    loop {
        let mut improved = false;
        let mut i = 0;
        while i < cur.steps.len() && budget > 0 {
            let mut c2 = cur.clone();
            c2.steps.remove(i);
            if c2.steps.is_empty() {
                break;
            }
            if c2.enable_b > i {
                c2.enable_b -= 1;
            }
            if c2.enable_c > i {
                c2.enable_c -= 1;
            }
            c2.enable_b = c2.enable_b.min(c2.steps.len() - 1);
            c2.enable_c = c2.enable_c.min(c2.steps.len() - 1);
            budget -= 1;
            if still_fails(&c2) {
                cur = c2;
                improved = true;
            } else {
                i += 1;
            }
        }
        for si in 0..cur.steps.len() {
            let n_rows = match &cur.steps[si] {
                Step::Insert(_, rows) | Step::Delete(_, rows) => rows.len(),
                _ => 0,
            };
            let mut ri = 0;
            let mut left = n_rows;
            while left > 1 && ri < left && budget > 0 {
                let mut c2 = cur.clone();
                if let Step::Insert(_, rows) | Step::Delete(_, rows) = &mut c2.steps[si] {
                    rows.remove(ri);
                }
                budget -= 1;
                if still_fails(&c2) {
                    cur = c2;
                    left -= 1;
                    improved = true;
                } else {
                    ri += 1;
                }
            }
        }
        for (field, val) in [(0, 0usize), (1, 0usize)] {
            if budget == 0 {
                break;
            }
            let mut c2 = cur.clone();
            if field == 0 {
                if c2.enable_b == val {
                    continue;
                }
                c2.enable_b = val;
            } else {
                if c2.enable_c == val {
                    continue;
                }
                c2.enable_c = val;
            }
            budget -= 1;
            if still_fails(&c2) {
                cur = c2;
                improved = true;
            }
        }
        if !improved || budget == 0 {
            break;
        }
    }
    cur
}

pub fn run(ctx: &Ctx) {
    ctx.set_rule(
        "Histories of 6-18 steps decoded from a 700-word choice tape (1-3 seeding bulk inserts, then 5-15 generated steps, the last two of \
         which are a delete and an insert on a base relation below a derived-on-derived relation when one exists) over 3 base relations \
         (e0/2, e1/1, e2/2, integer domain 0..3) and 4 derived relations p0..p3 (arity 1-2): bulk inserts (in-batch duplicates, existing rows), deletes (present and absent rows), \
         register_rule_in (new rule / extra clause; bodies of 1-3 atoms over base relations, LOWER derived relations - derived-on-derived up \
         to 4 levels - and the head itself (self recursion), constants, wildcards, comparisons, negation of base or lower derived \
         relations; count/sum/min/max aggregate relations with one clause), remove_rule_clause_in, clear_rule_in, drop_rule_in. No \
         mutual recursion and no arithmetic by construction. The history runs on store A (plain), store B (`.index create` sent through \
         Handler::query_program before a generated step, 50% before step 0) and store C (KnowledgeGraph::enable_incremental called before a \
         generated step). After EVERY step all 7 relations are queried on all 3 stores with execute_query_with_rules_tuples_on. Oracles: \
         (1) every write/rule operation reports the same on A, B, C; (2) every answer of B and C equals A's as a set (Err vs Ok counts as \
         different); (3) A's answer equals the reference evaluator R1 over the model's current facts and rules. Non-trivial = the history \
         contains a query over a relation with a clause over another derived relation that has clauses, issued while B or C has \
         incremental on, after an effective base write to a base relation in its transitive support that follows its last registration. \
         Distinct = distinct case JSON.",
    );
    ctx.assume("reference evaluator R1 (harness/src/common/prog.rs) is correct for the generated fragment; a cleared / dropped / never registered relation is the empty relation in the model");
    ctx.assume("a step the plain store rejects with Err is not applied to the model (it must be rejected by B and C too); a query all three stores reject with Err is not judged against R1 (counted per message in coverage.counters)");
    ctx.assume(
        "observed on this tree: with incremental on, register_rule calls auto_materialize_rule, whose program ends in the handler-level query form \
         `?name(V0, ..)`; IQLEngine::execute_tuples reads that line as a body-less clause with head relation \"?name\" and rejects it (\"Unsafe rule: \
         Atom { relation: \\\"?p0\\\", .. } Variables [..] in head do not appear in positive body atoms\"), so every call fails with a warning on \
         stderr and NOTHING is ever materialized (counter valid_materializations_seen_after_register stays 0 while \
         registers_with_incremental_on > 0). No other \
         user-reachable path calls set_materialized / materialize_derived_relation, so the materialization branch of publish_snapshot is \
         dead and the property holds for that reason; direct calls to materialize_derived_relation are not generated because the property \
         does not quantify over them. Store B and C differ from A only by the shadow writes into the DD arrangements and the \
         DerivedRelationsManager bookkeeping. Sensitivity: with VERIF_C18_EMULATE_AUTOMAT=1 the harness does what auto_materialize_rule would \
         do if its query parsed (evaluate the registered rule's own clauses over the base facts, materialize_derived_relation); the check then \
         fails within a few cases (derived-on-derived rule materialized as empty / stale after base writes, clause removal, clear).",
    );
    ctx.set_shrink_iters(120);
    ctx.run_part_with("histories", ctx.cases(640, 8000), strategy, |c, o| check(ctx, c, o), Some(&shrink));
}

pub fn replay(ctx: &Ctx, part: &str, case: &J) -> Option<Result<CheckResult, String>> {
    Some(match part {
        "histories" => ctx.replay_case(part, case, |c: &HCase, o: &mut Obs| check(ctx, c, o)),
        _ => return None,
    })
}
