//! C19 — incremental arrangements mirror the base relations: whenever incremental maintenance is
//! enabled, `IncrementalEngine::read_relation_consistent` returns exactly the current facts of
//! every base relation — after any history of inserts and deletes (duplicates, absent deletes,
//! data that existed before the engine was enabled) and under concurrent readers and writers.

use crate::common::gen::{tape_strategy, Tape};
use crate::common::hist::*;
use crate::common::store::{block_on, open_handler, result_messages, Scratch, KG};
use crate::common::runner::guarded;
use crate::common::{CheckResult, Ctx, Fail, Obs};
use inputlayer::protocol::Handler;
use inputlayer::value::{Tuple, Value};
use inputlayer::StorageEngine;
use proptest::prelude::*;
use serde::{Deserialize, Serialize};
use serde_json::{json, Value as J};
use std::collections::{BTreeMap, BTreeSet};
use std::sync::atomic::{AtomicBool, AtomicUsize, Ordering};
use std::sync::{Arc, Barrier, Mutex};
use std::time::{Duration, Instant};

/// a write whose logical time was drawn before, but which reaches the arrangement after, a
/// consistent read advanced the input sessions: `InputSession::update_at` panics on the worker
/// thread and every later call reports "Worker disconnected"
pub const K_STALE_TIME: &str = "C19-late-write-kills-incremental-worker";

// ------------------------------------------------------------------------------------------------
// shared helpers

fn enable(h: &Handler, via_index: bool) -> Result<(), String> {
    if via_index {
        block_on(h.query_program(Some(KG.to_string()), "+vx(id: int, emb: vector)".to_string())).map_err(|e| format!("schema declaration: {e}"))?;
        let r = block_on(h.query_program(Some(KG.to_string()), ".index create vx_idx on vx(emb)".to_string())).map_err(|e| format!(".index create: {e}"))?;
        let on = h.get_storage().with_kg_read(KG, |kg| Ok(kg.incremental().is_some())).unwrap_or(false);
        if !on {
            return Err(format!(".index create did not enable the incremental engine; messages: {:?}", result_messages(&r)));
        }
        Ok(())
    } else {
        h.get_storage().with_kg_mut(KG, |kg| kg.enable_incremental().map_err(|e| e.to_string())).map_err(|e| e.to_string())
    }
}

/// `IncrementalEngine::read_relation_consistent` through the public accessors
/// (`StorageEngine::with_kg_read` -> `KnowledgeGraph::incremental`).
fn read_arrangement(st: &StorageEngine, rel: &str) -> Result<Vec<Tuple>, String> {
    st.with_kg_read(KG, |kg| kg.incremental().ok_or_else(|| "incremental engine is not enabled".to_string())?.read_relation_consistent(rel)).map_err(|e| e.to_string())
}

fn to_rows(ts: &[Tuple]) -> Result<Vec<Row>, String> {
    ts.iter()
        .map(|t| t.values().iter().map(|v| if let Value::Int64(i) = v { Ok(*i) } else { Err(format!("non-integer value {v:?} in arrangement")) }).collect::<Result<Row, String>>())
        .collect()
}

fn describe(h: &[Op]) -> String {
    h.iter().map(Op::short).collect::<Vec<_>>().join(" ; ")
}

// ------------------------------------------------------------------------------------------------
// part 1/2: sequential histories

#[derive(Clone, Debug, Serialize, Deserialize)]
pub struct ACase {
    /// inserts / deletes only
    pub ops: Vec<Op>,
    /// incremental is enabled before op `enable_at` (== ops.len(): after the whole history)
    pub enable_at: usize,
    /// true: `.index create` through the Handler; false: KnowledgeGraph::enable_incremental
    pub via_index: bool,
}

fn compare_all(st: &StorageEngine, model: &SetModel, ctx_line: &dyn Fn() -> String) -> CheckResult {
    for rel in RELS {
        let got = read_arrangement(st, rel).map_err(|e| Fail::new("consistent_read_failed", format!("{}\nread_relation_consistent({rel}) failed: {e}", ctx_line())))?;
        let mut rows = to_rows(&got).map_err(|e| Fail::new("non_integer_value", format!("{}\n{rel}: {e}", ctx_line())))?;
        rows.sort();
        let expected: Vec<Row> = model.rels.get(rel).map(|s| s.iter().cloned().collect()).unwrap_or_default();
        if rows != expected {
            let set: BTreeSet<Row> = rows.iter().cloned().collect();
            let kind = if set.len() != rows.len() { "duplicate_tuple_in_consistent_read" } else { "arrangement_differs_from_base" };
            let base = live_state(st, &[rel.to_string()]).map(|m| m.get(rel).cloned().unwrap_or_default());
            return Err(Fail::new(
                kind,
                format!("{}\nread_relation_consistent({rel}) returned {rows:?}; the writes so far imply {expected:?}; the query path serves {base:?}", ctx_line()),
            ));
        }
    }
    Ok(())
}

pub fn check_history(_ctx: &Ctx, c: &ACase, obs: &mut Obs) -> CheckResult {
    let sc = Scratch::new("c19");
    let h = open_handler(&sc.path, |_| {}).map_err(|e| Fail::new("open_failed", e))?;
    let enable_at = c.enable_at.min(c.ops.len());
    let mut model = SetModel::default();
    let mut enabled = false;
    let mut ineffective_while_enabled = false;
    let mut replay_nonempty = false;
    for i in 0..=c.ops.len() {
        if i == enable_at {
            enable(&h, c.via_index).map_err(|e| Fail::new("enable_failed", format!("history: {}\nbefore step {i}: {e}", describe(&c.ops))))?;
            enabled = true;
            replay_nonempty = !model.nonempty().is_empty();
            compare_all(&h.get_storage(), &model, &|| format!("history: {}\nright after enabling incremental maintenance before step {i}", describe(&c.ops)))?;
        }
        let Some(op) = c.ops.get(i) else { break };
        let exp = model.apply(op);
        let n_rows = match op {
            Op::Insert(_, r) | Op::Delete(_, r) => r.len(),
            _ => 0,
        };
        let ineffective = match exp {
            Expect::Inserted(_, d) => d > 0,
            Expect::Deleted(n) => n < n_rows,
            Expect::None => false,
        };
        apply_engine(&h.get_storage(), op).map_err(|e| Fail::new("write_failed", format!("history: {}\nstep {i} {}: {e}", describe(&c.ops), op.short())))?;
        if enabled {
            ineffective_while_enabled |= ineffective;
            compare_all(&h.get_storage(), &model, &|| format!("history: {} (incremental enabled before step {enable_at}{})\nafter step {i} ({})", describe(&c.ops), if c.via_index { " via .index create" } else { "" }, op.short()))?;
        }
    }
    obs.nontrivial = ineffective_while_enabled;
    obs.class_if(replay_nonempty, "existing_data_replayed_at_enable");
    obs.class_if(c.via_index, "enabled_via_index_create");
    obs.class_if(ineffective_while_enabled && replay_nonempty, "ineffective_write_after_replay");
    obs.key = Some(format!("{}|{}|{}", describe(&c.ops), enable_at, c.via_index));
    obs.sample = Some(json!({"history": describe(&c.ops), "enable_before_step": enable_at, "via_index": c.via_index}));
    Ok(())
}

fn alphabet() -> Vec<Op> {
    let a = vec![1, 1];
    let b = vec![1, 2];
    let r = "r0".to_string();
    vec![
        Op::Insert(r.clone(), vec![a.clone()]),
        Op::Insert(r.clone(), vec![b.clone()]),
        Op::Delete(r.clone(), vec![a.clone()]),
        Op::Delete(r.clone(), vec![b.clone()]),
        Op::Insert(r.clone(), vec![a.clone(), a.clone(), b.clone()]),
        Op::Delete("r1".to_string(), vec![a.clone()]),
    ]
}

fn enumerate(max_len: usize) -> Vec<ACase> {
    let al = alphabet();
    let mut out = Vec::new();
    let mut frontier: Vec<Vec<Op>> = vec![vec![]];
    for _ in 0..max_len {
        let mut next = Vec::new();
        for h in &frontier {
            for op in &al {
                let mut h2 = h.clone();
                h2.push(op.clone());
                next.push(h2);
            }
        }
        for h in &next {
            for e in 0..=h.len() {
                out.push(ACase { ops: h.clone(), enable_at: e, via_index: false });
            }
        }
        frontier = next;
    }
    out
}

fn random_history() -> impl Strategy<Value = ACase> {
    tape_strategy(80).prop_map(|t| {
        let mut tape = Tape::new(&t);
        let ops = decode_history(&mut tape, 16, 2, 4, false);
        let enable_at = if tape.chance(5, 16) { 0 } else { tape.below(ops.len() + 1) };
        ACase { ops, enable_at, via_index: tape.chance(6, 16) }
    })
}

// ------------------------------------------------------------------------------------------------
// part 3: two writers on disjoint tuples + one consistent reader (stress; OS-scheduled)

#[derive(Clone, Debug, Serialize, Deserialize)]
pub struct SCase {
    /// writes applied sequentially before the threads start, on rows no thread touches later
    pub pre: Vec<Op>,
    /// incremental is enabled before (true) or after (false) the `pre` writes
    pub enable_first: bool,
    pub via_index: bool,
    /// one op sequence per writer thread; writer i only touches rows [10 + i, _]
    pub writers: Vec<Vec<Op>>,
}

const PRE_KEY: i64 = 9;
fn writer_key(i: usize) -> i64 {
    10 + i as i64
}

fn gen_ops(t: &mut Tape, key: i64, n_rows: usize, len: usize) -> Vec<Op> {
    let mut ops = Vec::new();
    let row = |t: &mut Tape| vec![key, t.below(n_rows) as i64];
    for _ in 0..len {
        let rel = RELS[t.below(2)].to_string();
        ops.push(match t.below(8) {
            0..=2 => Op::Insert(rel, vec![row(t)]),
            3 => {
                let n = 2 + t.below(3);
                Op::Insert(rel, (0..n).map(|_| row(t)).collect())
            }
            4..=6 => Op::Delete(rel, vec![row(t)]),
            _ => {
                let n = 2 + t.below(2);
                Op::Delete(rel, (0..n).map(|_| row(t)).collect())
            }
        });
    }
    ops
}

fn stress_strategy() -> impl Strategy<Value = SCase> {
    tape_strategy(200).prop_map(|t| {
        let mut tape = Tape::new(&t);
        let n_pre = tape.below(4);
        let pre = gen_ops(&mut tape, PRE_KEY, 2, n_pre);
        let enable_first = tape.chance(8, 16);
        let via_index = tape.chance(5, 16);
        let mut writers = Vec::new();
        for i in 0..2 {
            let len = 6 + tape.below(15);
            writers.push(gen_ops(&mut tape, writer_key(i), 3, len));
        }
        SCase { pre, enable_first, via_index, writers }
    })
}

#[derive(Clone, Debug)]
struct ReadRec {
    rel: &'static str,
    /// per writer: ops acknowledged before the read started / ops started when the read returned
    acked: Vec<usize>,
    started: Vec<usize>,
    res: Result<Vec<Row>, String>,
}

#[derive(Default)]
struct StressLog {
    reads: Vec<ReadRec>,
    /// (writer, op index, error)
    writer_errors: Vec<(usize, usize, String)>,
}

struct Shared {
    h: Handler,
    _sc: Scratch,
    started: Vec<AtomicUsize>,
    acked: Vec<AtomicUsize>,
    done: Vec<AtomicBool>,
}

const STRESS_DEADLINE: Duration = Duration::from_secs(12);
const MAX_READS: usize = 6000;

/// Err = the threads did not finish before the deadline (inconclusive)
fn run_stress(c: &SCase) -> Result<Result<StressLog, Fail>, String> {
    let sc = Scratch::new("c19s");
    let h = match open_handler(&sc.path, |_| {}) {
        Ok(h) => h,
        Err(e) => return Ok(Err(Fail::new("open_failed", e))),
    };
    if c.enable_first {
        if let Err(e) = enable(&h, c.via_index) {
            return Ok(Err(Fail::new("enable_failed", e)));
        }
    }
    for op in &c.pre {
        if let Err(e) = apply_engine(&h.get_storage(), op) {
            return Ok(Err(Fail::new("write_failed", format!("setup write {}: {e}", op.short()))));
        }
    }
    if !c.enable_first {
        if let Err(e) = enable(&h, c.via_index) {
            return Ok(Err(Fail::new("enable_failed", e)));
        }
    }
    let n = c.writers.len();
    let sh = Arc::new(Shared {
        h,
        _sc: sc,
        started: (0..n).map(|_| AtomicUsize::new(0)).collect(),
        acked: (0..n).map(|_| AtomicUsize::new(0)).collect(),
        done: (0..n).map(|_| AtomicBool::new(false)).collect(),
    });
    let barrier = Arc::new(Barrier::new(n + 1));
    let log = Arc::new(Mutex::new(StressLog::default()));
    let (tx, rx) = std::sync::mpsc::channel::<()>();
    for (i, ops) in c.writers.iter().cloned().enumerate() {
        let (sh, barrier, log, tx) = (sh.clone(), barrier.clone(), log.clone(), tx.clone());
        std::thread::Builder::new()
            .name(format!("c19-writer-{i}"))
            .spawn(move || {
                barrier.wait();
                for (k, op) in ops.iter().enumerate() {
                    sh.started[i].store(k + 1, Ordering::SeqCst);
                    let r = guarded(|| apply_engine(&sh.h.get_storage(), op)).unwrap_or_else(|p| Err(format!("panic escaped the API: {p}")));
                    match r {
                        Ok(_) => sh.acked[i].store(k + 1, Ordering::SeqCst),
                        Err(e) => {
                            log.lock().unwrap().writer_errors.push((i, k, e));
                            break;
                        }
                    }
                }
                sh.done[i].store(true, Ordering::SeqCst);
                let _ = tx.send(());
            })
            .map_err(|e| format!("spawn: {e}"))?;
    }
    {
        let (sh, barrier, log, tx) = (sh.clone(), barrier.clone(), log.clone(), tx.clone());
        std::thread::Builder::new()
            .name("c19-reader".into())
            .spawn(move || {
                barrier.wait();
                let mut reads: Vec<ReadRec> = Vec::new();
                loop {
                    let all_done = sh.done.iter().all(|d| d.load(Ordering::SeqCst));
                    let mut failed = false;
                    for rel in RELS {
                        let acked: Vec<usize> = sh.acked.iter().map(|a| a.load(Ordering::SeqCst)).collect();
                        let res = guarded(|| read_arrangement(&sh.h.get_storage(), rel).and_then(|ts| to_rows(&ts))).unwrap_or_else(|p| Err(format!("panic escaped the API: {p}")));
                        let started: Vec<usize> = sh.started.iter().map(|a| a.load(Ordering::SeqCst)).collect();
                        failed |= res.is_err();
                        reads.push(ReadRec { rel, acked, started, res });
                    }
                    if all_done || failed {
                        break;
                    }
                    if reads.len() >= MAX_READS {
                        // enough samples: wait for the writers, then do the final round
                        while !sh.done.iter().all(|d| d.load(Ordering::SeqCst)) {
                            std::thread::sleep(Duration::from_millis(1));
                        }
                    }
                }
                log.lock().unwrap().reads = reads;
                let _ = tx.send(());
            })
            .map_err(|e| format!("spawn: {e}"))?;
    }
    drop(tx);
    let t0 = Instant::now();
    for _ in 0..(n + 1) {
        let left = STRESS_DEADLINE.checked_sub(t0.elapsed()).unwrap_or(Duration::ZERO);
        if rx.recv_timeout(left).is_err() {
            let snap = |v: &Vec<AtomicUsize>| v.iter().map(|a| a.load(Ordering::SeqCst)).collect::<Vec<_>>();
            let why = format!(
                "threads did not finish within {STRESS_DEADLINE:?} (writer ops started {:?}, acknowledged {:?}, of {:?}; writers done {:?}; writer errors {:?})",
                snap(&sh.started),
                snap(&sh.acked),
                c.writers.iter().map(Vec::len).collect::<Vec<_>>(),
                sh.done.iter().map(|d| d.load(Ordering::SeqCst)).collect::<Vec<_>>(),
                log.try_lock().map(|l| l.writer_errors.clone()).unwrap_or_default()
            );
            if std::env::var("VERIF_C19_DEBUG").is_ok() {
                eprintln!("C19DEBUG {why}\n  case: {}", serde_json::to_string(c).unwrap_or_default());
                // developer aid: backtraces of all threads of this process
                static DUMPED: AtomicBool = AtomicBool::new(false);
                if !DUMPED.swap(true, Ordering::SeqCst) {
                    let out = std::process::Command::new("gdb").args(["-p", &std::process::id().to_string(), "-batch", "-ex", "thread apply all bt 45"]).output();
                    if let Ok(o) = out {
                        let _ = std::fs::write("/tmp/c19.hang.txt", o.stdout);
                    }
                }
            }
            return Err(why);
        }
    }
    let out = std::mem::take(&mut *log.lock().unwrap());
    Ok(Ok(out))
}

type RelState = BTreeMap<String, BTreeSet<Row>>;

/// model states of one op sequence: states[k] = state after the first k ops
fn prefix_states(ops: &[Op]) -> Vec<RelState> {
    let mut m = SetModel::default();
    let mut out = vec![m.rels.clone()];
    for op in ops {
        m.apply(op);
        out.push(m.rels.clone());
    }
    out
}

/// messages of panics on incremental-worker threads of this process (the worker's panic is the
/// only place where the root cause of a "Worker disconnected" error is visible)
static WORKER_PANICS: Mutex<Vec<String>> = Mutex::new(Vec::new());

fn install_worker_panic_recorder() {
    static ONCE: std::sync::Once = std::sync::Once::new();
    ONCE.call_once(|| {
        let prev = std::panic::take_hook();
        std::panic::set_hook(Box::new(move |info| {
            if std::thread::current().name() == Some("incremental-worker") {
                if let Ok(mut g) = WORKER_PANICS.lock() {
                    if g.len() < 1000 {
                        g.push(format!("{info}"));
                    }
                }
            }
            prev(info);
        }));
    });
}

fn worker_died(msg: &str) -> bool {
    msg.contains("Worker disconnected")
}

/// signature of K_STALE_TIME: the failure is a "Worker disconnected" error, two writers were
/// racing, and every panic recorded on an incremental-worker thread of this process is the time
/// assertion of `InputSession::update_at`
fn classify_worker_death(c: &SCase, msg: &str) -> Option<&'static str> {
    if !worker_died(msg) || c.writers.iter().filter(|w| !w.is_empty()).count() < 2 {
        return None;
    }
    let g = WORKER_PANICS.lock().ok()?;
    if !g.is_empty() && g.iter().all(|m| m.contains("less_equal(&time)")) {
        Some(K_STALE_TIME)
    } else {
        None
    }
}

fn judge(c: &SCase, log: &StressLog, obs: &mut Obs) -> CheckResult {
    let case_text = || {
        format!(
            "setup: {} (incremental enabled {} the setup writes{})\n{}",
            describe(&c.pre),
            if c.enable_first { "before" } else { "after" },
            if c.via_index { ", via .index create" } else { "" },
            c.writers.iter().enumerate().map(|(i, w)| format!("writer {i}: {}", describe(w))).collect::<Vec<_>>().join("\n")
        )
    };
    let panics = || WORKER_PANICS.lock().map(|g| g.iter().rev().take(2).cloned().collect::<Vec<_>>()).unwrap_or_default();
    // the worker must never disconnect / error
    if let Some((i, k, e)) = log.writer_errors.first() {
        let mut f = Fail::new(
            if worker_died(e) {
                "incremental_worker_died"
            } else if e.starts_with("panic escaped") {
                "panic"
            } else {
                "write_failed"
            },
            format!("{}\nwriter {i} op {k} ({}) failed: {e}\nrecent incremental-worker panics in this process: {:?}", case_text(), c.writers[*i][*k].short(), panics()),
        );
        if let Some(k) = classify_worker_death(c, e) {
            f = f.known(k);
        }
        return Err(f);
    }
    if let Some(r) = log.reads.iter().find(|r| r.res.is_err()) {
        let e = r.res.as_ref().err().unwrap();
        let mut f = Fail::new(
            if worker_died(e) { "incremental_worker_died" } else { "consistent_read_failed" },
            format!("{}\nread_relation_consistent({}) failed: {e}\nrecent incremental-worker panics in this process: {:?}", case_text(), r.rel, panics()),
        );
        if let Some(k) = classify_worker_death(c, e) {
            f = f.known(k);
        }
        return Err(f);
    }
    let pre_state = prefix_states(&c.pre).pop().unwrap();
    let states: Vec<Vec<RelState>> = c.writers.iter().map(|w| prefix_states(w)).collect();
    let empty = BTreeSet::new();
    let mut overlapping = 0u64;
    let mut intermediate = 0u64;
    for (ri, r) in log.reads.iter().enumerate() {
        let rows = r.res.as_ref().unwrap();
        let set: BTreeSet<Row> = rows.iter().cloned().collect();
        let describe_read = || format!("{}\nread #{ri} of {}: acknowledged before the read {:?}, started when it returned {:?}, returned {rows:?}", case_text(), r.rel, r.acked, r.started);
        if set.len() != rows.len() {
            return Err(Fail::new("duplicate_tuple_in_consistent_read", describe_read()));
        }
        // rows nobody writes concurrently
        let got_pre: BTreeSet<Row> = set.iter().filter(|x| x[0] == PRE_KEY).cloned().collect();
        if &got_pre != pre_state.get(r.rel).unwrap_or(&empty) {
            return Err(Fail::new("untouched_rows_differ", format!("{}\nrows of the setup writes expected: {:?}", describe_read(), pre_state.get(r.rel).unwrap_or(&empty))));
        }
        if let Some(x) = set.iter().find(|x| x[0] != PRE_KEY && !(0..c.writers.len()).any(|i| x[0] == writer_key(i))) {
            return Err(Fail::new("unknown_row", format!("{}\nrow {x:?} was never written", describe_read())));
        }
        for i in 0..c.writers.len() {
            let got_i: BTreeSet<Row> = set.iter().filter(|x| x[0] == writer_key(i)).cloned().collect();
            let (lo, hi) = (r.acked[i], r.started[i].max(r.acked[i]));
            if hi > lo {
                overlapping += 1;
            }
            let hit = (lo..=hi).find(|k| states[i][*k].get(r.rel).unwrap_or(&empty) == &got_i);
            match hit {
                Some(k) => {
                    if k > 0 && k < c.writers[i].len() {
                        intermediate += 1;
                    }
                }
                None => {
                    let cands: Vec<String> = (lo..=hi).map(|k| format!("after {k} ops: {:?}", states[i][k].get(r.rel).unwrap_or(&empty))).collect();
                    return Err(Fail::new(
                        "read_matches_no_admissible_prefix",
                        format!("{}\nrows of writer {i} in the read: {got_i:?}; admissible states of writer {i} ({lo}..={hi} ops applied): {}", describe_read(), cands.join(" | ")),
                    ));
                }
            }
        }
    }
    obs.nontrivial = overlapping > 0;
    obs.class_if(intermediate > 0, "read_observed_intermediate_prefix");
    obs.class_if(!c.enable_first && !c.pre.is_empty(), "existing_data_replayed_at_enable");
    obs.class_if(c.via_index, "enabled_via_index_create");
    obs.count("consistent_reads", log.reads.len() as u64);
    obs.count("reads_overlapping_an_in_flight_write", overlapping);
    obs.sample = Some(json!({"setup": describe(&c.pre), "writers": c.writers.iter().map(|w| describe(w)).collect::<Vec<_>>(), "reads": log.reads.len()}));
    Ok(())
}

/// failures already observed in this process, per case: the part is scheduler-dependent, so a case
/// that failed once keeps its verdict when the runner re-evaluates it (after shrinking)
static OBSERVED_FAILURES: Mutex<BTreeMap<String, Fail>> = Mutex::new(BTreeMap::new());

pub fn check_stress(_ctx: &Ctx, c: &SCase, obs: &mut Obs) -> CheckResult {
    let key = serde_json::to_string(c).unwrap_or_default();
    if let Some(f) = OBSERVED_FAILURES.lock().unwrap().get(&key) {
        return Err(f.clone());
    }
    let panics_before = WORKER_PANICS.lock().map(|g| g.len()).unwrap_or(0);
    let res = match run_stress(c) {
        Err(why) => {
            // a hang is inconclusive, never a verdict (the threads are abandoned). Observed cause on
            // this tree: after the incremental worker died (K_STALE_TIME) a writer whose command was
            // already queued waits for its answer forever while holding the KG write lock.
            let panics_after = WORKER_PANICS.lock().map(|g| g.len()).unwrap_or(0);
            let tag = if panics_after > panics_before { "timeout (an incremental-worker thread of this process panicked meanwhile)" } else { "timeout" };
            obs.discard = Some(format!("{tag}: {why}"));
            Ok(())
        }
        Ok(Err(f)) => Err(f),
        Ok(Ok(log)) => judge(c, &log, obs),
    };
    if let Err(f) = &res {
        OBSERVED_FAILURES.lock().unwrap().insert(key, f.clone());
    }
    res
}

pub fn run(ctx: &Ctx) {
    let l = ctx.tier.pick(4, 5);
    ctx.set_rule(&format!(
        "exhaustive part: EVERY history of length 1..{l} over the 6-op alphabet {{insert a, insert b, delete a, delete b, bulk insert [a,a,b] on r0, \
         delete a on (never written) r1}} x EVERY enable point (before op 0 .. after the last op; KnowledgeGraph::enable_incremental); random part: \
         histories of up to 16 single/bulk inserts and deletes over 2 relations x 4 tuples (in-batch duplicates, re-inserts, absent deletes), \
         enable point generated, enabled via `.index create` through the Handler in 3/8 of the cases. After enabling and after every later \
         step IncrementalEngine::read_relation_consistent is read for BOTH relations; oracle: the returned Vec, sorted, equals the set model \
         exactly (a repeated tuple is a violation: the API returns plain tuples, so a multiplicity other than 1 shows as a repeated tuple or as a \
         tuple that survives its delete). Non-trivial = a duplicate insert / absent delete executed while incremental is enabled. \
         concurrent part (stress): 2 writer threads, each applying its own generated sequence of 6-20 inserts/deletes on rows only it touches \
         (both relations shared), 1 reader thread doing consistent reads of both relations in a loop, 0-3 setup writes on untouched rows before \
         or after enabling; oracle per read and per writer: the writer's rows in the read equal the model state after some prefix k of its ops \
         with acked_before_read <= k <= started_when_read_returned; untouched rows exact; no repeated tuple; no write or read may return an \
         error. Non-trivial = a read that overlapped an in-flight write. Distinct = distinct case."
    ));
    ctx.assume("arrangements are read through StorageEngine::with_kg_read -> KnowledgeGraph::incremental -> read_relation_consistent; base writes go through insert_tuples_into / delete_tuples_from");
    ctx.assume(
        "part concurrent_readers_writers depends on the OS scheduler: interleavings are sampled, not enumerated, so a pass is a sample only and the \
         part is not reproducible per seed; it cannot false-alarm (only definite contradictions of the per-writer prefix condition, repeated tuples \
         or returned errors are failures) and a run whose threads do not finish within 12 s is counted as discarded (inconclusive), never as a violation. \
         Observed on this tree: every such timeout followed a panic of the incremental worker (finding C19-late-write-kills-incremental-worker): a writer \
         whose command was already queued when the worker died waits for the answer forever while holding the KG write lock, and the reader then blocks on \
         the KG read lock",
    );
    install_worker_panic_recorder();
    ctx.run_enum("exhaustive_short_histories", enumerate(l), true, |c, o| check_history(ctx, c, o));
    ctx.run_part("random_histories", ctx.cases(1500, 20_000), random_history, |c, o| check_history(ctx, c, o));
    ctx.set_shrink_iters(24);
    ctx.run_part("concurrent_readers_writers", ctx.cases(400, 6000), stress_strategy, |c, o| check_stress(ctx, c, o));
}

pub fn replay(ctx: &Ctx, part: &str, case: &J) -> Option<Result<CheckResult, String>> {
    install_worker_panic_recorder();
    Some(match part {
        "exhaustive_short_histories" | "random_histories" => ctx.replay_case(part, case, |c: &ACase, o: &mut Obs| check_history(ctx, c, o)),
        "concurrent_readers_writers" => ctx.replay_case(part, case, |c: &SCase, o: &mut Obs| check_stress(ctx, c, o)),
        _ => return None,
    })
}
