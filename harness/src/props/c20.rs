//! C20 — reads observe a committed prefix. Schedule exploration (E4): writer threads issue
//! multi-tuple inserts / deletes and rule registrations, reader threads issue snapshot queries
//! (`execute_query_with_rules_tuples_on`); the recorded history must be linearizable against the
//! sequential model: every query answer equals the model's answer after some prefix of the writes
//! that contains every write acknowledged before the query was issued (so a thread sees its own
//! acknowledged writes) and no write issued after the query returned; a batch is one operation of
//! the model, so a partially applied batch has no explanation.

use crate::common::conc::{run_case, ConcCase};
use crate::common::gen::{tape_strategy, Tape};
use crate::common::lin::{self, render_history, Op, Res, Row, RuleKind, State};
use crate::common::{CheckResult, Ctx, Fail, Obs};
use proptest::prelude::*;
use serde_json::{json, Value as J};

pub const KG: &str = "default";
const RELS: [&str; 2] = ["r0", "r1"];
pub const TAPE_LEN: usize = 170;

fn rows_of(t: &mut Tape, k: usize) -> Vec<Row> {
    let dom: Vec<Row> = vec![vec![1, 1], vec![1, 2], vec![2, 1], vec![2, 3], vec![3, 1]];
    let mut rows = Vec::new();
    for _ in 0..k {
        let r = dom[t.below(dom.len())].clone();
        if !rows.contains(&r) {
            rows.push(r);
        }
    }
    rows
}

fn rule_of(t: &mut Tape) -> RuleKind {
    match t.below(3) {
        0 => RuleKind::Copy(RELS[t.below(2)].into()),
        1 => RuleKind::Join("r0".into(), "r1".into()),
        _ => RuleKind::Join("r0".into(), "r0".into()),
    }
}

pub fn decode(tape: &[u16]) -> ConcCase {
    let mut t = Tape::new(tape);
    let writers = 1 + t.below(2);
    let readers = 1 + t.below(2);
    // both base relations exist from the start (a relation nobody has written is unknown to the engine)
    let mut init: Vec<Op> = RELS.iter().map(|r| Op::Insert { kg: KG.into(), rel: r.to_string(), rows: vec![vec![9, 9]] }).collect();
    for _ in 0..t.below(3) {
        let k = 1 + t.below(3);
        init.push(Op::Insert { kg: KG.into(), rel: RELS[t.below(2)].into(), rows: rows_of(&mut t, k) });
    }
    if t.chance(1, 2) {
        init.push(Op::AddRule { kg: KG.into(), rule: rule_of(&mut t) });
    }
    let mut threads = Vec::new();
    for _ in 0..writers {
        let n = 1 + t.below(3);
        let mut ops = Vec::new();
        for _ in 0..n {
            let rel: String = RELS[t.below(2)].into();
            match t.below(8) {
                0..=3 => {
                    let k = 2 + t.below(3);
                    ops.push(Op::Insert { kg: KG.into(), rel, rows: rows_of(&mut t, k) });
                }
                4 | 5 => {
                    let k = 1 + t.below(3);
                    ops.push(Op::Delete { kg: KG.into(), rel, rows: rows_of(&mut t, k) });
                }
                6 => ops.push(Op::AddRule { kg: KG.into(), rule: rule_of(&mut t) }),
                _ => ops.push(Op::Query { kg: KG.into(), rel: if t.chance(1, 2) { "d".into() } else { rel } }),
            }
        }
        threads.push(ops);
    }
    for _ in 0..readers {
        let n = 1 + t.below(3);
        let mut ops = Vec::new();
        for _ in 0..n {
            let rel: String = if t.chance(1, 3) { "d".into() } else { RELS[t.below(2)].into() };
            ops.push(Op::Query { kg: KG.into(), rel });
        }
        threads.push(ops);
    }
    let free = t.chance(1, 6);
    let sticky = [0u16, 32768, 55705, 62259][t.below(4)];
    let schedule: Vec<u16> = (0..100).map(|_| t.next()).collect();
    ConcCase { buffer_size: 10_000, init, threads, schedule, free, sticky }
}

pub fn check(_ctx: &Ctx, c: &ConcCase, obs: &mut Obs) -> CheckResult {
    let out = run_case("c20", c, false).map_err(|e| Fail::new("harness_error", e))?;
    if out.info.stuck || out.info.deadlock {
        obs.discard = Some(if out.info.deadlock { "schedule ended in a lock cycle among parked threads (run released, not judged)".into() } else { "run made no progress (released, not judged)".into() });
        return Ok(());
    }
    // model state after the sequential prefix
    let mut init = State::with_kgs(&[KG]);
    for op in &c.init {
        lin::apply(&mut init, op);
    }
    let queries = out.history.iter().filter(|o| matches!(o.op, Op::Query { .. })).count();
    let multi = c.threads.iter().flatten().any(|o| matches!(o, Op::Insert { rows, .. } | Op::Delete { rows, .. } if rows.len() >= 2));
    // a query overlapped a write: it was invoked before the write returned and returned after the write was invoked
    let overlap = out.history.iter().any(|q| {
        matches!(q.op, Op::Query { .. })
            && out.history.iter().any(|w| {
                !matches!(w.op, Op::Query { .. }) && w.thread != q.thread && q.ret.as_ref().is_some_and(|r| r.0 > w.inv) && w.ret.as_ref().is_some_and(|r| r.0 > q.inv)
            })
    });
    let tr = &out.info.trace;
    let mid_write = (1..tr.len()).any(|i| (tr[i].site == "kg.insert_in_memory.applied" || tr[i].site == "kg.delete_in_memory.applied") && tr[i - 1].tid != tr[i].tid);
    obs.class_if(overlap, "a query overlaps a write of another thread");
    obs.class_if(mid_write, "another thread ran while a writer sat between applying a batch and publishing the snapshot");
    obs.class_if(out.history.iter().any(|o| matches!(&o.op, Op::Query { rel, .. } if rel == "d")), "query over the derived relation");
    obs.class_if(c.threads.iter().flatten().any(|o| matches!(o, Op::AddRule { .. })), "rule registered concurrently");
    obs.class(&format!("threads: {}", c.threads.len()));
    obs.class(if c.free { "mode: free-running threads (OS scheduler)".to_string() } else { format!("mode: generated schedule, stickiness {}%", c.sticky as u32 * 100 / 65536) }.as_str());
    obs.class_if(out.info.detach_events > 0, "a thread was detached (lock invisible to the hooks or long step)");
    obs.count("queries judged", queries as u64);
    obs.count("scheduling steps", out.info.steps as u64);
    obs.nontrivial = overlap && multi;
    obs.key = Some(format!("{:?}/{:?}", c.threads, tr.iter().map(|s| s.tid).collect::<Vec<_>>()));
    obs.sample = Some(json!({"case": c.text(), "switches": out.info.switches, "steps": out.info.steps}));
    let sched_txt = || tr.iter().map(|s| format!("T{}@{}", s.tid, s.site)).collect::<Vec<_>>().join(" ");
    if out.panicked {
        return Err(Fail::new("thread_panicked", format!("{}\nhistory:\n{}", c.text(), render_history(&out.history))));
    }
    for o in &out.history {
        if let Some((_, Res::Err(e))) = &o.ret {
            return Err(Fail::new("operation_failed", format!("{}\nT{} {} failed: {e}", c.text(), o.thread, o.op.text())));
        }
    }
    // the served state at the end is one more read
    let served = out.served.as_ref().map_err(|e| Fail::new("served_state_unreadable", e.clone()))?;
    let ok = lin::linearize(&init, &out.history, &|s| {
        let (mut a, mut b) = (s.clone(), served.clone());
        a.normalise();
        b.normalise();
        a.kgs == b.kgs
    });
    if ok.is_none() {
        // which query has no explanation? (drop queries one at a time for the message)
        let mut culprit = String::new();
        for (i, o) in out.history.iter().enumerate() {
            if matches!(o.op, Op::Query { .. }) {
                let mut h2 = out.history.clone();
                h2[i].ret = None;
                if lin::linearize(&init, &h2, &|_| true).is_some() {
                    culprit = format!("without the answer of `T{} {}` -> {:?} the history is explainable", o.thread, o.op.text(), o.ret.as_ref().map(|r| &r.1));
                    break;
                }
            }
        }
        return Err(Fail::new(
            "history_not_linearizable",
            format!("{}\nno order of the operations that respects real time explains every query answer and the final served state {}\n{culprit}\nhistory:\n{}\nschedule: {}", c.text(), served.render(), render_history(&out.history), sched_txt()),
        ));
    }
    Ok(())
}

pub fn run(ctx: &Ctx) {
    ctx.set_rule("non-trivial = some query overlaps (in real time) a write of another thread and the case has a multi-tuple batch; classes count the schedules in which another thread runs while a writer sits between applying its batch in memory and publishing the snapshot");
    ctx.assume("the harness owns the interleaving only at the feature-guarded sites (verif-hooks); query evaluation itself runs on the engine's worker threads, uncontrolled");
    ctx.assume("a multi-tuple insert/delete is one atomic operation of the model and errors are compared by class; query answers are compared as sets");
    ctx.set_shrink_iters(100);
    ctx.run_part("schedules_readers_writers", ctx.cases(2000, 30_000), || tape_strategy(TAPE_LEN).prop_map(|t| decode(&t)), |c, o| check(ctx, c, o));
}

pub fn replay(ctx: &Ctx, part: &str, case: &J) -> Option<Result<CheckResult, String>> {
    Some(match part {
        "schedules_readers_writers" => ctx.replay_case(part, case, |c: &ConcCase, o: &mut Obs| check(ctx, c, o)),
        _ => return None,
    })
}
