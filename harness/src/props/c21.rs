//! C21 — every proof tree returned by `.why` is a valid derivation (re-validated step by step
//! against the rules, the stored facts and the reference model R1).
//!
//! This module also holds what C22 and C23 share: the generator options, loading a generated
//! program (persistent rules + facts) into a `Handler`, and fetching answers + proof trees.

use crate::common::eng::{short_err, value_key};
use crate::common::gen::{case_strategy, features, handler_style_expected, shrink_case, Case, GenOpts};
use crate::common::prog::{self, var_name, Atom, Clause, KRow, Lit, Model, HT, T};
use crate::common::store::{block_on, itup, open_handler, result_messages, result_tuples, Scratch, KG};
use crate::common::{CheckResult, Ctx, Fail, Obs};
use inputlayer::protocol::Handler;
use inputlayer::provenance::proof_tree::{FactSource, NodeKind, ProofNode, ProofTree};
use serde_json::{json, Value as J};
use std::collections::{BTreeMap, BTreeSet};

pub const K_NEG_DERIVED: &str = "C21-negation-leaf-ignores-derived-facts";
pub const K_REPEATED: &str = "C21-repeated-variable-in-derived-body-atom";

/// the row violates the atom's own repeated-variable constraint (two positions of one variable
/// hold different values)
fn violates_repeated_var(a: &Atom, row: &KRow) -> bool {
    let mut seen: BTreeMap<u8, (i64, i64)> = BTreeMap::new();
    a.args.iter().zip(row).any(|(t, v)| match t {
        T::V(x) => *seen.entry(*x).or_insert(*v) != *v,
        _ => false,
    })
}

/// positive / negation / self-recursive programs, no aggregates, no arithmetic, small EDBs
pub fn gen_opts() -> GenOpts {
    GenOpts { aggregates: false, arithmetic: false, mutual_recursion: false, max_idb: 4, max_edb_rows: 6, dom: 5, ..Default::default() }
}

pub struct Setup {
    _sc: Scratch,
    pub h: Handler,
}

/// per-request limit inside the fetch child (the handler's own query timeout)
pub const WHY_TIMEOUT_MS: u64 = 3000;

/// Facts through `StorageEngine::insert_tuples_into`, every clause except the generated query
/// clause as a persistent rule (`parse_rule_definition` + `StorageEngine::register_rule_in`, as
/// C01's storage part does; a `+clause` statement per rule through the handler costs ~10 ms each).
/// `Err("REJECT ...")`: the engine refused the generated input (case is discarded).
pub fn load(case: &Case, tag: &str, timeout_ms: u64) -> Result<Setup, String> {
    let sc = Scratch::new(tag);
    let h = open_handler(&sc.path, |c| {
        if timeout_ms > 0 {
            c.storage.performance.query_timeout_ms = timeout_ms;
        }
    })?;
    for (rel, rows) in &case.edb {
        if rows.is_empty() {
            continue;
        }
        h.get_storage().insert_tuples_into(KG, rel, rows.iter().map(|r| itup(r)).collect()).map_err(|e| format!("insert: {e}"))?;
    }
    let n = case.prog.clauses.len();
    {
        let st = h.get_storage();
        for c in &case.prog.clauses[..n - 1] {
            let def = inputlayer::statement::parse_rule_definition(&c.text()).map_err(|e| format!("REJECT parse_rule_definition: {e}"))?;
            st.register_rule_in(KG, &def).map_err(|e| format!("REJECT register_rule: {e}"))?;
        }
    }
    Ok(Setup { _sc: sc, h })
}

pub fn idb_rels(case: &Case) -> Vec<String> {
    let n = case.prog.clauses.len();
    let mut v: Vec<String> = Vec::new();
    for c in &case.prog.clauses[..n - 1] {
        if !v.contains(&c.head) {
            v.push(c.head.clone());
        }
    }
    v
}

pub fn rules_of<'a>(case: &'a Case, rel: &str) -> Vec<&'a Clause> {
    let n = case.prog.clauses.len();
    case.prog.clauses[..n - 1].iter().filter(|c| c.head == rel).collect()
}

/// The `.why` goals of a case: `rel(A, B, ..)` for every derived relation, plus the generated
/// query's goal when it binds constants / repeats a variable (magic-set path).
/// (relation, goal text, all arguments distinct variables)
pub fn goals_of(case: &Case) -> Vec<(String, String, bool)> {
    let mut goals = Vec::new();
    for rel in idb_rels(case) {
        let ar = case.arity.get(&rel).copied().unwrap_or(0);
        let goal = format!("{rel}({})", (0..ar).map(|i| var_name(i as u8)).collect::<Vec<_>>().join(", "));
        goals.push((rel, goal, true));
    }
    if let Some(Lit::Pos(g)) = case.prog.query().body.first() {
        let vars: Vec<&T> = g.args.iter().filter(|t| matches!(t, T::V(_))).collect();
        let distinct: BTreeSet<&T> = vars.iter().copied().collect();
        if vars.len() != g.args.len() || distinct.len() != vars.len() {
            goals.push((g.rel.clone(), g.text(), false));
        }
    }
    goals
}

// ------------------------------------------------------------------------------------------------
// Fetching answers + proof trees in a child process.
//
// The backward chainer has no cancellation point: on some recursive programs `.why` searches for
// (practically) ever. The handler then answers "Query execution timed out" but its worker thread
// keeps spinning. Cases are therefore fetched by a worker child of this binary, one per runner
// thread (`check __c21`: case JSON lines on stdin, result JSON lines on stdout; starting the
// binary costs ~0.4 s, so the worker is reused). A worker retires after any request that ran
// into the limit, so the spinning thread dies with it.

#[derive(Clone, Debug, serde::Serialize, serde::Deserialize)]
pub struct FView {
    pub rel: String,
    pub goal: String,
    pub all_vars: bool,
    /// `.why ?goal`: result rows paired with their proof trees
    pub why_rows: Option<Vec<(KRow, ProofTree)>>,
    /// `.why ?goal` produced no trees: the reason
    pub why_err: Option<String>,
    /// result row count of `.why` when it carried no trees
    pub why_plain_rows: usize,
    /// plain `?goal` (only asked when `.why` gave no trees)
    pub plain_rows: Option<Vec<KRow>>,
    pub plain_err: Option<String>,
    pub why_ms: u64,
}

#[derive(Clone, Debug, Default, serde::Serialize, serde::Deserialize)]
pub struct Fetched {
    pub reject: Option<String>,
    pub setup_fail: Option<String>,
    pub views: Vec<FView>,
}

fn krows(ts: &[inputlayer::value::Tuple]) -> Result<Vec<KRow>, String> {
    ts.iter().map(crate::common::eng::tuple_key).collect()
}

/// runs inside the child
fn fetch_here(case: &Case) -> Fetched {
    let mut out = Fetched::default();
    let setup = match load(case, "c21", WHY_TIMEOUT_MS) {
        Ok(s) => s,
        Err(e) if e.starts_with("REJECT") => {
            out.reject = Some(e);
            return out;
        }
        Err(e) => {
            out.setup_fail = Some(e);
            return out;
        }
    };
    for (rel, goal, all_vars) in goals_of(case) {
        let mut v = FView { rel, goal: goal.clone(), all_vars, why_rows: None, why_err: None, why_plain_rows: 0, plain_rows: None, plain_err: None, why_ms: 0 };
        let t0 = std::time::Instant::now();
        let res = block_on(setup.h.query_program(Some(KG.to_string()), format!(".why ?{goal}")));
        v.why_ms = t0.elapsed().as_millis() as u64;
        match res {
            Err(e) => v.why_err = Some(format!("Err: {e}")),
            Ok(r) => match r.proof_trees.clone() {
                None => {
                    v.why_plain_rows = r.rows.len();
                    v.why_err = Some(format!("no proof_trees in the result; rows: {}", result_messages(&r).join(" | ")));
                }
                Some(trees) => {
                    let rows = result_tuples(&r);
                    if rows.len() != trees.len() {
                        v.why_err = Some(format!("{} result rows but {} proof trees", rows.len(), trees.len()));
                    } else {
                        match krows(&rows) {
                            Ok(ks) => v.why_rows = Some(ks.into_iter().zip(trees).collect()),
                            Err(e) => v.why_err = Some(format!("non-numeric answer: {e}")),
                        }
                    }
                }
            },
        }
        if v.why_rows.is_none() {
            match block_on(setup.h.query_program(Some(KG.to_string()), format!("?{goal}"))) {
                Err(e) => v.plain_err = Some(e),
                Ok(r) => match krows(&result_tuples(&r)) {
                    Ok(ks) => v.plain_rows = Some(ks),
                    Err(e) => v.plain_err = Some(e),
                },
            }
        }
        out.views.push(v);
    }
    out
}

/// Worker loop of the fetch child: one case (JSON line) in, one `Fetched` (JSON line) out.
/// After a request in which the handler reported a timeout the worker retires (exits), so that
/// the proof-search thread it leaked does not keep burning a core; the parent starts a new one.
pub fn child_main(_args: &[String]) -> i32 {
    use std::io::{BufRead, Write};
    let stdin = std::io::stdin();
    let stdout = std::io::stdout();
    for line in stdin.lock().lines() {
        let Ok(line) = line else { break };
        if line.trim().is_empty() {
            continue;
        }
        let f = match serde_json::from_str::<Case>(&line) {
            Ok(case) => crate::common::runner::guarded(|| fetch_here(&case)).unwrap_or_else(|m| Fetched { setup_fail: Some(format!("panic escaped the API: {m}")), ..Default::default() }),
            Err(e) => Fetched { setup_fail: Some(format!("bad case: {e}")), ..Default::default() },
        };
        let retire = f.views.iter().any(|v| v.why_ms >= WHY_TIMEOUT_MS || v.why_err.as_deref().is_some_and(|e| e.contains("timed out")) || v.plain_err.as_deref().is_some_and(|e| e.contains("timed out")));
        let mut out = stdout.lock();
        if writeln!(out, "{}", serde_json::to_string(&f).unwrap_or_default()).is_err() || out.flush().is_err() {
            break;
        }
        drop(out);
        if retire {
            std::process::exit(0);
        }
    }
    std::process::exit(0);
}

struct Worker {
    child: std::process::Child,
    stdin: std::process::ChildStdin,
    lines: std::sync::mpsc::Receiver<String>,
}

impl Worker {
    fn spawn() -> Result<Worker, String> {
        use std::io::BufRead;
        use std::process::{Command, Stdio};
        let exe = std::env::current_exe().map_err(|e| format!("current_exe: {e}"))?;
        let mut child = Command::new(exe).arg("__c21").stdin(Stdio::piped()).stdout(Stdio::piped()).stderr(Stdio::null()).spawn().map_err(|e| format!("child spawn failed: {e}"))?;
        let stdin = child.stdin.take().ok_or("no child stdin")?;
        let stdout = child.stdout.take().ok_or("no child stdout")?;
        let (tx, rx) = std::sync::mpsc::channel();
        std::thread::spawn(move || {
            for l in std::io::BufReader::new(stdout).lines() {
                match l {
                    Ok(l) => {
                        if tx.send(l).is_err() {
                            break;
                        }
                    }
                    Err(_) => break,
                }
            }
        });
        Ok(Worker { child, stdin, lines: rx })
    }
}

impl Drop for Worker {
    fn drop(&mut self) {
        let _ = self.child.kill();
        let _ = self.child.wait();
    }
}

thread_local! {
    static WORKER: std::cell::RefCell<Option<Worker>> = const { std::cell::RefCell::new(None) };
}

/// Err = the case cannot be judged (reason)
fn fetch(case: &Case) -> Result<Fetched, String> {
    use std::io::Write;
    let req = format!("{}\n", serde_json::to_string(case).map_err(|e| e.to_string())?);
    // worst case: every goal's `.why` and plain query run into the request limit
    let limit = std::time::Duration::from_millis(WHY_TIMEOUT_MS * 2 * 6 + 5000);
    WORKER.with(|w| {
        let mut slot = w.borrow_mut();
        for attempt in 0..2 {
            if slot.is_none() {
                *slot = Some(Worker::spawn()?);
            }
            let wk = slot.as_mut().unwrap();
            if wk.stdin.write_all(req.as_bytes()).and_then(|_| wk.stdin.flush()).is_err() {
                // the worker retired after a timeout (or died): start a fresh one, once
                *slot = None;
                if attempt == 0 {
                    continue;
                }
                return Err("fetch worker not reachable".to_string());
            }
            return match wk.lines.recv_timeout(limit) {
                Ok(line) => serde_json::from_str(&line).map_err(|e| format!("fetch worker result does not parse: {e}")),
                Err(std::sync::mpsc::RecvTimeoutError::Timeout) => {
                    *slot = None; // kills the worker
                    Err("fetch worker exceeded its wall-clock limit (inconclusive)".to_string())
                }
                Err(std::sync::mpsc::RecvTimeoutError::Disconnected) => {
                    *slot = None;
                    if attempt == 0 {
                        // retired between two requests without having read this one
                        continue;
                    }
                    Err("fetch worker died without a result (abort / memory)".to_string())
                }
            };
        }
        Err("fetch worker not reachable".to_string())
    })
}

/// One `.why` request: a goal over a derived relation, the reference rows it must return, and
/// what came back (rows paired with their proof trees, or the error text).
pub struct View {
    pub rel: String,
    pub goal: String,
    pub all_vars: bool,
    pub expected: BTreeSet<KRow>,
    pub why: Result<Vec<(KRow, ProofTree)>, String>,
    pub why_ms: u64,
}

pub struct Prepared {
    pub model: Model,
    pub views: Vec<View>,
    /// derived relations (every head except the generated query head `q`), program order
    pub idb: Vec<String>,
}

/// Fetch (in a child process), check that the engine's answers equal R1's for every goal (else
/// the case is discarded: `Ok(None)` with `obs.discard` set).
pub fn prepare(case: &Case, obs: &mut Obs) -> Result<Option<Prepared>, Fail> {
    let model = match prog::eval(&case.prog.clauses, &case.edb) {
        Ok(m) => m,
        Err(e) => {
            obs.discard = Some(format!("reference: {e:?}"));
            return Ok(None);
        }
    };
    let fetched = match fetch(case) {
        Ok(f) => f,
        Err(why) => {
            obs.discard = Some(why);
            return Ok(None);
        }
    };
    if let Some(e) = fetched.reject {
        obs.discard = Some(format!("engine_error: {}", short_err(&e)));
        return Ok(None);
    }
    if let Some(e) = fetched.setup_fail {
        return Err(Fail::new("setup_failed", e));
    }
    let idb = idb_rels(case);
    let mut views = Vec::new();
    for fv in fetched.views {
        let expected: BTreeSet<KRow> = if fv.all_vars { model.db.get(&fv.rel).cloned().unwrap_or_default() } else { handler_style_expected(case, &model) };
        let why = match (fv.why_rows, fv.why_err) {
            (Some(pairs), _) => {
                let got: BTreeSet<KRow> = pairs.iter().map(|(k, _)| k.clone()).collect();
                if got != expected {
                    obs.discard = Some("`.why` rows differ from the reference answer (C01's business)".into());
                    return Ok(None);
                }
                Ok(pairs)
            }
            (None, err) => {
                // no trees: judged only if the plain query answers the goal like R1
                match (&fv.plain_rows, &fv.plain_err) {
                    (Some(rows), _) => {
                        if rows.iter().cloned().collect::<BTreeSet<KRow>>() != expected {
                            obs.discard = Some("query answer differs from the reference model (C01's business)".into());
                            return Ok(None);
                        }
                    }
                    (None, e) => {
                        obs.discard = Some(format!("engine_error: {}", short_err(e.as_deref().unwrap_or("?"))));
                        return Ok(None);
                    }
                }
                if expected.is_empty() {
                    Ok(vec![]) // nothing to explain (the handler returns an empty result without trees)
                } else {
                    Err(err.unwrap_or_default())
                }
            }
        };
        views.push(View { rel: fv.rel, goal: fv.goal, all_vars: fv.all_vars, expected, why, why_ms: fv.why_ms });
    }
    Ok(Some(Prepared { model, views, idb }))
}

// ------------------------------------------------------------------------------------------------
// Tree validation

pub fn norm(s: &str) -> String {
    s.chars().filter(|c| !c.is_whitespace()).collect()
}

fn var_of(name: &str) -> Option<u8> {
    let b = name.as_bytes();
    if b.len() == 1 && b[0].is_ascii_uppercase() {
        Some(b[0] - b'A')
    } else {
        None
    }
}

pub fn args_key(node: &ProofNode) -> Result<KRow, String> {
    node.conclusion.args.iter().map(value_key).collect()
}

fn fmt_row(rel: &str, r: &KRow) -> String {
    format!("{rel}({})", r.iter().map(|k| k.0.to_string()).collect::<Vec<_>>().join(", "))
}

/// A term of a reported pattern ("3", "B", "_placeholder_17").
#[derive(Clone, Debug, PartialEq)]
pub enum PT {
    Val(i64),
    Name(String),
}

pub fn parse_pattern(s: &str) -> Vec<PT> {
    if s.trim().is_empty() {
        return vec![];
    }
    s.split(',')
        .map(|p| {
            let p = p.trim();
            match p.parse::<i64>() {
                Ok(i) => PT::Val(i),
                Err(_) => PT::Name(p.to_string()),
            }
        })
        .collect()
}

/// first row of `rel` in the reference model matching the pattern (repeated names must agree)
pub fn pattern_match(model: &Model, rel: &str, pat: &[PT]) -> Option<KRow> {
    let rows = model.db.get(rel)?;
    'row: for row in rows {
        if row.len() != pat.len() {
            continue;
        }
        let mut env: BTreeMap<&str, (i64, i64)> = BTreeMap::new();
        for (p, v) in pat.iter().zip(row) {
            match p {
                PT::Val(i) => {
                    if (*i, 0) != *v {
                        continue 'row;
                    }
                }
                PT::Name(n) => {
                    if let Some(b) = env.get(n.as_str()) {
                        if b != v {
                            continue 'row;
                        }
                    } else {
                        env.insert(n.as_str(), *v);
                    }
                }
            }
        }
        return Some(row.clone());
    }
    None
}

#[derive(Default, Clone)]
pub struct Stats {
    pub trees: u64,
    pub rule_nodes: u64,
    pub edb_leaves: u64,
    pub neg_leaves: u64,
    pub comparisons: u64,
    pub derived_leaves: u64,
    pub truncated: u64,
    pub max_rule_depth: usize,
    pub head_const_or_repeat_used: bool,
    /// Rule nodes present in the returned graph but not reachable from its root
    pub other_rule_nodes: u64,
    pub other_rule_nodes_invalid: u64,
}

pub struct TreeCtx<'a> {
    pub case: &'a Case,
    pub model: &'a Model,
    pub idb: &'a [String],
}

fn head_const_or_repeat(c: &Clause) -> bool {
    let mut seen = BTreeSet::new();
    c.hargs.iter().any(|h| match h {
        HT::C(_) => true,
        HT::V(v) => !seen.insert(*v),
        _ => false,
    })
}

struct Walk<'a> {
    tc: &'a TreeCtx<'a>,
    tree: &'a ProofTree,
    path: Vec<String>,
    /// node id -> number of rule steps on the longest branch below (memo; also "validated")
    done: BTreeMap<String, usize>,
    fails: Vec<Fail>,
    st: Stats,
    what: String,
}

impl<'a> Walk<'a> {
    fn fail(&mut self, kind: &str, detail: String, known: Option<&str>) {
        let mut f = Fail::new(kind, format!("{}: {detail}", self.what));
        if let Some(k) = known {
            f = f.known(k);
        }
        self.fails.push(f);
    }

    fn node(&mut self, id: &str) -> usize {
        if let Some(d) = self.done.get(id) {
            return *d;
        }
        if self.path.iter().any(|p| p == id) {
            self.fail("cyclic_proof", format!("node {id} is its own premise (path {:?})", self.path), None);
            return 0;
        }
        let Some(n) = self.tree.nodes.get(id) else {
            self.fail("dangling_child", format!("node id {id} is referenced but not present in the tree"), None);
            return 0;
        };
        self.path.push(id.to_string());
        let d = match n.kind {
            NodeKind::Rule => self.rule_node(id, n),
            NodeKind::Fact => {
                self.fact_node(id, n);
                0
            }
            NodeKind::Truncated => {
                self.st.truncated += 1;
                0
            }
            NodeKind::Negation => 0, // judged where it is used (needs the parent's clause)
            _ => {
                self.fail("unexpected_node_kind", format!("node {id} has kind {:?} (no aggregates / vector search / why-not in the generated programs)", n.kind), None);
                0
            }
        };
        self.path.pop();
        self.done.insert(id.to_string(), d);
        d
    }

    fn fact_node(&mut self, id: &str, n: &ProofNode) {
        let row = match args_key(n) {
            Ok(r) => r,
            Err(e) => return self.fail("non_numeric_value", format!("node {id}: {e}"), None),
        };
        if !n.children.is_empty() {
            self.fail("fact_with_premises", format!("fact node {id} {} has children", fmt_row(&n.conclusion.pred, &row)), None);
        }
        match n.source {
            Some(FactSource::Derived) => self.st.derived_leaves += 1,
            // source absent: the documented meaning of a [base] node is the same
            Some(FactSource::Edb) | None => {
                self.st.edb_leaves += 1;
                let stored = self.tc.case.edb.get(&n.conclusion.pred).is_some_and(|rows| rows.iter().any(|r| prog::krow_ints(r) == row));
                if !stored {
                    self.fail(
                        "edb_leaf_not_stored",
                        format!("node {id}: base-fact leaf {} is not a stored fact (stored: {:?})", fmt_row(&n.conclusion.pred, &row), self.tc.case.edb.get(&n.conclusion.pred)),
                        None,
                    );
                }
            }
        }
    }

    fn rule_node(&mut self, id: &str, n: &ProofNode) -> usize {
        self.st.rule_nodes += 1;
        let pred = n.conclusion.pred.clone();
        let concl = match args_key(n) {
            Ok(r) => r,
            Err(e) => {
                self.fail("non_numeric_value", format!("node {id}: {e}"), None);
                return 1;
            }
        };
        let rid = n.rule_id.clone().unwrap_or_default();
        let cands = rules_of(self.tc.case, &pred);
        let Some(clause) = cands.iter().find(|c| norm(&c.text()) == norm(&rid)).copied() else {
            self.fail(
                "rule_id_not_a_clause",
                format!("rule node {id} for {} names rule `{rid}`, which is not a clause of {pred} (clauses: {:?})", fmt_row(&pred, &concl), cands.iter().map(|c| c.text()).collect::<Vec<_>>()),
                None,
            );
            // children are still validated on their own
            let kids = n.children.clone();
            let mut d = 0;
            for k in &kids {
                d = d.max(self.node(k));
            }
            return d + 1;
        };
        if head_const_or_repeat(clause) {
            self.st.head_const_or_repeat_used = true;
        }
        let mut env: BTreeMap<u8, (i64, i64)> = BTreeMap::new();
        if let Some(b) = &n.bindings {
            for (k, v) in b {
                if let Some(x) = var_of(k) {
                    match value_key(v) {
                        Ok(kv) => {
                            env.insert(x, kv);
                        }
                        Err(e) => self.fail("non_numeric_value", format!("node {id} binding {k}: {e}"), None),
                    }
                }
            }
        }
        let here = format!("rule node {id} {} by `{}` under bindings {:?}", fmt_row(&pred, &concl), clause.text(), env.iter().map(|(k, v)| format!("{}={}", var_name(*k), v.0)).collect::<Vec<_>>());
        // head instantiates to the conclusion
        if clause.hargs.len() != concl.len() {
            self.fail("head_mismatch", format!("{here}: head arity {} but conclusion arity {}", clause.hargs.len(), concl.len()), None);
        } else {
            for (i, h) in clause.hargs.iter().enumerate() {
                let want = match h {
                    HT::V(v) => env.get(v).copied(),
                    HT::C(k) => Some((*k, 0)),
                    _ => None,
                };
                if want != Some(concl[i]) {
                    self.fail("head_mismatch", format!("{here}: head argument {i} instantiates to {want:?}, the conclusion has {:?}", concl[i]), None);
                    break;
                }
            }
        }
        // body literals against the children, in order
        let kids = n.children.clone();
        let mut ki = 0usize;
        let mut depth = 0usize;
        for (li, l) in clause.body.iter().enumerate() {
            match l {
                Lit::Pos(a) => {
                    let Some(cid) = kids.get(ki) else {
                        self.fail("missing_premise", format!("{here}: no child for body literal {li} `{}` ({} children)", l.text(), kids.len()), None);
                        break;
                    };
                    ki += 1;
                    let Some(ch) = self.tree.nodes.get(cid) else {
                        self.fail("dangling_child", format!("{here}: child {cid} missing"), None);
                        continue;
                    };
                    if !matches!(ch.kind, NodeKind::Fact | NodeKind::Rule | NodeKind::Truncated) {
                        self.fail("premise_mismatch", format!("{here}: child {cid} for positive literal `{}` has kind {:?}", l.text(), ch.kind), None);
                        continue;
                    }
                    match args_key(ch) {
                        Ok(row) => {
                            if let Some(why) = atom_instance_mismatch(a, &env, &ch.conclusion.pred, &row) {
                                // narrow signature: atom over a DERIVED relation whose repeated variable is not respected
                                let known = if self.tc.idb.contains(&a.rel) && a.rel == ch.conclusion.pred && violates_repeated_var(a, &row) { Some(K_REPEATED) } else { None };
                                self.fail("premise_mismatch", format!("{here}: body literal {li} `{}` vs child {cid} {}: {why}", l.text(), fmt_row(&ch.conclusion.pred, &row)), known);
                            }
                        }
                        Err(e) => self.fail("non_numeric_value", format!("node {cid}: {e}"), None),
                    }
                    depth = depth.max(self.node(cid));
                }
                Lit::Neg(a) => {
                    let Some(cid) = kids.get(ki) else {
                        self.fail("missing_premise", format!("{here}: no child for negated literal {li} `{}` ({} children)", l.text(), kids.len()), None);
                        break;
                    };
                    ki += 1;
                    let Some(ch) = self.tree.nodes.get(cid) else {
                        self.fail("dangling_child", format!("{here}: child {cid} missing"), None);
                        continue;
                    };
                    if ch.kind != NodeKind::Negation {
                        self.fail("premise_mismatch", format!("{here}: child {cid} for negated literal `{}` has kind {:?}", l.text(), ch.kind), None);
                        continue;
                    }
                    self.st.neg_leaves += 1;
                    let pat_s = ch.negation.as_ref().map(|x| x.pattern.clone()).unwrap_or_default();
                    let pat = parse_pattern(&pat_s);
                    if let Some(why) = pattern_instance_mismatch(a, &env, &ch.conclusion.pred, &pat) {
                        self.fail("negation_leaf_mismatch", format!("{here}: negated literal {li} `{}` vs negation leaf {cid} {}({pat_s}): {why}", l.text(), ch.conclusion.pred), None);
                    }
                    if let Some(m) = pattern_match(self.tc.model, &ch.conclusion.pred, &pat) {
                        let rel = ch.conclusion.pred.clone();
                        let derived = self.tc.idb.contains(&rel);
                        let stored = self.tc.case.edb.get(&rel).is_some_and(|rows| rows.iter().any(|r| prog::krow_ints(r) == m));
                        // narrow signature: the matching fact is a DERIVED fact that is not also stored
                        let known = if derived && !stored { Some(K_NEG_DERIVED) } else { None };
                        self.fail(
                            "negation_leaf_has_match",
                            format!(
                                "{here}: negation leaf {cid} claims no fact matches {rel}({pat_s}), but {} holds ({})",
                                fmt_row(&rel, &m),
                                if derived { "derived fact of the reference model, also returned by the engine for this relation" } else { "stored fact" }
                            ),
                            known,
                        );
                    }
                    let _ = self.node(cid);
                }
                Lit::Cmp(x, op, y) => {
                    self.st.comparisons += 1;
                    let val = |t: &T| match t {
                        T::V(v) => env.get(v).copied(),
                        T::C(c) => Some((*c, 0)),
                        T::W => None,
                    };
                    match (val(x), val(y)) {
                        (Some(p), Some(q)) => {
                            if !op.holds(p, q) {
                                self.fail("comparison_false", format!("{here}: comparison `{}` is false ({} vs {})", l.text(), p.0, q.0), None);
                            }
                        }
                        _ => self.fail("comparison_unbound", format!("{here}: comparison `{}` has an operand without binding", l.text()), None),
                    }
                }
                Lit::Bind(..) => {}
            }
        }
        if ki < kids.len() {
            self.fail("extra_premise", format!("{here}: {} children but the body has only {ki} atoms", kids.len()), None);
            for k in &kids[ki..] {
                depth = depth.max(self.node(k));
            }
        }
        depth + 1
    }
}

/// why `row` of `pred` is not the instance of `a` under `env` (None = it is)
fn atom_instance_mismatch(a: &Atom, env: &BTreeMap<u8, (i64, i64)>, pred: &str, row: &KRow) -> Option<String> {
    if a.rel != pred {
        return Some(format!("relation {pred} instead of {}", a.rel));
    }
    if a.args.len() != row.len() {
        return Some(format!("arity {} instead of {}", row.len(), a.args.len()));
    }
    for (i, (t, v)) in a.args.iter().zip(row).enumerate() {
        match t {
            T::W => {}
            T::C(c) => {
                if (*c, 0) != *v {
                    return Some(format!("argument {i} is {} but the atom has constant {c}", v.0));
                }
            }
            T::V(x) => match env.get(x) {
                None => return Some(format!("variable {} has no binding", var_name(*x))),
                Some(b) => {
                    if b != v {
                        return Some(format!("argument {i} is {} but {}={}", v.0, var_name(*x), b.0));
                    }
                }
            },
        }
    }
    None
}

/// why the reported pattern is not the instance of the (negated / failed) atom under `env`;
/// variables without binding and `_` may appear as names
pub fn pattern_instance_mismatch(a: &Atom, env: &BTreeMap<u8, (i64, i64)>, pred: &str, pat: &[PT]) -> Option<String> {
    if a.rel != pred {
        return Some(format!("relation {pred} instead of {}", a.rel));
    }
    if a.args.len() != pat.len() {
        return Some(format!("pattern has {} terms, the atom {}", pat.len(), a.args.len()));
    }
    for (i, (t, p)) in a.args.iter().zip(pat).enumerate() {
        match (t, p) {
            (T::W, _) => {}
            (T::C(c), PT::Val(v)) if c == v => {}
            (T::C(c), _) => return Some(format!("term {i} is {p:?} but the atom has constant {c}")),
            (T::V(x), PT::Val(v)) => {
                if let Some(b) = env.get(x) {
                    if b.0 != *v {
                        return Some(format!("term {i} is {v} but {}={}", var_name(*x), b.0));
                    }
                }
            }
            (T::V(x), PT::Name(_)) => {
                if let Some(b) = env.get(x) {
                    return Some(format!("term {i} is left open but {}={}", var_name(*x), b.0));
                }
            }
        }
    }
    None
}

/// Validate one tree for answer tuple `row` of `rel`. Returns all failures found.
pub fn check_tree(tc: &TreeCtx, rel: &str, row: &KRow, tree: &ProofTree, goal: &str, st: &mut Stats) -> Vec<Fail> {
    let mut w = Walk { tc, tree, path: vec![], done: BTreeMap::new(), fails: vec![], st: Stats::default(), what: format!("`.why ?{goal}` tree for {}", fmt_row(rel, row)) };
    w.st.trees = 1;
    if tree.roots.len() != 1 {
        w.fail("root_mismatch", format!("{} roots (one per explained tuple expected)", tree.roots.len()), None);
    }
    if let Some(rid) = tree.roots.first() {
        match tree.nodes.get(rid) {
            None => w.fail("dangling_child", format!("root id {rid} not present"), None),
            Some(root) => {
                let got = args_key(root);
                if root.conclusion.pred != rel || got.as_ref().ok() != Some(row) {
                    w.fail("root_mismatch", format!("root concludes {}({:?})", root.conclusion.pred, root.conclusion.args), None);
                }
                if root.kind == NodeKind::Negation {
                    w.fail("unexpected_node_kind", "root is a negation leaf".to_string(), None);
                }
                let d = w.node(rid);
                w.st.max_rule_depth = d;
            }
        }
    }
    // nodes of the returned graph that the root's proof does not use (alternative derivations,
    // abandoned search states): same validation, counted only
    let reached: BTreeSet<String> = w.done.keys().cloned().collect();
    let root_fails = w.fails.len();
    let mut ids: Vec<&String> = tree.nodes.keys().collect();
    ids.sort();
    for id in ids {
        if !reached.contains(id) && tree.nodes[id].kind == NodeKind::Rule {
            st.other_rule_nodes += 1;
            let before = w.fails.len();
            let keep = w.st.clone();
            w.node(id);
            w.st = keep;
            if w.fails.len() > before {
                st.other_rule_nodes_invalid += 1;
            }
        }
    }
    w.fails.truncate(root_fails);
    st.trees += w.st.trees;
    st.rule_nodes += w.st.rule_nodes;
    st.edb_leaves += w.st.edb_leaves;
    st.neg_leaves += w.st.neg_leaves;
    st.comparisons += w.st.comparisons;
    st.derived_leaves += w.st.derived_leaves;
    st.truncated += w.st.truncated;
    st.max_rule_depth = st.max_rule_depth.max(w.st.max_rule_depth);
    st.head_const_or_repeat_used |= w.st.head_const_or_repeat_used;
    w.fails
}

pub fn sample_of(case: &Case, extra: J) -> J {
    json!({"rules": case.prog.text().lines().collect::<Vec<_>>(), "edb": case.edb, "info": extra})
}

/// prefer a failure that is not an (open) known finding, so that known ones never mask others
pub fn pick_fail(ctx: &Ctx, fails: Vec<Fail>) -> CheckResult {
    if fails.is_empty() {
        return Ok(());
    }
    let unknown = fails.iter().position(|f| f.known.as_deref().map_or(true, |k| !ctx.is_open_known(k)));
    let i = unknown.unwrap_or(0);
    Err(fails.into_iter().nth(i).unwrap())
}

pub fn check(ctx: &Ctx, case: &Case, obs: &mut Obs) -> CheckResult {
    let f = features(&case.prog);
    for c in f.classes() {
        obs.class(c);
    }
    let Some(p) = prepare(case, obs)? else { return Ok(()) };
    let tc = TreeCtx { case, model: &p.model, idb: &p.idb };
    let mut st = Stats::default();
    let mut fails = Vec::new();
    let mut why_errors = 0u64;
    for v in &p.views {
        match &v.why {
            Err(_) => why_errors += 1, // "a proof must be produced" is C22's statement
            Ok(pairs) => {
                for (row, tree) in pairs {
                    fails.extend(check_tree(&tc, &v.rel, row, tree, &v.goal, &mut st));
                }
            }
        }
    }
    obs.count("trees_checked", st.trees);
    obs.count("rule_nodes_checked", st.rule_nodes);
    obs.count("edb_leaves_checked", st.edb_leaves);
    obs.count("negation_leaves_checked", st.neg_leaves);
    obs.count("comparisons_checked", st.comparisons);
    obs.count("derived_fact_leaves_not_judged", st.derived_leaves);
    obs.count("truncated_nodes_not_judged", st.truncated);
    obs.count("why_requests_without_trees", why_errors);
    obs.count("rule_nodes_outside_the_root_proof", st.other_rule_nodes);
    obs.count("rule_nodes_outside_the_root_proof_invalid_not_judged", st.other_rule_nodes_invalid);
    obs.class_if(st.max_rule_depth >= 2, "tree_depth_ge_2");
    obs.class_if(st.max_rule_depth >= 3, "tree_depth_ge_3");
    obs.class_if(st.neg_leaves > 0, "has_negation_leaf");
    obs.class_if(st.head_const_or_repeat_used, "head_constant_or_repeated_head_variable_used");
    obs.class_if(st.trees == 0, "no_answer_tuples");
    obs.class_if(p.views.iter().any(|v| !v.all_vars), "goal_with_constants");
    obs.nontrivial = st.trees > 0 && (st.max_rule_depth >= 2 || st.neg_leaves > 0 || st.head_const_or_repeat_used);
    obs.sample = Some(sample_of(case, json!({"trees": st.trees, "max_rule_depth": st.max_rule_depth, "negation_leaves": st.neg_leaves})));
    if !fails.is_empty() {
        let detail_prefix = format!("rules:\n{}\nedb: {:?}\n", case.prog.clauses[..case.prog.clauses.len() - 1].iter().map(Clause::text).collect::<Vec<_>>().join("\n"), case.edb);
        let fails = fails
            .into_iter()
            .map(|mut f| {
                f.detail = format!("{detail_prefix}{}", f.detail);
                f
            })
            .collect();
        return pick_fail(ctx, fails);
    }
    Ok(())
}

pub const RULE: &str = "G-prog x G-edb from a 160-word choice tape restricted to positive / stratified-negation / self-recursive programs \
    (no aggregates, no arithmetic, no mutual recursion; <=4 derived relations, <=3 clauses each, <=3 body atoms, arity 1-3, domain 0..4, \
    <=6 rows per EDB relation; constants, `_`, repeated variables, comparisons). Facts are inserted through the storage engine, every clause \
    except the generated query clause is registered as a persistent rule through the handler. For EVERY derived relation `.why ?rel(A, B, ..)` \
    is sent (plus the generated query goal when it binds constants or repeats a variable). Only cases whose `.why` result rows (or, when `.why` \
    returns no trees, the plain `?goal` answer) equal the reference model R1 for every goal are judged. The requests run in a worker child \
    process (handler query timeout 3 s per request) because the proof search cannot be cancelled.";

pub fn run(ctx: &Ctx) {
    ctx.set_rule(&format!(
        "{RULE} Oracle (own re-validation of every node reachable from the root of every returned tree): exactly one root, concluding the \
         explained tuple; the tree is acyclic and has no dangling ids; a Rule node's rule_id equals (whitespace-insensitively) the text of a \
         registered clause of the concluded relation; under the node's bindings the clause head instantiates to the node's conclusion; the \
         children correspond, in body order, one to one to the positive and negated body atoms: a positive atom's child is a Fact/Rule/Truncated \
         node concluding exactly the atom's instance, a negated atom's child is a Negation leaf whose pattern is the atom's instance and has NO \
         match in R1's model (stored and derived facts); every comparison of the clause is true under the bindings; a Fact leaf tagged EDB is a \
         stored fact. Fact leaves tagged Derived and Truncated nodes are counted, not judged (C22); Rule nodes of the returned graph that \
         are not reachable from its root (alternative derivations) get the same validation but are only counted. Non-trivial = at least one tree was judged \
         and some tree has >=2 nested rule steps, or a negation leaf, or uses a clause with a constant / repeated variable in its head. \
         Distinct = distinct (program, EDB) JSON."
    ));
    ctx.assume("reference evaluator R1 (harness/src/common/prog.rs) is correct for the generated fragment");
    ctx.assume("QueryResult.proof_trees[i] explains QueryResult.rows[i] (the handler builds both in one loop); ProofNode.bindings uses the clause's own variable names");
    ctx.assume("ProofNode.rule_id is the Display text of the clause (same syntax as the registered text); NegationInfo.pattern lists the atom's terms separated by ', ' with open terms shown as names");
    ctx.assume("programs/goals the engine rejects, or answers differently from R1, are discarded (counted), not judged here");
    let n = ctx.cases(1500, 24_000);
    ctx.run_part_with("why_trees", n, || case_strategy(gen_opts()), |c, o| check(ctx, c, o), Some(&shrink_case));
}

pub fn replay(ctx: &Ctx, part: &str, case: &J) -> Option<Result<CheckResult, String>> {
    Some(match part {
        "why_trees" => ctx.replay_case(part, case, |c: &Case, o: &mut Obs| check(ctx, c, o)),
        _ => return None,
    })
}
