//! C22 — every answer can be explained: `.why` returns a COMPLETE proof for every answer tuple
//! whose minimal derivation depth (reference model R1) is below the configured depth limit.
//! Same generated cases and the same handler session set-up as C21 (`c21::prepare`); own verdict.

use crate::common::gen::{case_strategy, features, shrink_case, Case};
use crate::common::prog::{Clause, KRow, Lit, HT, T};
use crate::common::{CheckResult, Ctx, Fail, Obs};
use crate::props::c21::{self, args_key, prepare, rules_of, sample_of};
use inputlayer::provenance::proof_tree::{FactSource, NodeKind, ProofTree};
use inputlayer::provenance::ProofConfig;
use serde_json::{json, Value as J};
use std::collections::BTreeSet;

/// Why a tree is not a complete proof (None = complete): every node reachable from the root is
/// looked at once.
pub fn incomplete(tree: &ProofTree) -> Option<(String, String)> {
    let Some(rid) = tree.roots.first() else { return Some(("no_root".into(), "the tree has no root".into())) };
    let mut seen: BTreeSet<&str> = BTreeSet::new();
    let mut stack: Vec<&str> = vec![rid.as_str()];
    while let Some(id) = stack.pop() {
        if !seen.insert(id) {
            continue;
        }
        let Some(n) = tree.nodes.get(id) else { return Some(("dangling_child".into(), format!("node id {id} is referenced but missing"))) };
        let concl = format!("{}({})", n.conclusion.pred, n.conclusion.args.iter().map(|v| format!("{v}")).collect::<Vec<_>>().join(", "));
        match n.kind {
            NodeKind::Truncated => {
                if id == rid {
                    return Some(("truncated_root".into(), format!("the root is a Truncated node for {concl} (the handler's fallback when no derivation was found, or the depth limit at depth 0)")));
                }
                return Some(("truncated_node".into(), format!("node {id} {concl} is Truncated")));
            }
            NodeKind::Fact => {
                if n.source == Some(FactSource::Derived) {
                    return Some(("untraced_derived_leaf".into(), format!("leaf {id} {concl} is a Fact tagged Derived (materialised by the engine, not traced to rules and base facts)")));
                }
            }
            NodeKind::Rule | NodeKind::Negation => {}
            _ => return Some(("unexpected_node_kind".into(), format!("node {id} {concl} has kind {:?}", n.kind))),
        }
        for c in &n.children {
            stack.push(c.as_str());
        }
    }
    None
}

fn special_clause(c: &Clause) -> bool {
    let mut seen = BTreeSet::new();
    let head = c.hargs.iter().any(|h| match h {
        HT::C(_) => true,
        HT::V(v) => !seen.insert(*v),
        _ => false,
    });
    let body = c.body.iter().any(|l| match l {
        Lit::Neg(_) => true,
        Lit::Pos(a) => {
            let mut s = BTreeSet::new();
            a.args.iter().any(|t| match t {
                T::V(v) => !s.insert(*v),
                T::C(_) => true,
                T::W => false,
            })
        }
        _ => false,
    });
    head || body
}

pub const K_CYCLE: &str = "C22-recursive-proof-search-leaves-untraced-leaf";
pub const K_CONST_GOAL: &str = "C22-constant-goal-head-constant-not-found";

/// relations `rel` depends on (transitively, including itself)
fn deps_of(case: &Case, rel: &str) -> BTreeSet<String> {
    let mut seen: BTreeSet<String> = BTreeSet::new();
    let mut stack = vec![rel.to_string()];
    while let Some(r) = stack.pop() {
        if !seen.insert(r.clone()) {
            continue;
        }
        for c in rules_of(case, &r) {
            for l in &c.body {
                if let Lit::Pos(a) | Lit::Neg(a) = l {
                    stack.push(a.rel.clone());
                }
            }
        }
    }
    seen
}

pub const K_BLOWUP: &str = "C22-proof-search-does-not-terminate-on-recursive-rules";

/// does `rel` depend (through positive or negated body atoms, transitively, including itself) on
/// a relation with a self-recursive clause?
pub fn depends_on_recursive(case: &Case, rel: &str) -> bool {
    let mut seen: BTreeSet<String> = BTreeSet::new();
    let mut stack = vec![rel.to_string()];
    while let Some(r) = stack.pop() {
        if !seen.insert(r.clone()) {
            continue;
        }
        for c in rules_of(case, &r) {
            for l in &c.body {
                if let Lit::Pos(a) | Lit::Neg(a) = l {
                    if a.rel == r {
                        return true;
                    }
                    stack.push(a.rel.clone());
                }
            }
        }
    }
    false
}

pub fn check(ctx: &Ctx, case: &Case, obs: &mut Obs) -> CheckResult {
    let f = features(&case.prog);
    for c in f.classes() {
        obs.class(c);
    }
    let Some(p) = prepare(case, obs)? else { return Ok(()) };
    let limit = ProofConfig::default().max_depth;
    let mut fails: Vec<Fail> = Vec::new();
    let (mut judged, mut deep, mut special, mut beyond) = (0u64, 0u64, 0u64, 0u64);
    let mut max_depth_seen = 0usize;
    let prefix = format!("rules:\n{}\nedb: {:?}\n", case.prog.clauses[..case.prog.clauses.len() - 1].iter().map(Clause::text).collect::<Vec<_>>().join("\n"), case.edb);
    for v in &p.views {
        let depth_of = |row: &KRow| p.model.depth.get(&(v.rel.clone(), row.clone())).copied().unwrap_or(usize::MAX);
        let rel_special = rules_of(case, &v.rel).iter().any(|c| special_clause(c));
        match &v.why {
            Err(e) => {
                let within: Vec<&KRow> = v.expected.iter().filter(|r| depth_of(r) < limit).collect();
                if !within.is_empty() {
                    let timed_out = e.contains("timed out");
                    let kind = if timed_out { "why_timed_out" } else { "no_proof_returned" };
                    let mut fail = Fail::new(
                        kind,
                        format!(
                            "{prefix}`.why ?{}`: the plain query returns {} tuple(s) (e.g. {}, reference depth {}), but `.why` produced no proof trees after {} ms{}: {e}",
                            v.goal,
                            v.expected.len(),
                            format!("{}({})", v.rel, within[0].iter().map(|k| k.0.to_string()).collect::<Vec<_>>().join(", ")),
                            depth_of(within[0]),
                            v.why_ms,
                            if timed_out { format!(" (request limit {} ms; the same goal without .why answered within it)", c21::WHY_TIMEOUT_MS) } else { String::new() }
                        ),
                    );
                    // narrow signature: time-out AND the goal's relation depends on a self-recursive relation
                    if timed_out && depends_on_recursive(case, &v.rel) {
                        fail = fail.known(K_BLOWUP);
                    } else if timed_out {
                        // a time-out alone (machine load) is never a verdict: inconclusive
                        obs.discard = Some("`.why` hit the request limit on a non-recursive program (inconclusive)".into());
                        return Ok(());
                    }
                    fails.push(fail);
                }
            }
            Ok(pairs) => {
                for (row, tree) in pairs {
                    let d = depth_of(row);
                    if d >= limit {
                        beyond += 1;
                        continue;
                    }
                    judged += 1;
                    max_depth_seen = max_depth_seen.max(d);
                    if d >= 2 {
                        deep += 1;
                    }
                    if rel_special {
                        special += 1;
                    }
                    // root must at least be about the tuple
                    let root_ok = tree.roots.first().and_then(|r| tree.nodes.get(r)).is_some_and(|n| n.conclusion.pred == v.rel && args_key(n).ok().as_ref() == Some(row));
                    if !root_ok {
                        fails.push(Fail::new("proof_for_other_tuple", format!("{prefix}`.why ?{}`: the tree returned for {}{:?} does not conclude that tuple", v.goal, v.rel, row)));
                        continue;
                    }
                    if let Some((kind, why)) = incomplete(tree) {
                        let mut fail = Fail::new(
                            &kind,
                            format!("{prefix}`.why ?{}`: answer tuple {}({}) has a derivation of depth {d} (limit {limit}) but its proof is incomplete: {why}\ntree:\n{}", v.goal, v.rel, row.iter().map(|k| k.0.to_string()).collect::<Vec<_>>().join(", "), tree.format_tree()),
                        );
                        // narrow signature: untraced leaf over a SELF-RECURSIVE relation (cycle guard of the
                        // backward chainer), see run()
                        if kind == "untraced_derived_leaf" {
                            let leaf_rel = untraced_leaf_rel(tree);
                            let leaf_recursive = leaf_rel.as_deref().is_some_and(|r| rules_of(case, r).iter().any(|c| c.pos_rels().contains(&r)));
                            if leaf_recursive {
                                fail = fail.known(K_CYCLE);
                            }
                        }
                        // narrow signature: goal with constants (derived data is filed under magic-set names, the
                        // prover enumerates candidates), a relation the goal depends on has a clause with a head
                        // constant, and the SAME tuple gets a complete proof under the all-variables goal
                        if !v.all_vars && (kind == "truncated_root" || kind == "untraced_derived_leaf") {
                            let head_const = deps_of(case, &v.rel).iter().any(|r| rules_of(case, r).iter().any(|c| c.hargs.iter().any(|h| matches!(h, HT::C(_)))));
                            let complete_under_all_vars = p.views.iter().any(|w| {
                                w.all_vars && w.rel == v.rel && w.why.as_ref().is_ok_and(|ps| ps.iter().any(|(r2, t2)| r2 == row && incomplete(t2).is_none()))
                            });
                            if head_const && complete_under_all_vars {
                                fail = fail.known(K_CONST_GOAL);
                            }
                        }
                        fails.push(fail);
                    }
                }
            }
        }
    }
    obs.count("answer_tuples_judged", judged);
    obs.count("answer_tuples_needing_ge2_rule_steps", deep);
    obs.count("answer_tuples_beyond_depth_limit_not_judged", beyond);
    obs.class_if(deep > 0, "tuple_depth_ge_2");
    obs.class_if(max_depth_seen >= 3, "tuple_depth_ge_3");
    obs.class_if(special > 0, "relation_with_negation_constant_or_repeated_variable_clause");
    obs.class_if(judged == 0, "no_answer_tuples");
    obs.class_if(p.views.iter().any(|v| !v.all_vars), "goal_with_constants");
    obs.nontrivial = judged > 0 && (deep > 0 || special > 0);
    obs.sample = Some(sample_of(case, json!({"answer_tuples_judged": judged, "max_reference_depth": max_depth_seen})));
    c21::pick_fail(ctx, fails)
}

fn untraced_leaf_rel(tree: &ProofTree) -> Option<String> {
    let mut ids: Vec<&String> = tree.nodes.keys().collect();
    ids.sort();
    ids.into_iter().map(|i| &tree.nodes[i]).find(|n| n.kind == NodeKind::Fact && n.source == Some(FactSource::Derived)).map(|n| n.conclusion.pred.clone())
}

pub fn run(ctx: &Ctx) {
    ctx.set_rule(&format!(
        "{} Oracle: for every answer tuple of every goal whose minimal derivation depth in R1 (rule applications on the longest branch of \
         the shallowest proof) is < ProofConfig::default().max_depth (50), the tree returned for it concludes that tuple and is complete: the \
         root is not a Truncated node (the handler's fallback when build_proof_tree fails), no reachable node is Truncated, no reachable Fact \
         leaf is tagged Derived ('materialised but could not be traced'), only Rule / Fact / Negation nodes occur; a `.why` request that \
         returns no proof trees although the plain query returns tuples within the limit is a failure (kind why_timed_out when the handler \
         answered 'Query execution timed out' at the 3 s request limit of the fetch worker: a failure only for goals that depend on a \
         self-recursive relation, otherwise discarded as inconclusive). Validity of the steps is C21's business and not re-judged here. Non-trivial = at least one tuple judged and (some judged tuple needs >=2 nested rule steps, or its \
         relation has a clause with negation, a constant or a repeated variable). Distinct = distinct (program, EDB) JSON.",
        c21::RULE
    ));
    ctx.assume("reference evaluator R1 and its minimal-derivation-depth bookkeeping (harness/src/common/prog.rs) are correct for the generated fragment");
    ctx.assume("QueryResult.proof_trees[i] explains QueryResult.rows[i]");
    ctx.assume("a Fact leaf tagged `derived` means 'not traced further' (proof_tree.rs FactSource::Derived doc) and therefore an incomplete proof");
    ctx.assume("programs/goals the engine rejects, or answers differently from R1, are discarded (counted), not judged here");
    let n = ctx.cases(1500, 24_000);
    ctx.run_part_with("why_complete", n, || case_strategy(c21::gen_opts()), |c, o| check(ctx, c, o), Some(&shrink_case));
}

pub fn replay(ctx: &Ctx, part: &str, case: &J) -> Option<Result<CheckResult, String>> {
    Some(match part {
        "why_complete" => ctx.replay_case(part, case, |c: &Case, o: &mut Obs| check(ctx, c, o)),
        _ => return None,
    })
}
