//! C23 — `.why_not` explanations are truthful: for a tuple that is not derived every clause of the
//! relation gets a blocker that really holds for that tuple; for a derived tuple the explanation
//! never claims that every clause is blocked.

use crate::common::eng::{key_set, short_err, value_key, with_watchdog};
use crate::common::gen::{case_strategy, features, shrink_case, Case};
use crate::common::prog::{self, body_valuations, var_name, Clause, KRow, Lit, Model, HT, T};
use crate::common::store::{block_on, result_messages, result_tuples, KG};
use crate::common::{CheckResult, Ctx, Fail, Obs};
use crate::props::c21::{self, idb_rels, load, norm, parse_pattern, pattern_instance_mismatch, pattern_match, rules_of, sample_of, PT};
use inputlayer::provenance::proof_tree::{NodeKind, ProofNode, ProofTree};
use inputlayer::provenance::Blocker;
use serde_json::{json, Value as J};
use std::collections::{BTreeMap, BTreeSet};

/// single root cause behind several failure kinds: `.why_not` is evaluated against stored facts
/// only (ProofContext without derived data)
pub const K_NO_DERIVED: &str = "C23-derived-facts-invisible-to-why-not";
pub const K_GREEDY: &str = "C23-first-match-without-backtracking";

type Env = BTreeMap<u8, (i64, i64)>;

fn unify_head(c: &Clause, t: &KRow) -> Option<Env> {
    if c.hargs.len() != t.len() {
        return None;
    }
    let mut env = Env::new();
    for (h, v) in c.hargs.iter().zip(t) {
        match h {
            HT::V(x) => {
                if let Some(b) = env.get(x) {
                    if b != v {
                        return None;
                    }
                } else {
                    env.insert(*x, *v);
                }
            }
            HT::C(k) => {
                if (*k, 0) != *v {
                    return None;
                }
            }
            _ => return None,
        }
    }
    Some(env)
}

/// does clause `c` derive `t` in the reference model?
fn clause_derives(c: &Clause, t: &KRow, model: &Model) -> bool {
    let Ok(vals) = body_valuations(c, &model.db) else { return false };
    vals.iter().any(|env| {
        c.hargs.iter().zip(t).all(|(h, v)| match h {
            HT::V(x) => env.get(x) == Some(v),
            HT::C(k) => (*k, 0) == *v,
            _ => false,
        })
    })
}

fn fmt_t(rel: &str, t: &KRow) -> String {
    format!("{rel}({})", t.iter().map(|k| k.0.to_string()).collect::<Vec<_>>().join(", "))
}

fn all_tuples(dom: i64, ar: usize) -> Vec<KRow> {
    let mut out: Vec<KRow> = vec![vec![]];
    for _ in 0..ar {
        let mut next = Vec::new();
        for p in &out {
            for v in 0..dom {
                let mut q = p.clone();
                q.push((v, 0));
                next.push(q);
            }
        }
        out = next;
    }
    out
}

/// "rel(p1, p2)" -> (rel, pattern)
fn parse_pred_text(s: &str) -> Option<(String, Vec<PT>)> {
    let open = s.find('(')?;
    let close = s.rfind(')')?;
    if close < open {
        return None;
    }
    Some((s[..open].trim().to_string(), parse_pattern(&s[open + 1..close])))
}

struct Entry<'a> {
    node: &'a ProofNode,
    /// (index of the body literal, blocker); head-unification blockers carry index usize::MAX
    blockers: Vec<(usize, &'a Blocker)>,
}

fn entries<'a>(g: &'a ProofTree, root: &'a ProofNode) -> Result<Vec<Entry<'a>>, String> {
    let mut out = Vec::new();
    for id in &root.children {
        let n = g.nodes.get(id).ok_or_else(|| format!("clause entry {id} missing from the graph"))?;
        let mut blockers = Vec::new();
        if let Some(w) = &n.why_not {
            blockers.push((usize::MAX, &w.blocker));
        }
        for cid in &n.children {
            let ch = g.nodes.get(cid).ok_or_else(|| format!("node {cid} missing from the graph"))?;
            if ch.kind == NodeKind::WhyNot {
                if let Some(w) = &ch.why_not {
                    blockers.push((w.clause_index, &w.blocker));
                }
            }
        }
        out.push(Entry { node: n, blockers });
    }
    Ok(out)
}

#[derive(Default)]
struct Counts {
    nonderived: u64,
    derived: u64,
    head: u64,
    body: u64,
    cmp: u64,
    neg: u64,
    unjudged: u64,
    derived_with_open_clause: u64,
}

/// is a reported blocker a FALSE statement only because derived facts are invisible?
fn body_blocker_false_by_derived(model: &Model, case: &Case, idb: &[String], b: &Blocker) -> bool {
    if let Blocker::BodyAtomFailed { predicate_text, .. } = b {
        if let Some((rel, pat)) = parse_pred_text(predicate_text) {
            if idb.contains(&rel) {
                if let Some(m) = pattern_match(model, &rel, &pat) {
                    let stored = case.edb.get(&rel).is_some_and(|rows| rows.iter().any(|r| prog::krow_ints(r) == m));
                    return !stored;
                }
            }
        }
    }
    false
}

#[allow(clippy::too_many_arguments)]
fn judge_candidate(case: &Case, model: &Model, idb: &[String], rel: &str, t: &KRow, g: &ProofTree, cn: &mut Counts, fails: &mut Vec<Fail>) {
    let what = format!("`.why_not {}`", fmt_t(rel, t));
    // identical clause texts are one registered rule (the rule store keeps a clause once)
    let mut clauses = rules_of(case, rel);
    {
        let mut seen = BTreeSet::new();
        clauses.retain(|c| seen.insert(norm(&c.text())));
    }
    let derived = model.db.get(rel).is_some_and(|s| s.contains(t));
    let mut fail = |kind: &str, detail: String, known: Option<&str>| {
        let mut f = Fail::new(kind, format!("{what} ({}): {detail}", if derived { "tuple IS derived" } else { "tuple is not derived" }));
        if let Some(k) = known {
            f = f.known(k);
        }
        fails.push(f);
    };
    let Some(root) = g.roots.first().and_then(|r| g.nodes.get(r)) else {
        return fail("no_explanation", "the returned graph has no root".into(), None);
    };
    let root_row: Result<KRow, String> = root.conclusion.args.iter().map(value_key).collect();
    if root.conclusion.pred != rel || root_row.as_ref().ok() != Some(t) {
        return fail("explanation_for_other_tuple", format!("root concludes {}({:?})", root.conclusion.pred, root.conclusion.args), None);
    }
    let ents = match entries(g, root) {
        Ok(e) => e,
        Err(e) => return fail("malformed_explanation", e, None),
    };
    // one entry per clause of the relation
    let mut unused: Vec<usize> = (0..clauses.len()).collect();
    let mut matched: Vec<(usize, &Entry)> = Vec::new();
    for e in &ents {
        let rid = e.node.rule_id.clone().unwrap_or_default();
        match unused.iter().position(|ci| norm(&clauses[*ci].text()) == norm(&rid)) {
            Some(p) => matched.push((unused.remove(p), e)),
            None => {
                return fail("entry_names_unknown_clause", format!("entry names rule `{rid}`, not a (remaining) clause of {rel}: {:?}", clauses.iter().map(|c| c.text()).collect::<Vec<_>>()), None);
            }
        }
    }
    if !unused.is_empty() {
        return fail("clause_without_entry", format!("{} entries for {} clauses; no entry for `{}`", ents.len(), clauses.len(), clauses[unused[0]].text()), None);
    }

    if derived {
        cn.derived += 1;
        let open = matched.iter().filter(|(_, e)| e.blockers.is_empty()).count();
        if open > 0 {
            cn.derived_with_open_clause += 1;
            return;
        }
        // every clause is reported blocked although the tuple is derived
        let deriving: Vec<&(usize, &Entry)> = matched.iter().filter(|(ci, _)| clause_derives(clauses[*ci], t, model)).collect();
        let any_invisible = deriving.iter().any(|(_, e)| e.blockers.iter().any(|(_, b)| body_blocker_false_by_derived(model, case, idb, b)));
        let known = if any_invisible { K_NO_DERIVED } else { K_GREEDY };
        let list: Vec<String> = matched.iter().map(|(ci, e)| format!("`{}` -> {}", clauses[*ci].text(), e.blockers.iter().map(|(_, b)| format!("{b}")).collect::<Vec<_>>().join("; "))).collect();
        return fail(
            "derived_tuple_all_clauses_blocked",
            format!(
                "every clause is reported blocked: [{}]; but clause(s) {:?} derive the tuple in the reference model (and the engine returns it)",
                list.join(" | "),
                deriving.iter().map(|(ci, _)| clauses[*ci].text()).collect::<Vec<_>>()
            ),
            Some(known),
        );
    }

    cn.nonderived += 1;
    for (ci, e) in &matched {
        let c = clauses[*ci];
        let henv = unify_head(c, t);
        let ctext = c.text();
        if e.blockers.is_empty() {
            // which literal fails under the entry's own bindings? (signature only)
            let mut env = Env::new();
            if let Some(b) = &e.node.bindings {
                for (k, v) in b {
                    if k.len() == 1 && k.as_bytes()[0].is_ascii_uppercase() {
                        if let Ok(kv) = value_key(v) {
                            env.insert(k.as_bytes()[0] - b'A', kv);
                        }
                    }
                }
            }
            let neg_derived_blocked = c.body.iter().any(|l| match l {
                Lit::Neg(a) if idb.contains(&a.rel) => {
                    let pat: Vec<PT> = a
                        .args
                        .iter()
                        .enumerate()
                        .map(|(i, x)| match x {
                            T::C(k) => PT::Val(*k),
                            T::V(v) => env.get(v).map_or(PT::Name(var_name(*v)), |b| PT::Val(b.0)),
                            T::W => PT::Name(format!("_w{i}")),
                        })
                        .collect();
                    pattern_match(model, &a.rel, &pat).is_some()
                }
                _ => false,
            });
            fail(
                "clause_without_blocker",
                format!("the entry for `{ctext}` (bindings {:?}) reports no blocker, i.e. the clause is shown as satisfied", env.iter().map(|(k, v)| format!("{}={}", var_name(*k), v.0)).collect::<Vec<_>>()),
                if neg_derived_blocked { Some(K_NO_DERIVED) } else { None },
            );
            continue;
        }
        for (idx, b) in &e.blockers {
            match b {
                Blocker::HeadUnificationFailed { reason } => {
                    cn.head += 1;
                    if let Some(env) = &henv {
                        fail("false_head_unification_blocker", format!("`{ctext}`: reported `{b}` ({reason}), but the head unifies with the tuple under {env:?}"), None);
                    }
                }
                Blocker::BodyAtomFailed { predicate_index, predicate_text, reason } => {
                    let lit = c.body.get(*predicate_index);
                    let Some(Lit::Pos(a)) = lit else {
                        if matches!(lit, Some(Lit::Cmp(..))) {
                            cn.unjudged += 1; // comparison that could not be evaluated (reason text only)
                        } else {
                            fail("blocker_not_in_clause", format!("`{ctext}`: reported `{b}`, but body literal {predicate_index} is {:?}", lit.map(Lit::text)), None);
                        }
                        continue;
                    };
                    cn.body += 1;
                    let Some((prel, pat)) = parse_pred_text(predicate_text) else {
                        cn.unjudged += 1;
                        continue;
                    };
                    let Some(env) = &henv else {
                        fail("blocker_not_about_target", format!("`{ctext}`: body blocker `{b}` although the head does not unify with the tuple"), None);
                        continue;
                    };
                    if let Some(why) = pattern_instance_mismatch(a, env, &prel, &pat) {
                        fail("blocker_not_about_target", format!("`{ctext}`: reported `{b}` is not an instance of body literal {predicate_index} `{}` for this tuple: {why}", a.text()), None);
                        continue;
                    }
                    if let Some(m) = pattern_match(model, &prel, &pat) {
                        let stored = case.edb.get(&prel).is_some_and(|rows| rows.iter().any(|r| prog::krow_ints(r) == m));
                        let known = if idb.contains(&prel) && !stored { Some(K_NO_DERIVED) } else { None };
                        fail("false_body_atom_blocker", format!("`{ctext}`: reported `{b}` ({reason}), but {} holds in the reference model ({})", fmt_t(&prel, &m), if stored { "stored fact" } else { "derived fact, returned by the engine for ?rel" }), known);
                    }
                }
                Blocker::ComparisonFailed { comparison_text, lhs_value, rhs_value } => {
                    let Some(Lit::Cmp(x, op, y)) = c.body.get(*idx) else {
                        fail("blocker_not_in_clause", format!("`{ctext}`: reported `{b}`, but body literal {idx} is {:?}", c.body.get(*idx).map(Lit::text)), None);
                        continue;
                    };
                    cn.cmp += 1;
                    let (Ok(l), Ok(r)) = (lhs_value.trim().parse::<i64>(), rhs_value.trim().parse::<i64>()) else {
                        cn.unjudged += 1;
                        continue;
                    };
                    let Some(env) = &henv else {
                        fail("blocker_not_about_target", format!("`{ctext}`: comparison blocker `{b}` although the head does not unify with the tuple"), None);
                        continue;
                    };
                    let mut consistent = true;
                    for (term, val) in [(x, l), (y, r)] {
                        match term {
                            T::C(k) => consistent &= *k == val,
                            T::V(v) => {
                                if let Some(bv) = env.get(v) {
                                    consistent &= bv.0 == val;
                                }
                            }
                            T::W => {}
                        }
                    }
                    if !consistent {
                        fail("blocker_not_about_target", format!("`{ctext}`: reported `{b}` ({comparison_text}) does not instantiate `{}` for this tuple (head bindings {env:?})", c.body[*idx].text()), None);
                        continue;
                    }
                    if op.holds(l, r) {
                        fail("false_comparison_blocker", format!("`{ctext}`: reported `{b}`, but `{}` with {l} and {r} is TRUE", c.body[*idx].text()), None);
                    }
                }
                Blocker::NegationSucceeded { relation, matching_tuple } => {
                    let Some(Lit::Neg(a)) = c.body.get(*idx) else {
                        fail("blocker_not_in_clause", format!("`{ctext}`: reported `{b}`, but body literal {idx} is {:?}", c.body.get(*idx).map(Lit::text)), None);
                        continue;
                    };
                    cn.neg += 1;
                    let Ok(row) = matching_tuple.iter().map(value_key).collect::<Result<KRow, String>>() else {
                        cn.unjudged += 1;
                        continue;
                    };
                    let Some(env) = &henv else {
                        fail("blocker_not_about_target", format!("`{ctext}`: negation blocker `{b}` although the head does not unify with the tuple"), None);
                        continue;
                    };
                    let pat: Vec<PT> = row.iter().map(|k| PT::Val(k.0)).collect();
                    if let Some(why) = pattern_instance_mismatch(a, env, relation, &pat) {
                        fail("blocker_not_about_target", format!("`{ctext}`: reported `{b}` does not match negated literal `{}` for this tuple: {why}", a.text()), None);
                        continue;
                    }
                    if !model.db.get(relation).is_some_and(|s| s.contains(&row)) {
                        fail("false_negation_blocker", format!("`{ctext}`: reported `{b}`, but {} is not a fact of the reference model", fmt_t(relation, &row)), None);
                    }
                }
                Blocker::HnswNotInTopK { .. } => fail("unexpected_blocker_kind", format!("`{ctext}`: reported `{b}` for a program without vector search"), None),
            }
        }
    }
}

fn mentions_derived(c: &Clause, idb: &[String]) -> bool {
    c.body.iter().any(|l| matches!(l, Lit::Pos(a) | Lit::Neg(a) if idb.contains(&a.rel)))
}

pub fn check(ctx: &Ctx, case: &Case, obs: &mut Obs) -> CheckResult {
    let f = features(&case.prog);
    for c in f.classes() {
        obs.class(c);
    }
    let model = match prog::eval(&case.prog.clauses, &case.edb) {
        Ok(m) => m,
        Err(e) => {
            obs.discard = Some(format!("reference: {e:?}"));
            return Ok(());
        }
    };
    let setup = match load(case, "c23", 0) {
        Ok(s) => s,
        Err(e) if e.starts_with("REJECT") => {
            obs.discard = Some(format!("engine_error: {}", short_err(&e)));
            return Ok(());
        }
        Err(e) => return Err(Fail::new("setup_failed", e)),
    };
    let idb = idb_rels(case);
    let dom = c21::gen_opts().dom;
    // only programs the engine accepts and answers like R1 are judged
    for rel in &idb {
        let ar = case.arity.get(rel).copied().unwrap_or(0);
        let goal = format!("{rel}({})", (0..ar).map(|i| var_name(i as u8)).collect::<Vec<_>>().join(", "));
        let (res, fired) = with_watchdog(20, || block_on(setup.h.query_program(Some(KG.to_string()), format!("?{goal}"))));
        if fired {
            obs.discard = Some("watchdog".into());
            return Ok(());
        }
        let got = match res {
            Ok(r) => key_set(&result_tuples(&r)),
            Err(e) => {
                obs.discard = Some(format!("engine_error: {}", short_err(&e)));
                return Ok(());
            }
        };
        if got.ok().as_ref() != Some(&model.db.get(rel).cloned().unwrap_or_default()) {
            obs.discard = Some("query answer differs from the reference model (C01's business)".into());
            return Ok(());
        }
    }
    let mut cn = Counts::default();
    let mut fails: Vec<Fail> = Vec::new();
    let mut nontrivial_rel = false;
    for rel in &idb {
        let ar = case.arity.get(rel).copied().unwrap_or(0);
        let cls = rules_of(case, rel);
        if cls.len() >= 2 || cls.iter().any(|c| mentions_derived(c, &idb)) {
            nontrivial_rel = true;
        }
        for t in all_tuples(dom, ar) {
            if fails.len() >= 40 {
                break;
            }
            let target = fmt_t(rel, &t);
            let res = block_on(setup.h.query_program(Some(KG.to_string()), format!(".why_not {target}")));
            let g = match res {
                Ok(r) => match r.proof_trees.as_ref().and_then(|v| v.first()).cloned() {
                    Some(g) => g,
                    None => {
                        fails.push(Fail::new("no_explanation", format!("`.why_not {target}` returned no structured explanation; messages: {}", result_messages(&r).join(" | "))));
                        continue;
                    }
                },
                Err(e) => {
                    fails.push(Fail::new("no_explanation", format!("`.why_not {target}` failed: {e}")));
                    continue;
                }
            };
            judge_candidate(case, &model, &idb, rel, &t, &g, &mut cn, &mut fails);
        }
    }
    obs.count("candidates_not_derived", cn.nonderived);
    obs.count("candidates_derived", cn.derived);
    obs.count("derived_candidates_with_an_unblocked_clause", cn.derived_with_open_clause);
    obs.count("blockers_head_unification", cn.head);
    obs.count("blockers_body_atom", cn.body);
    obs.count("blockers_comparison", cn.cmp);
    obs.count("blockers_negation", cn.neg);
    obs.count("blockers_not_judged", cn.unjudged);
    obs.class_if(cn.head > 0, "head_unification_blocker_seen");
    obs.class_if(cn.body > 0, "body_atom_blocker_seen");
    obs.class_if(cn.cmp > 0, "comparison_blocker_seen");
    obs.class_if(cn.neg > 0, "negation_blocker_seen");
    obs.class_if(cn.derived > 0, "derived_candidates");
    obs.class_if(nontrivial_rel, "relation_with_ge2_clauses_or_derived_body");
    obs.nontrivial = nontrivial_rel && (cn.nonderived + cn.derived) > 0;
    obs.sample = Some(sample_of(case, json!({"candidates_not_derived": cn.nonderived, "candidates_derived": cn.derived})));
    let prefix = format!("rules:\n{}\nedb: {:?}\n", case.prog.clauses[..case.prog.clauses.len() - 1].iter().map(Clause::text).collect::<Vec<_>>().join("\n"), case.edb);
    let fails = fails
        .into_iter()
        .map(|mut f| {
            f.detail = format!("{prefix}{}", f.detail);
            f
        })
        .collect();
    c21::pick_fail(ctx, fails)
}

pub fn run(ctx: &Ctx) {
    ctx.set_rule(
        "Programs as in C21 (positive / stratified negation / self recursion, no aggregates, no arithmetic, no mutual recursion; domain 0..4), \
         facts + persistent rules in a Handler; only programs whose `?rel(..)` answers equal the reference model R1 for every derived relation \
         are judged. Candidates: ALL tuples over the value domain for EVERY derived relation (5^arity <= 125 each), each sent as \
         `.why_not rel(v..)`; the structured explanation (QueryResult.proof_trees[0], from which the text rows are rendered) is judged. \
         Oracle, tuple NOT in R1's model: the root concludes the tuple; one entry per registered clause of the relation (matched by rule text); \
         every entry reports at least one blocker; a head-unification blocker only if the clause head cannot be unified with the tuple \
         (constant / repeated-variable clash); a body-atom blocker names a positive literal of that clause, its pattern instantiates that \
         literal for the tuple (constants and head-bound variables) and has NO match in R1's model (stored and derived facts); a comparison \
         blocker names a comparison of the clause, its operand values agree with constants / head-bound variables and make the comparison \
         false; a negation blocker names a negated literal of the clause and a tuple that matches it and IS in R1's model. Tuple IN the model: \
         at least one clause entry reports no blocker. Blockers whose values cannot be parsed are counted (blockers_not_judged). \
         Non-trivial = some judged relation has >=2 clauses or a body literal over a derived relation. Distinct = distinct (program, EDB) JSON.",
    );
    ctx.assume("reference evaluator R1 (harness/src/common/prog.rs) is correct for the generated fragment");
    ctx.assume("the structured why-not graph is the explanation: root WhyNot node -> one child per clause (rule_id = clause text; own why_not = head blocker) -> WhyNot children carrying body blockers (WhyNotInfo.clause_index = index of the body literal)");
    ctx.assume("BodyAtomFailed.predicate_text has the form rel(t1, t2, ..) with open terms shown as names; ComparisonFailed.lhs_value/rhs_value are the operand values");
    ctx.assume("programs the engine rejects, or answers differently from R1, are discarded (counted), not judged here");
    let n = ctx.cases(3000, 45_000);
    ctx.run_part_with("why_not_candidates", n, || case_strategy(c21::gen_opts()), |c, o| check(ctx, c, o), Some(&shrink_case));
}

pub fn replay(ctx: &Ctx, part: &str, case: &J) -> Option<Result<CheckResult, String>> {
    Some(match part {
        "why_not_candidates" => ctx.replay_case(part, case, |c: &Case, o: &mut Obs| check(ctx, c, o)),
        _ => return None,
    })
}
