//! C24 — vector index search returns valid nearest neighbours.
//!
//! Histories of insert / update-same-id / delete / rebuild over a `HnswIndex` of every metric are
//! interleaved with searches; every search is judged against a history model (which ids are live,
//! with which vector) and a brute-force distance computation in f64.
//!
//! This module also holds what C25 shares with it: the case type, the tape decoder, the vector
//! generator, the brute-force metric and the mirror of the index's tombstone bookkeeping.

use crate::common::gen::{tape_strategy, Tape};
use crate::common::{CheckResult, Ctx, Fail, Obs};
use inputlayer::hnsw_index::HnswIndex;
use inputlayer::index_manager::{DistanceMetric, HnswConfig, Index};
use proptest::prelude::*;
use serde::{Deserialize, Serialize};
use serde_json::{json, Value as J};
use std::collections::{BTreeMap, BTreeSet};

// ------------------------------------------------------------------------------------------------
// case type (shared with C25)

#[derive(Clone, Copy, Debug, PartialEq, Eq, Serialize, Deserialize)]
pub enum Metric {
    Euclidean,
    Cosine,
    Manhattan,
    DotProduct,
}

impl Metric {
    pub fn to_engine(self) -> DistanceMetric {
        match self {
            Metric::Euclidean => DistanceMetric::Euclidean,
            Metric::Cosine => DistanceMetric::Cosine,
            Metric::Manhattan => DistanceMetric::Manhattan,
            Metric::DotProduct => DistanceMetric::DotProduct,
        }
    }
    pub fn name(self) -> &'static str {
        match self {
            Metric::Euclidean => "euclidean",
            Metric::Cosine => "cosine",
            Metric::Manhattan => "manhattan",
            Metric::DotProduct => "dot_product",
        }
    }
    /// the index normalises stored vectors and queries for these
    pub fn normalising(self) -> bool {
        matches!(self, Metric::Cosine | Metric::DotProduct)
    }
}

/// requested number of neighbours, relative to the number of live vectors at query time
#[derive(Clone, Copy, Debug, PartialEq, Eq, Serialize, Deserialize)]
pub enum KSel {
    One,
    Three,
    Ten,
    Live,
    LivePlus5,
}

/// `ef` override of one search
#[derive(Clone, Copy, Debug, PartialEq, Eq, Serialize, Deserialize)]
pub enum EfSel {
    /// `None`: the index's configured `ef_search`
    Default,
    Four,
    Live,
    TwoHundred,
}

pub type Entry = (usize, Vec<f32>);

#[derive(Clone, Debug, Serialize, Deserialize)]
pub enum Op {
    /// `Index::insert_batch`
    Batch(Vec<Entry>),
    /// `Index::insert`: a new id, an update of a live id or a re-insert of a deleted id, whichever
    /// the history makes it
    Insert(usize, Vec<f32>),
    /// `Index::delete`
    Delete(usize),
    /// `Index::rebuild`
    Rebuild(Vec<Entry>),
    /// `Index::search` (C24 only)
    Query { q: Vec<f32>, k: KSel, ef: EfSel },
    /// `HnswIndex::save` + `HnswIndex::load`, the history continues on the loaded index (C25 only)
    SaveLoad,
    /// `IndexManager::save_indexes` + `load_indexes` on a fresh manager (C25 only)
    ManagerSaveLoad,
}

#[derive(Clone, Debug, Serialize, Deserialize)]
pub struct Case {
    pub metric: Metric,
    /// dimension of the generated vectors (a "wrong dimension" insert has dim + 1)
    pub dim: usize,
    pub m: usize,
    pub ef_construction: usize,
    pub ef_search: usize,
    /// probe query of C25's exhaustive searches (dim + 1 components, truncated to the index's dimension)
    pub probe: Vec<f32>,
    pub ops: Vec<Op>,
}

impl Case {
    pub fn config(&self) -> HnswConfig {
        HnswConfig { m: self.m, ef_construction: self.ef_construction, ef_search: self.ef_search, metric: self.metric.to_engine() }
    }
}

// ------------------------------------------------------------------------------------------------
// brute force (independent of the index: f64, straight from the definitions)

pub fn norm64(v: &[f32]) -> f64 {
    v.iter().map(|x| (*x as f64) * (*x as f64)).sum::<f64>().sqrt()
}

/// Distance of the configured metric between the query and a stored vector, as documented:
/// euclidean = L2, manhattan = L1, cosine = 1 - cos, dot product = negated inner product.
pub fn brute(metric: Metric, q: &[f32], v: &[f32]) -> f64 {
    let pairs = || q.iter().zip(v.iter()).map(|(a, b)| (*a as f64, *b as f64));
    match metric {
        Metric::Euclidean => pairs().map(|(a, b)| (a - b) * (a - b)).sum::<f64>().sqrt(),
        Metric::Manhattan => pairs().map(|(a, b)| (a - b).abs()).sum::<f64>(),
        Metric::Cosine => {
            let dot: f64 = pairs().map(|(a, b)| a * b).sum();
            1.0 - dot / (norm64(q) * norm64(v))
        }
        Metric::DotProduct => -pairs().map(|(a, b)| a * b).sum::<f64>(),
    }
}

pub fn tol(d: f64) -> f64 {
    1e-4 * d.abs().max(1.0)
}

/// brute-force distance `b` is smaller than a reported distance `d` by more than the tolerance the
/// judgement grants
pub fn closer_than(b: f64, d: f64) -> bool {
    b < d && !((d - b).abs() <= tol(b))
}

/// Norm under which the index itself treats a vector as zero-norm for cosine / dot product
/// (`insert` rejects norm <= 1e-10 and the query is then not normalised). The oracle uses 1e-9 so
/// that nothing at the threshold itself is judged.
pub const NORM_FLOOR: f64 = 1e-9;

// ------------------------------------------------------------------------------------------------
// mirror of the index's tombstone bookkeeping (documented: delete marks a tombstone, the index
// compacts itself when tombstones exceed 30% of the entries, rebuild clears tombstones)

#[derive(Clone, Debug, Default)]
pub struct Mirror {
    /// physical entries (including tombstoned ones)
    pub stored: BTreeMap<usize, Vec<f32>>,
    pub tombs: BTreeSet<usize>,
    /// what the search graph was last built from: the graph is rebuilt (from the entries that are
    /// not tombstoned at that moment) by insert, insert_batch, rebuild, a compaction and load,
    /// but NOT by a delete that stays under the compaction threshold
    pub graph: BTreeMap<usize, Vec<f32>>,
    /// physical order of the entries / of the graph's nodes (the graph is built in that order)
    pub order: Vec<usize>,
    pub graph_order: Vec<usize>,
    pub compactions: u32,
}

impl Mirror {
    pub fn regraph(&mut self) {
        self.graph = self.stored.iter().filter(|(id, _)| !self.tombs.contains(id)).map(|(a, b)| (*a, b.clone())).collect();
        self.graph_order = self.order.iter().filter(|id| !self.tombs.contains(id)).copied().collect();
    }
    pub fn insert_all(&mut self, es: &[Entry]) {
        for (id, v) in es {
            // an insert makes the id live again (it clears a tombstone left by an earlier delete)
            self.tombs.remove(id);
            if self.stored.insert(*id, v.clone()).is_none() {
                self.order.push(*id);
            }
        }
        self.regraph();
    }
    pub fn insert(&mut self, id: usize, v: &[f32]) {
        self.tombs.remove(&id);
        if self.stored.insert(id, v.to_vec()).is_none() {
            self.order.push(id);
        }
        self.regraph();
    }
    pub fn delete(&mut self, id: usize) {
        self.tombs.insert(id);
        if !self.stored.is_empty() && self.tombs.len() as f64 / self.stored.len() as f64 > 0.3 {
            let t = std::mem::take(&mut self.tombs);
            self.stored.retain(|i, _| !t.contains(i));
            self.order.retain(|i| !t.contains(i));
            self.compactions += 1;
            self.regraph();
        }
    }
    pub fn rebuild(&mut self, es: &[Entry]) {
        self.stored = es.iter().cloned().collect();
        self.order = es.iter().map(|e| e.0).collect();
        self.tombs.clear();
        self.regraph();
    }
    /// the graph still holds an id that was deleted since it was built
    pub fn stale(&self) -> bool {
        self.graph.keys().any(|id| self.tombs.contains(id))
    }
}

/// Which known root cause explains the difference between the ids the history makes live and the
/// ids the implementation's search graph holds (`None`: they agree).
pub fn known_cause(live: &BTreeMap<usize, Vec<f32>>, graph: &BTreeMap<usize, Vec<f32>>, fail_kind: &str) -> Option<&'static str> {
    let dead_visible = graph.keys().any(|id| !live.contains_key(id));
    let live_invisible = live.keys().any(|id| !graph.contains_key(id));
    match (dead_visible, live_invisible) {
        (false, false) => None,
        (true, false) => Some(K_STALE),
        (false, true) => Some(K_TOMBSTONED),
        (true, true) => Some(if fail_kind == "dead_id_returned" { K_STALE } else { K_TOMBSTONED }),
    }
}

// ------------------------------------------------------------------------------------------------
// hnsw_rs prints a two-line notice to stdout on every graph construction (modify_level_scale);
// while a part runs, stdout goes through a filter that drops exactly those lines.

pub struct StdoutFilter;

static FILTER_SAVED_FD: std::sync::atomic::AtomicI32 = std::sync::atomic::AtomicI32::new(-1);
static FILTER_THREAD: std::sync::Mutex<Option<std::thread::JoinHandle<()>>> = std::sync::Mutex::new(None);

extern "C" fn filter_at_exit() {
    use std::io::Write;
    let _ = std::io::stdout().flush();
    let saved = FILTER_SAVED_FD.swap(-1, std::sync::atomic::Ordering::SeqCst);
    if saved < 0 {
        return;
    }
    // SAFETY: restores fd 1; this closes the pipe's only write end, so the filter thread drains and ends
    unsafe {
        libc::dup2(saved, 1);
    }
    if let Some(t) = FILTER_THREAD.lock().ok().and_then(|mut g| g.take()) {
        let _ = t.join();
    }
}

impl StdoutFilter {
    /// Installed once for the rest of the process (run, witness replays, --replay); undone by an
    /// atexit handler that waits until everything written so far has been forwarded.
    pub fn install() {
        use std::io::{BufRead, Write};
        use std::os::fd::FromRawFd;
        static ONCE: std::sync::Once = std::sync::Once::new();
        if std::env::var("VERIF_SHOW_HNSW").is_ok() {
            return;
        }
        ONCE.call_once(|| {
            let _ = std::io::stdout().flush();
            let mut fds = [0i32; 2];
            // SAFETY: plain fd plumbing on descriptors owned here
            unsafe {
                if libc::pipe(fds.as_mut_ptr()) != 0 {
                    return;
                }
                let saved = libc::dup(1);
                if saved < 0 {
                    libc::close(fds[0]);
                    libc::close(fds[1]);
                    return;
                }
                libc::dup2(fds[1], 1);
                libc::close(fds[1]);
                let (rd, out) = (fds[0], saved);
                let th = std::thread::spawn(move || {
                    let reader = std::io::BufReader::new(std::fs::File::from_raw_fd(rd));
                    let mut out = std::mem::ManuallyDrop::new(std::fs::File::from_raw_fd(out));
                    for line in reader.split(b'\n') {
                        let Ok(line) = line else { break };
                        let noise = line.is_empty() || line.windows(19).any(|w| w == b"Current scale value");
                        if !noise {
                            let _ = out.write_all(&line);
                            let _ = out.write_all(b"\n");
                        }
                    }
                });
                FILTER_SAVED_FD.store(saved, std::sync::atomic::Ordering::SeqCst);
                *FILTER_THREAD.lock().unwrap() = Some(th);
                libc::atexit(filter_at_exit);
            }
        });
    }
}

// ------------------------------------------------------------------------------------------------
// generator (everything is decoded from the proptest tape)

const SMALL: [f32; 7] = [0.0, 1.0, -1.0, 2.0, -2.0, 3.0, -3.0];

fn base_vec(t: &mut Tape, d: usize) -> Vec<f32> {
    let shape = t.below(9);
    let small = |t: &mut Tape| SMALL[t.below(7)];
    match shape {
        // small integer grid: many exact ties and duplicates, the zero vector
        0 | 1 | 2 => (0..d).map(|_| small(t)).collect(),
        // eighths
        3 => (0..d).map(|_| t.range(-16, 16) as f32 / 8.0).collect(),
        // axis aligned
        4 => {
            let ax = t.below(d);
            let val = [1.0f32, 2.0, -1.0, 0.5, 3.0, -2.0][t.below(6)];
            (0..d).map(|i| if i == ax { val } else { 0.0 }).collect()
        }
        // near-zero norm, on both sides of the index's 1e-10 zero-norm threshold
        5 => {
            let s = [1e-6f32, 1e-8, 1e-9, 3e-10, 1e-10, 1e-11, 1e-13, 1e-20][t.below(8)];
            (0..d).map(|_| small(t) * s).collect()
        }
        // large magnitude (squares stay finite in f32)
        6 => {
            let s = [1e4f32, 1e8, 1e12, 1e15][t.below(4)];
            (0..d).map(|_| small(t) * s).collect()
        }
        // hundredths
        7 => (0..d).map(|_| t.range(-1000, 1000) as f32 / 100.0).collect(),
        // the zero vector
        _ => vec![0.0; d],
    }
}

/// unit-norm version (f64 normalisation, rounded to f32); the zero vector becomes e0
pub fn unitize(v: &[f32]) -> Vec<f32> {
    let n = norm64(v);
    if n == 0.0 || !n.is_finite() {
        let mut e = vec![0.0f32; v.len()];
        if !e.is_empty() {
            e[0] = 1.0;
        }
        return e;
    }
    v.iter().map(|x| (*x as f64 / n) as f32).collect()
}

#[derive(Clone, Copy, PartialEq, Eq)]
pub enum Mode {
    /// C24: histories with queries
    Search,
    /// C25: histories with save/load, no queries
    Persist,
}

struct Gen {
    metric: Metric,
    dim: usize,
    pool: Vec<Vec<f32>>,
    next: usize,
    /// predicted live entries (only steers id/k choices; the check keeps its own model)
    live: Vec<Entry>,
    dead: Vec<usize>,
}

impl Gen {
    fn fresh_id(&mut self) -> usize {
        let id = self.next * 7;
        self.next += 1;
        id
    }
    /// a vector: a pool entry as it is (duplicates), scaled (same direction), negated or nudged
    fn vec(&mut self, t: &mut Tape) -> Vec<f32> {
        let p = self.pool[t.below(self.pool.len())].clone();
        let v: Vec<f32> = match t.below(7) {
            0 | 1 | 2 => p,
            3 => p.iter().map(|x| x * 2.0).collect(),
            4 => p.iter().map(|x| -x).collect(),
            5 => p.iter().enumerate().map(|(i, x)| if i == 0 { x + 0.125 } else { *x }).collect(),
            _ => p.iter().enumerate().map(|(i, x)| if i + 1 == self.dim { x - 1.0 } else { *x }).collect(),
        };
        if self.metric == Metric::DotProduct {
            unitize(&v)
        } else {
            v
        }
    }
    fn insertable(&self, v: &[f32]) -> bool {
        v.len() == self.dim && (!self.metric.normalising() || norm64(v) > NORM_FLOOR)
    }
    fn note_insert(&mut self, id: usize, v: &[f32]) {
        if !self.insertable(v) {
            return;
        }
        self.dead.retain(|d| *d != id);
        if let Some(e) = self.live.iter_mut().find(|e| e.0 == id) {
            e.1 = v.to_vec();
        } else {
            self.live.push((id, v.to_vec()));
        }
    }
    fn note_delete(&mut self, id: usize) {
        if let Some(p) = self.live.iter().position(|e| e.0 == id) {
            self.live.remove(p);
            self.dead.push(id);
        }
    }
    /// entries for bulk operations: vectors the index must accept (no Err path wanted there)
    fn bulk(&mut self, t: &mut Tape, n: usize) -> Vec<Entry> {
        let mut es = Vec::new();
        for _ in 0..n {
            let v = self.vec(t);
            if self.insertable(&v) {
                es.push((self.fresh_id(), v));
            }
        }
        es
    }
    fn rebuild_list(&mut self, t: &mut Tape) -> Vec<Entry> {
        match t.below(4) {
            // compaction as documented: exactly the current valid pairs
            0 | 1 => self.live.clone(),
            // a changed set: some dropped, some new
            2 => {
                let mut es: Vec<Entry> = Vec::new();
                for e in self.live.clone() {
                    if !t.chance(1, 4) {
                        es.push(e);
                    }
                }
                let extra = t.below(4);
                es.extend(self.bulk(t, extra));
                es
            }
            // a small fresh set (possibly empty)
            _ => {
                let n = t.below(6);
                self.bulk(t, n)
            }
        }
    }
    fn op(&mut self, t: &mut Tape, mode: Mode) -> Op {
        // 20 slots; slot 0 (zero tape) is the cheapest op of the mode
        let slot = t.below(20);
        let kind = match mode {
            Mode::Search => match slot {
                0..=7 => "query",
                8..=11 => "new",
                12..=13 => "update",
                14..=16 => "delete",
                17 => "reinsert",
                18 => "rebuild",
                _ => "odd",
            },
            Mode::Persist => match slot {
                0..=3 => "new",
                4..=6 => "update",
                7..=11 => "delete",
                12 => "reinsert",
                13..=14 => "rebuild",
                15..=17 => "saveload",
                18 => "manager",
                _ => "odd",
            },
        };
        match kind {
            "query" => {
                let q = if t.chance(1, 5) {
                    let b = base_vec(t, self.dim);
                    if self.metric == Metric::DotProduct {
                        unitize(&b)
                    } else {
                        b
                    }
                } else {
                    self.vec(t)
                };
                let k = [KSel::Three, KSel::One, KSel::Ten, KSel::Live, KSel::LivePlus5][t.below(5)];
                let ef = [EfSel::Default, EfSel::Four, EfSel::Live, EfSel::TwoHundred][t.below(4)];
                Op::Query { q, k, ef }
            }
            "update" if !self.live.is_empty() => {
                let id = self.live[t.below(self.live.len())].0;
                let v = self.vec(t);
                self.note_insert(id, &v);
                Op::Insert(id, v)
            }
            "delete" if !self.live.is_empty() => {
                let id = self.live[t.below(self.live.len())].0;
                self.note_delete(id);
                Op::Delete(id)
            }
            "reinsert" if !self.dead.is_empty() => {
                let id = self.dead[t.below(self.dead.len())];
                let v = self.vec(t);
                self.note_insert(id, &v);
                Op::Insert(id, v)
            }
            "rebuild" => {
                let es = self.rebuild_list(t);
                self.live = es.clone();
                self.dead.clear();
                Op::Rebuild(es)
            }
            "saveload" => Op::SaveLoad,
            "manager" => Op::ManagerSaveLoad,
            "odd" => match t.below(3) {
                // delete of an id that was never inserted
                0 => Op::Delete(100_003 + t.below(3)),
                // delete of an already deleted id
                1 if !self.dead.is_empty() => Op::Delete(self.dead[t.below(self.dead.len())]),
                // insert of a vector of the wrong dimension
                _ => {
                    let mut v = self.vec(t);
                    v.push(1.0);
                    if self.metric == Metric::DotProduct {
                        v = unitize(&v);
                    }
                    Op::Insert(self.fresh_id(), v)
                }
            },
            // "new", and the fallbacks of update/delete/reinsert on an empty set
            _ => {
                let id = self.fresh_id();
                let v = self.vec(t);
                self.note_insert(id, &v);
                Op::Insert(id, v)
            }
        }
    }
}

pub const TAPE_LEN: usize = 420;

pub fn decode(tape: &[u16], mode: Mode) -> Case {
    let mut t = Tape::new(tape);
    let metric = [Metric::Euclidean, Metric::Cosine, Metric::Manhattan, Metric::DotProduct][t.below(4)];
    let dim = 1 + t.below(8);
    let m = [16usize, 8][t.below(2)];
    let ef_construction = [200usize, 100][t.below(2)];
    let ef_search = [50usize, 32, 10][t.below(3)];
    let pn = 1 + t.below(12);
    let pool: Vec<Vec<f32>> = (0..pn).map(|_| base_vec(&mut t, dim)).collect();
    // probe: never below the norm floor
    let mut probe: Vec<f32> = (0..=dim).map(|_| t.range(-12, 12) as f32 / 4.0).collect();
    if norm64(&probe[..dim]) == 0.0 {
        probe[0] = 1.0;
    }
    let mut g = Gen { metric, dim, pool, next: 0, live: Vec::new(), dead: Vec::new() };
    let mut ops = Vec::new();
    // initial load: one bulk call, or one insert per vector
    let n0 = t.below(46);
    let load = t.below(4);
    let es = g.bulk(&mut t, n0);
    for e in &es {
        g.note_insert(e.0, &e.1);
    }
    match load {
        0 | 1 => ops.push(Op::Batch(es)),
        2 => ops.push(Op::Rebuild(es)),
        _ => ops.extend(es.into_iter().take(20).map(|e| Op::Insert(e.0, e.1))),
    }
    if load >= 3 {
        // the predicted live set only holds what was really issued
        g.live.truncate(20);
    }
    let n_ops = 4 + t.below(25);
    for _ in 0..n_ops {
        let op = g.op(&mut t, mode);
        ops.push(op);
    }
    if mode == Mode::Search {
        // every search history ends with an exhaustive and a narrow query
        let q = g.vec(&mut t);
        ops.push(Op::Query { q: q.clone(), k: KSel::LivePlus5, ef: EfSel::TwoHundred });
        ops.push(Op::Query { q, k: KSel::One, ef: EfSel::Live });
    }
    Case { metric, dim, m, ef_construction, ef_search, probe, ops }
}

/// Structural shrinker: drop operations, then entries of bulk operations, while the same kind of
/// failure remains.
pub fn shrink_case(c: &Case, still: &dyn Fn(&Case) -> bool) -> Case {
    let mut cur = c.clone();
    for _ in 0..3 {
        let mut changed = false;
        let mut i = cur.ops.len();
        while i > 0 {
            i -= 1;
            let mut cand = cur.clone();
            cand.ops.remove(i);
            if still(&cand) {
                cur = cand;
                changed = true;
            }
        }
        if !changed {
            break;
        }
    }
    for i in 0..cur.ops.len() {
        let n = match &cur.ops[i] {
            Op::Batch(es) | Op::Rebuild(es) => es.len(),
            _ => 0,
        };
        let mut j = n;
        while j > 0 {
            j -= 1;
            let mut cand = cur.clone();
            if let Op::Batch(es) | Op::Rebuild(es) = &mut cand.ops[i] {
                es.remove(j);
            }
            if still(&cand) {
                cur = cand;
            }
        }
    }
    cur
}

pub fn op_text(op: &Op) -> String {
    match op {
        Op::Batch(es) => format!("insert_batch({} vectors, ids {:?})", es.len(), es.iter().map(|e| e.0).collect::<Vec<_>>()),
        Op::Insert(id, v) => format!("insert({id}, {v:?})"),
        Op::Delete(id) => format!("delete({id})"),
        Op::Rebuild(es) => format!("rebuild({} vectors, ids {:?})", es.len(), es.iter().map(|e| e.0).collect::<Vec<_>>()),
        Op::Query { q, k, ef } => format!("search({q:?}, k={k:?}, ef={ef:?})"),
        Op::SaveLoad => "save+load".into(),
        Op::ManagerSaveLoad => "IndexManager save_indexes+load_indexes".into(),
    }
}

// ------------------------------------------------------------------------------------------------
// oracle

/// search keeps returning a deleted id until the graph is next rebuilt (root cause owned by C24)
pub const K_STALE: &str = "C24-deleted-id-still-searchable";
/// insert of a tombstoned id leaves it tombstoned (root cause owned by C25, seen here as a missing neighbour)
pub const K_TOMBSTONED: &str = "C25-insert-tombstoned-id";
pub const K_MANHATTAN: &str = "C24-manhattan-rerank-window";
/// vectors that no graph node outside their group keeps among its 2m layer-0 links are unreachable whatever ef is
pub const K_UNREACHABLE: &str = "C24-unreachable-vector";

/// what the graph stores: the vector, normalised for cosine / dot product
fn prepared(metric: Metric, v: &[f32]) -> Vec<f64> {
    let n = norm64(v);
    if metric.normalising() && n > 0.0 {
        v.iter().map(|x| *x as f64 / n).collect()
    } else {
        v.iter().map(|x| *x as f64).collect()
    }
}

fn l2(a: &[f64], b: &[f64]) -> f64 {
    a.iter().zip(b).map(|(x, y)| (x - y) * (x - y)).sum::<f64>().sqrt()
}

/// Ids the graph search may be unable to reach although ef covers every vector.
///
/// hnsw_rs keeps at most 2m links per node at layer 0 and drops the farthest when a node gets one
/// more; a new node picks its 2m links with a heuristic that prefers "diverse" (possibly far)
/// candidates and fills the rest with the nearest ones. A link between x and y is therefore only
/// taken as certain to exist (and survive) when each is among the other's m nearest: fewer than m
/// other vectors at least as close, seen from either side (half of the slots; the other half can go
/// to diverse picks). A
/// group of vectors with no such certain link from the rest is possibly cut off, and it stays cut
/// off: vectors inserted later find their neighbours by searching the graph, so they never link to
/// it either. The graph is built in `order`; for every prefix of that order the greatest group
/// (not holding the first vector, which is the search's entry point, nor any of `reached`, the ids
/// the judged search did return) without a certain link from the rest of the prefix is added to
/// the result.
pub fn isolated(metric: Metric, set: &BTreeMap<usize, Vec<f32>>, order: &[usize], m: usize, reached: &BTreeSet<usize>) -> BTreeSet<usize> {
    let mut ids: Vec<usize> = order.iter().filter(|id| set.contains_key(id)).copied().collect();
    ids.extend(set.keys().filter(|id| !order.contains(id)));
    let n = ids.len();
    if n <= 2 * m + 1 {
        return BTreeSet::new();
    }
    let pts: Vec<Vec<f64>> = ids.iter().map(|id| prepared(metric, &set[id])).collect();
    let d: Vec<Vec<f64>> = pts.iter().map(|a| pts.iter().map(|b| l2(a, b)).collect()).collect();
    let nrm: Vec<f64> = pts.iter().map(|a| a.iter().map(|x| x * x).sum::<f64>().sqrt()).collect();
    let mut cut = vec![false; n];
    for t in (2 * m + 2)..=n {
        // near(y, x) within the prefix: fewer than m others are at least as close to y as x is
        // (ties within f32 rounding of the stored coordinates count as "at least as close")
        let near = |y: usize, x: usize| (0..t).filter(|z| *z != x && *z != y && d[y][*z] <= d[y][x] * (1.0 + 1e-6) + 1e-6 * (nrm[y] + nrm[x] + nrm[*z])).count() < m;
        // the first vector is the search's entry point (every vector gets level 0, but for the rare random
        // exception), so it is on the reachable side, like everything the judged search returned
        let mut inside: Vec<bool> = (0..t).map(|i| i != 0 && !cut[i] && !reached.contains(&ids[i])).collect();
        loop {
            let mut changed = false;
            for x in 0..t {
                if inside[x] && (0..t).any(|y| !cut[y] && !inside[y] && near(y, x) && near(x, y)) {
                    inside[x] = false;
                    changed = true;
                }
            }
            if !changed {
                break;
            }
        }
        for x in 0..t {
            cut[x] |= inside[x];
        }
    }
    (0..n).filter(|i| cut[*i]).map(|i| ids[i]).collect()
}

/// The Manhattan search re-ranks only the 4k L2-nearest: is every L1-closer vector that the result
/// lacks outside that window?
fn outside_l2_window(live: &BTreeMap<usize, Vec<f32>>, q: &[f32], k: usize, res: &[(usize, f64)]) -> bool {
    let Some(worst) = res.iter().map(|r| r.1).fold(None, |a: Option<f64>, d| Some(a.map_or(d, |x| x.max(d)))) else { return false };
    let returned: BTreeSet<usize> = res.iter().map(|r| r.0).collect();
    let better: Vec<&usize> = live.iter().filter(|(id, v)| !returned.contains(id) && closer_than(brute(Metric::Manhattan, q, v), worst)).map(|(id, _)| id).collect();
    !better.is_empty()
        && better.iter().all(|x| {
            let dx = brute(Metric::Euclidean, q, &live[x]);
            live.iter().filter(|(z, v)| z != x && brute(Metric::Euclidean, q, v) <= dx * (1.0 + 1e-6)).count() >= 4 * k
        })
}

/// Judge one search result against the live map. `exact_dist`: the metric is defined for this
/// query (not a sub-threshold query of a normalising metric).
pub fn judge(metric: Metric, live: &BTreeMap<usize, Vec<f32>>, q: &[f32], k: usize, ef: usize, res: &[(usize, f64)], exact_dist: bool) -> CheckResult {
    let ctx = || format!("metric {} query {q:?} k={k} ef={ef} live={} -> {res:?}", metric.name(), live.len());
    if res.len() > k {
        return Err(Fail::new("too_many_results", format!("{} results for k={k}: {}", res.len(), ctx())));
    }
    let mut seen = BTreeSet::new();
    for (id, d) in res {
        if !seen.insert(*id) {
            return Err(Fail::new("duplicate_id", format!("id {id} returned twice: {}", ctx())));
        }
        if !live.contains_key(id) {
            return Err(Fail::new("dead_id_returned", format!("id {id} is not live (deleted or never inserted): {}", ctx())));
        }
        if d.is_nan() {
            return Err(Fail::new("distance_nan", format!("id {id} has distance NaN: {}", ctx())));
        }
    }
    for w in res.windows(2) {
        if w[1].1 < w[0].1 {
            return Err(Fail::new("not_sorted", format!("distance {} after {}: {}", w[1].1, w[0].1, ctx())));
        }
    }
    if !exact_dist {
        return Ok(());
    }
    for (id, d) in res {
        let b = brute(metric, q, &live[id]);
        if !((d - b).abs() <= tol(b)) {
            return Err(Fail::new("wrong_distance", format!("id {id} (vector {:?}) reported {d}, brute force {b}: {}", live[id], ctx())));
        }
    }
    if live.len() <= ef {
        let want = k.min(live.len());
        let mut all: Vec<(f64, usize)> = live.iter().map(|(id, v)| (brute(metric, q, v), *id)).collect();
        all.sort_by(|a, b| a.partial_cmp(b).unwrap_or(std::cmp::Ordering::Equal));
        if res.len() != want {
            return Err(Fail::new(
                "wrong_result_count",
                format!("live ({}) <= ef ({ef}) so min(k, live) = {want} results are due, got {}: {}\nbrute force nearest: {:?}", live.len(), res.len(), ctx(), &all[..want.min(12)]),
            ));
        }
        for (i, (id, d)) in res.iter().enumerate() {
            let b = all[i].0;
            if !((d - b).abs() <= tol(b)) {
                return Err(Fail::new(
                    "not_k_nearest",
                    format!("rank {i}: returned id {id} at {d}, but the {i}-th smallest brute-force distance is {b} (id {}): {}\nbrute force nearest: {:?}", all[i].1, ctx(), &all[..want.min(12)]),
                ));
            }
        }
    }
    Ok(())
}

/// Is the result right for `set`, up to the Manhattan re-ranking window? Returns the judgement and
/// whether the window was needed. `window_open`: that finding is still open (else the window explains nothing).
fn explains(window_open: bool, metric: Metric, set: &BTreeMap<usize, Vec<f32>>, q: &[f32], k: usize, ef: usize, res: &[(usize, f64)], exact_dist: bool) -> (bool, bool) {
    match judge(metric, set, q, k, ef, res, exact_dist) {
        Ok(()) => (true, false),
        Err(e) => {
            let w = window_open && metric == Metric::Manhattan && e.kind == "not_k_nearest" && set.len() > 4 * k && outside_l2_window(set, q, k, res);
            (w, w)
        }
    }
}

pub fn resolve_k(k: KSel, live: usize) -> usize {
    match k {
        KSel::One => 1,
        KSel::Three => 3,
        KSel::Ten => 10,
        KSel::Live => live,
        KSel::LivePlus5 => live + 5,
    }
}

pub fn resolve_ef(ef: EfSel, live: usize) -> Option<usize> {
    match ef {
        EfSel::Default => None,
        EfSel::Four => Some(4),
        EfSel::Live => Some(live),
        EfSel::TwoHundred => Some(200),
    }
}

pub fn check(ctx: &Ctx, c: &Case, obs: &mut Obs) -> CheckResult {
    run_case(ctx, c, obs, true, true)
}

/// Witness replays of the known findings: nothing is tolerated, the first failure is reported.
pub fn check_untolerant(ctx: &Ctx, c: &Case, obs: &mut Obs) -> CheckResult {
    run_case(ctx, c, obs, true, false)
}

/// How often a failure that no deterministic finding explains is re-executed before it is reported.
pub const RERUNS: usize = 4;

/// `first`: this is the judged execution (not a re-execution made to see whether a failure is
/// reproducible).
fn run_case(ctx: &Ctx, c: &Case, obs: &mut Obs, first: bool, tolerate: bool) -> CheckResult {
    let mut idx = HnswIndex::new(c.config());
    let mut tolerated = 0u64;
    let mut classes: BTreeSet<String> = BTreeSet::new();
    // history model: id -> latest vector of every live id
    let mut live: BTreeMap<usize, Vec<f32>> = BTreeMap::new();
    let mut mirror = Mirror::default();
    let mut changed = false; // a deletion or an update happened
    let (mut queries, mut exact_claims, mut rejected, mut skipped) = (0u64, 0u64, 0u64, 0u64);
    let mut tomb_inserts = 0u64;
    let mut trace: Vec<String> = Vec::new();
    for (i, op) in c.ops.iter().enumerate() {
        let hist = |trace: &[String]| -> String {
            let from = trace.len().saturating_sub(12);
            format!("history (last {} of {} ops): {}", trace.len() - from, i, trace[from..].join("; "))
        };
        match op {
            Op::Batch(es) => match idx.insert_batch(es) {
                Ok(()) => {
                    for (id, v) in es {
                        if mirror.tombs.contains(id) {
                            tomb_inserts += 1;
                        }
                        changed |= live.insert(*id, v.clone()).is_some();
                    }
                    mirror.insert_all(es);
                }
                Err(_) => rejected += 1,
            },
            Op::Insert(id, v) => {
                let dim_now = live.values().next().map(|x| x.len());
                match idx.insert(*id, v) {
                    Ok(()) => {
                        if dim_now.is_some_and(|d| d != v.len()) {
                            return Err(Fail::new("accepted_wrong_dimension", format!("insert({id}, {v:?}) accepted into an index holding vectors of dimension {dim_now:?}; {}", hist(&trace))));
                        }
                        if mirror.tombs.contains(id) {
                            tomb_inserts += 1;
                        }
                        changed |= live.insert(*id, v.clone()).is_some();
                        mirror.insert(*id, v);
                    }
                    Err(_) => rejected += 1,
                }
            }
            Op::Delete(id) => {
                idx.delete(*id);
                changed |= live.remove(id).is_some();
                mirror.delete(*id);
            }
            Op::Rebuild(es) => match idx.rebuild(es) {
                Ok(()) => {
                    live = es.iter().cloned().collect();
                    mirror.rebuild(es);
                }
                Err(_) => rejected += 1,
            },
            Op::Query { q, k, ef } => {
                if live.values().next().is_some_and(|v| v.len() != q.len()) {
                    // the index changed dimension (emptied, then a vector of another dimension was accepted)
                    skipped += 1;
                    continue;
                }
                let n = live.len();
                let kk = resolve_k(*k, n);
                let efo = resolve_ef(*ef, n);
                let ef_eff = efo.unwrap_or(c.ef_search);
                let res = idx.search(q, kk, efo);
                let defined = !c.metric.normalising() || norm64(q) > NORM_FLOOR;
                queries += 1;
                if n <= ef_eff && defined {
                    exact_claims += 1;
                    classes.insert("exact_claim(live<=ef)".into());
                }
                for (cond, name) in [(!defined, "query_below_norm_threshold(validity only)"), (kk > n, "k>live"), (ef_eff < kk, "ef<k"), (n > ef_eff, "live>ef(validity only)"), (n > 2 * c.m + 1, "live>2m+1"), (kk == 0, "k=0")] {
                    if cond {
                        classes.insert(name.into());
                    }
                }
                if changed && n >= 3 {
                    obs.nontrivial = true;
                }
                if mirror.stale() {
                    classes.insert("search right after a delete (no graph rebuild in between)".into());
                }
                if let Err(mut f) = judge(c.metric, &live, q, kk, ef_eff, &res, defined) {
                    f.detail = format!("op #{i} {}: {}\n{}", op_text(op), f.detail, hist(&trace));
                    // known root causes, each recognised by re-judging against what that defect predicts:
                    // the search sees the ids its graph was last built from ...
                    let base = &mirror.graph;
                    // `judged`: the id set a search is expected to see. While the stale-graph / tombstone
                    // findings are open that is the graph's own id set; once they are fixed the index
                    // filters deleted ids and revives re-inserted ones, so it is the live set (the graph's
                    // nodes still matter for reachability below).
                    let findings_open = ctx.is_open_known(K_STALE) || ctx.is_open_known(K_TOMBSTONED);
                    let judged: &BTreeMap<usize, Vec<f32>> = if findings_open { base } else { &live };
                    let cause = known_cause(&live, judged, &f.kind);
                    let dead: Vec<&usize> = base.keys().filter(|id| !live.contains_key(id)).collect();
                    let lost: Vec<&usize> = live.keys().filter(|id| !base.contains_key(id)).collect();
                    let why = format!("deleted ids still in the search graph (no graph rebuild since their delete) {dead:?}; ids inserted while tombstoned and therefore invisible {lost:?}");
                    let also = if cause.is_some() { format!("; and {why}") } else { String::new() };
                    let window = format!("every closer vector the result lacks is outside the 4k = {} L2-nearest that the Manhattan search re-ranks by L1", 4 * kk);
                    match explains(ctx.is_open_known(K_MANHATTAN), c.metric, judged, q, kk, ef_eff, &res, defined) {
                        (true, false) => {
                            if let Some(cause) = cause {
                                if tolerate && ctx.is_open_known(cause) {
                                    // While that finding is open the history goes on: the result is exactly what the
                                    // finding predicts (same predicate as its signature); strict runs stop here.
                                    tolerated += 1;
                                    classes.insert(format!("search judged against the graph's id set (open finding {cause})"));
                                    trace.push(op_text(op));
                                    continue;
                                }
                                f.detail = format!("{}\nexplained by: {why}", f.detail);
                                return Err(f.known(cause));
                            }
                        }
                        (true, true) => {
                            f.detail = format!("{}\nexplained by: {window}{also}", f.detail);
                            return Err(f.known(cause.unwrap_or(K_MANHATTAN)));
                        }
                        _ => {}
                    }
                    // ... and groups of vectors can be cut off in the graph
                    if base.len() > 2 * c.m + 1 {
                        let returned: BTreeSet<usize> = res.iter().map(|r| r.0).collect();
                        // of the vectors that can be cut off, those the result would have to contain: all of them when
                        // fewer than k came back, else the ones closer than the farthest hit
                        let worst = res.iter().map(|r| r.1).fold(f64::NEG_INFINITY, f64::max);
                        let cut: BTreeSet<usize> = isolated(c.metric, base, &mirror.graph_order, c.m, &returned)
                            .into_iter()
                            .filter(|id| res.len() < kk || !defined || closer_than(brute(c.metric, q, &base[id]), worst))
                            .collect();
                        let reduced: BTreeMap<usize, Vec<f32>> = judged.iter().filter(|(id, _)| !cut.contains(id)).map(|(a, b)| (*a, b.clone())).collect();
                        let (ok, win) = explains(ctx.is_open_known(K_MANHATTAN), c.metric, &reduced, q, kk, ef_eff, &res, defined);
                        if !cut.is_empty() && ok {
                            f.detail = format!(
                                "{}\nexplained by: ids {cut:?} can be cut off in the graph: when the graph is built in insertion order, at some point no vector outside that group has one of them among its m = {} nearest (mutually; of the 2m link slots per node half can go to the selection heuristic's diverse picks), so no link into the group is certain to exist{}{also}",
                                f.detail,
                                c.m,
                                if win { format!("; and {window}") } else { String::new() }
                            );
                            return Err(f.known(cause.unwrap_or(K_UNREACHABLE)));
                        }
                    }
                    // ... and hnsw_rs draws a level per vector from the OS RNG: a vector that gets a level >= 1
                    // (probability ~3e-5 with m = 8 under the index's level scale) is linked from the other
                    // nodes' level-1 lists only and a layer-0 search finds it only when it is the entry pivot.
                    // Such a miss cannot be derived from the case; it is recognised by not being reproducible
                    // when the identical history is executed again on a fresh index.
                    let missing_only = judge(c.metric, judged, q, kk, ef_eff, &res, defined).err().is_some_and(|e| matches!(e.kind.as_str(), "wrong_result_count" | "not_k_nearest"));
                    if first && missing_only {
                        let again = (0..RERUNS).filter(|_| run_case(ctx, c, &mut Obs::default(), false, tolerate).is_err_and(|g| g.known.is_none())).count();
                        if again < RERUNS {
                            f.detail = format!(
                                "{}\nexplained by: not reproducible: the identical history failed this way in only {again} of {RERUNS} re-executions on a fresh index, so the miss depends on hnsw_rs's random level assignment (a vector with level >= 1 is invisible to the layer-0 search unless it is the pivot){also}",
                                f.detail
                            );
                            return Err(f.known(cause.unwrap_or(K_UNREACHABLE)));
                        }
                    }
                    if std::env::var("VERIF_DEBUG_FAIL").is_ok() && first {
                        eprintln!("UNEXPLAINED {} {}\nCASE {}", f.kind, f.detail, serde_json::to_string(c).unwrap_or_default());
                    }
                    return Err(f);
                }
            }
            Op::SaveLoad | Op::ManagerSaveLoad => {}
        }
        trace.push(op_text(op));
    }
    if queries == 0 {
        obs.discard = Some("no query judged".into());
        return Ok(());
    }
    for cl in &classes {
        obs.class(cl);
    }
    obs.class(&format!("metric: {}", c.metric.name()));
    obs.class_if(mirror.compactions > 0, "auto_compaction_happened");
    obs.class_if(c.ops.iter().any(|o| matches!(o, Op::Rebuild(_))), "rebuild");
    obs.class_if(changed, "update_or_delete");
    obs.class_if(tomb_inserts > 0, "insert_of_tombstoned_id");
    obs.class_if(rejected > 0, "insert_rejected_by_index");
    obs.class_if(c.dim == 1, "dim 1");
    let vecs = || {
        c.ops.iter().flat_map(|o| match o {
            Op::Batch(es) | Op::Rebuild(es) => es.iter().map(|e| &e.1).collect::<Vec<_>>(),
            Op::Insert(_, v) => vec![v],
            _ => vec![],
        })
    };
    let all: Vec<&Vec<f32>> = vecs().collect();
    let distinct: BTreeSet<Vec<u32>> = all.iter().map(|v| v.iter().map(|x| x.to_bits()).collect()).collect();
    obs.class_if(distinct.len() < all.len(), "duplicate_vectors");
    obs.class_if(all.iter().any(|v| norm64(v) > 0.0 && norm64(v) < 1e-5), "near_zero_norm_vector");
    obs.class_if(all.iter().any(|v| norm64(v) > 1e7), "large_magnitude_vector");
    obs.class_if(all.len() >= 40, ">=40 vectors");
    obs.count("queries_matching_an_open_finding_exactly", tolerated);
    obs.count("queries_judged", queries);
    obs.count("queries_with_exact_claim", exact_claims);
    obs.count("queries_skipped_dimension_changed", skipped);
    obs.count("operations_rejected_by_index", rejected);
    obs.sample = Some(json!({
        "metric": c.metric.name(), "dim": c.dim, "m": c.m, "ef_search": c.ef_search,
        "ops": c.ops.iter().take(14).map(|o| crate::common::runner::truncate(&op_text(o), 110)).collect::<Vec<_>>(),
        "n_ops": c.ops.len(), "queries_judged": queries, "with_exact_claim": exact_claims,
    }));
    Ok(())
}

// ------------------------------------------------------------------------------------------------
// directed cases: the smallest histories of each kind, always run

fn directed() -> Vec<Case> {
    let mut out = Vec::new();
    for metric in [Metric::Euclidean, Metric::Cosine, Metric::Manhattan, Metric::DotProduct] {
        let mk = |v: &[f32]| if metric == Metric::DotProduct { unitize(v) } else { v.to_vec() };
        let base = |ops: Vec<Op>| Case { metric, dim: 2, m: 16, ef_construction: 200, ef_search: 50, probe: vec![1.0, 0.5, 0.25], ops };
        let pts: Vec<Entry> = vec![(0, mk(&[1.0, 0.0])), (7, mk(&[0.0, 1.0])), (14, mk(&[1.0, 1.0])), (21, mk(&[-1.0, 0.5])), (28, mk(&[1.0, 0.0])), (35, mk(&[2.0, 1.0]))];
        let q = |v: &[f32], k, ef| Op::Query { q: mk(v), k, ef };
        // plain
        out.push(base(vec![Op::Batch(pts.clone()), q(&[1.0, 0.1], KSel::Three, EfSel::Default), q(&[1.0, 0.1], KSel::LivePlus5, EfSel::TwoHundred)]));
        // update moves a vector
        out.push(base(vec![Op::Batch(pts.clone()), Op::Insert(7, mk(&[1.0, 0.05])), q(&[1.0, 0.1], KSel::One, EfSel::Live), q(&[0.0, 1.0], KSel::Live, EfSel::Default)]));
        // delete below the compaction threshold, then above it
        out.push(base(vec![Op::Batch(pts.clone()), Op::Delete(0), q(&[1.0, 0.0], KSel::Ten, EfSel::Default), Op::Delete(28), q(&[1.0, 0.0], KSel::Ten, EfSel::Default)]));
        // delete then re-insert the same id, no compaction in between
        out.push(base(vec![Op::Batch(pts.clone()), Op::Delete(14), Op::Insert(14, mk(&[1.0, 0.9])), q(&[1.0, 1.0], KSel::Live, EfSel::TwoHundred)]));
        // rebuild with the surviving pairs
        out.push(base(vec![Op::Batch(pts.clone()), Op::Delete(21), Op::Rebuild(pts.iter().filter(|e| e.0 != 21).cloned().collect()), q(&[-1.0, 0.5], KSel::LivePlus5, EfSel::Live)]));
    }
    // L1 and L2 disagree about the nearest neighbour: 4 diagonal points are L2-closer, (3,0) is L1-closest
    let diag: Vec<Entry> = vec![(0, vec![2.0, 2.0]), (7, vec![-2.0, 2.0]), (14, vec![2.0, -2.0]), (21, vec![-2.0, -2.0]), (28, vec![3.0, 0.0])];
    out.push(Case {
        metric: Metric::Manhattan,
        dim: 2,
        m: 16,
        ef_construction: 200,
        ef_search: 50,
        probe: vec![1.0, 0.5, 0.25],
        ops: vec![Op::Batch(diag), Op::Query { q: vec![0.0, 0.0], k: KSel::One, ef: EfSel::Default }],
    });
    out
}

pub fn strategy() -> impl Strategy<Value = Case> {
    tape_strategy(TAPE_LEN).prop_map(|t| decode(&t, Mode::Search))
}

pub fn run(ctx: &Ctx) {
    ctx.set_rule(
        "A case is a HnswIndex configuration (metric in {euclidean, cosine, manhattan, dot_product}, dim 1-8, m in {8,16}, ef_construction in \
         {100,200}, ef_search in {10,32,50}) and a history decoded from a proptest tape: an initial load of 0-45 vectors (insert_batch, rebuild or \
         one insert each) followed by 4-28 operations drawn from search (40%), insert of a new id, update of a live id, delete, re-insert of a \
         deleted id, rebuild (with exactly the live pairs, a changed set or a small fresh set), delete of an unknown/already deleted id, insert of \
         a wrong-dimension vector; two final searches (k=live+5/ef=200 and k=1/ef=live). Vectors come from a pool of 1-12 base vectors (small-integer \
         grid incl. the zero vector, eighths, axis-aligned, near-zero norm 1e-6..1e-20 on both sides of the index's 1e-10 zero-norm threshold, large \
         magnitude 1e4..1e15, hundredths) used as they are (exact duplicates), doubled (same direction), negated or nudged; queries are drawn the same \
         way, so they often coincide with stored vectors. k in {1,3,10,live,live+5}, ef override in {None,4,live,200}. Every search is judged: <= k \
         entries, distinct ids, every id live in the history model, distances non-decreasing, each distance = brute-force f64 distance of the metric \
         for that id's latest vector within 1e-4*max(1,|d|); when live <= ef exactly min(k,live) entries whose sorted distances equal the k smallest \
         brute-force distances within the same tolerance. Non-trivial = a deletion or an update of an existing id preceded a judged search over >= 3 \
         live vectors. Distinct = distinct case JSON. A few directed minimal histories per metric are always run first.",
    );
    ctx.assume("dot_product: stored vectors and queries are generated unit-norm (the index normalises both); the reported distance is compared with the negated inner product, which there coincides with the negated cosine the index computes");
    ctx.assume("cosine/dot_product queries whose norm is <= 1e-9 (the index's own zero-norm threshold is 1e-10; the metric is undefined for a zero query) are judged on validity only (<= k, distinct, live, sorted), not on distance values or exactness");
    ctx.assume("'search breadth' is the ef passed to search, or the configured ef_search when None; exactness is only claimed when live <= that value");
    ctx.assume("an Err from insert/insert_batch/rebuild (zero-norm vector for cosine, dimension mismatch) means the operation was rejected and the model is unchanged; bulk operations are generated without vectors the index documents as unacceptable");
    ctx.assume("components are finite and |x| <= 3e15 so that squared differences stay finite in f32");
    ctx.assume("hnsw_rs draws graph levels from the OS RNG (and iterates HashMaps): graphs differ between runs; every asserted predicate is required of every graph. A failure is attributed to an open finding only when the result is exactly what that finding predicts (re-judged against the id set the finding implies); a missing-neighbour failure that no finding predicts is re-executed 4 times on fresh indexes and attributed to C24-unreachable-vector only if it does not reproduce every time");
    ctx.assume("while C24-deleted-id-still-searchable / C25-insert-tombstoned-id are open, a search whose result is exactly right for the id set the search graph was last built from does not end the history (counted in queries_matching_an_open_finding_exactly and in a class); under VERIF_STRICT or once they are fixed it is a failure");
    StdoutFilter::install();
    ctx.run_enum("directed", directed(), false, |c, o| check(ctx, c, o));
    let sh: &(dyn Fn(&Case, &dyn Fn(&Case) -> bool) -> Case + Sync) = &shrink_case;
    ctx.run_part_with("search_histories", ctx.cases(4000, 80_000), strategy, |c, o| check(ctx, c, o), Some(sh));
}

pub fn replay(ctx: &Ctx, part: &str, case: &J) -> Option<Result<CheckResult, String>> {
    StdoutFilter::install();
    Some(match part {
        "directed" | "search_histories" => ctx.replay_case(part, case, |c: &Case, o: &mut Obs| check(ctx, c, o)),
        "witness" => ctx.replay_case(part, case, |c: &Case, o: &mut Obs| check_untolerant(ctx, c, o)),
        _ => return None,
    })
}
