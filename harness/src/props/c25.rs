//! C25 — vector index state follows its history and persists.
//!
//! A model (id -> latest vector, tombstone set) is advanced next to a `HnswIndex` through inserts,
//! updates, deletes, rebuilds and save/load cycles; after every operation the index's `len()`,
//! `tombstone_count()`, `dimension()`, `metric()`, configuration and the live set recovered by
//! exhaustive searches (with the distance of every hit) must be the model's.

use super::c24::{brute, decode, norm64, op_text, shrink_case, tol, unitize, Case, Entry, Metric, Mirror, Mode, Op, isolated, StdoutFilter, RERUNS, K_STALE, K_TOMBSTONED, K_UNREACHABLE, TAPE_LEN};
use crate::common::gen::tape_strategy;
use crate::common::store::Scratch;
use crate::common::{CheckResult, Ctx, Fail, Obs};
use inputlayer::hnsw_index::HnswIndex;
use inputlayer::index_manager::{HnswConfig, Index, IndexManager, IndexType, RegisteredIndex};
use proptest::prelude::*;
use serde_json::{json, Value as J};
use std::collections::{BTreeMap, BTreeSet};

/// The state the history implies. Documented contract: `len()` counts entries including
/// tombstoned ones, `delete` marks a tombstone, the index compacts itself (drops tombstoned
/// entries, clears tombstones) when tombstones exceed 30% of the entries, `rebuild` replaces the
/// contents and clears tombstones, `dimension()` is 0 when empty.
///
/// What a delete of a never-inserted id does to the counters is not documented; both readings
/// are kept (`count_unknown`): it is counted as a tombstone like any other (what the code does),
/// or it is ignored. An observation must match one reading, consistently over the history.
#[derive(Clone, Debug)]
struct Spec {
    count_unknown: bool,
    stored: Vec<Entry>,
    tombs: BTreeSet<usize>,
}

impl Spec {
    fn new(count_unknown: bool) -> Self {
        Spec { count_unknown, stored: Vec::new(), tombs: BTreeSet::new() }
    }
    fn insert(&mut self, id: usize, v: &[f32]) {
        if let Some(e) = self.stored.iter_mut().find(|e| e.0 == id) {
            e.1 = v.to_vec();
        } else {
            self.stored.push((id, v.to_vec()));
        }
        // an inserted id is live
        self.tombs.remove(&id);
    }
    fn delete(&mut self, id: usize) {
        if self.count_unknown || self.stored.iter().any(|e| e.0 == id) {
            self.tombs.insert(id);
        }
        if !self.stored.is_empty() && self.tombs.len() as f64 / self.stored.len() as f64 > 0.3 {
            let t = std::mem::take(&mut self.tombs);
            self.stored.retain(|e| !t.contains(&e.0));
        }
    }
    fn rebuild(&mut self, es: &[Entry]) {
        self.stored = es.to_vec();
        self.tombs.clear();
    }
    fn live(&self) -> BTreeMap<usize, Vec<f32>> {
        self.stored.iter().filter(|e| !self.tombs.contains(&e.0)).cloned().collect()
    }
    fn dim(&self) -> usize {
        self.stored.first().map_or(0, |e| e.1.len())
    }
    fn expect(&self) -> String {
        format!(
            "len={} tombstone_count={} dimension={} live ids={:?}",
            self.stored.len(),
            self.tombs.len(),
            self.dim(),
            self.live().keys().collect::<Vec<_>>()
        )
    }
}

/// What the index shows after an operation.
struct Seen {
    len: usize,
    tombs: usize,
    dim: usize,
    /// (probe, hits) of each exhaustive search
    searches: Vec<(Vec<f32>, Vec<(usize, f64)>)>,
}

fn observe(idx: &dyn Index, probes: &[Vec<f32>]) -> Seen {
    let len = idx.len();
    let searches = probes.iter().map(|p| (p.clone(), idx.search(p, len + 5, Some((4 * len).max(200))))).collect();
    Seen { len, tombs: idx.tombstone_count(), dim: idx.dimension(), searches }
}

/// first difference between what is seen and what a reading of the contract implies;
/// `visible`: ids (with vectors) an exhaustive search is expected to find, when not the live set
fn differs(metric: Metric, s: &Spec, seen: &Seen, visible: Option<&BTreeMap<usize, Vec<f32>>>) -> Option<(&'static str, String)> {
    if seen.len != s.stored.len() {
        return Some(("len_differs", format!("len() = {}, history implies {}", seen.len, s.stored.len())));
    }
    if seen.tombs != s.tombs.len() {
        return Some(("tombstone_count_differs", format!("tombstone_count() = {}, history implies {} ({:?})", seen.tombs, s.tombs.len(), s.tombs)));
    }
    if seen.dim != s.dim() {
        return Some(("dimension_differs", format!("dimension() = {}, history implies {}", seen.dim, s.dim())));
    }
    let live = visible.cloned().unwrap_or_else(|| s.live());
    for (p, hits) in &seen.searches {
        let ids: Vec<usize> = hits.iter().map(|h| h.0).collect();
        let set: BTreeSet<usize> = ids.iter().copied().collect();
        if set.len() != ids.len() {
            return Some(("live_set_differs", format!("exhaustive search {p:?} returned an id twice: {hits:?}")));
        }
        let want: BTreeSet<usize> = live.keys().copied().collect();
        if set != want {
            let missing: Vec<_> = want.difference(&set).collect();
            let extra: Vec<_> = set.difference(&want).collect();
            return Some(("live_set_differs", format!("exhaustive search {p:?} (k=len+5, ef=max(200,4*len)) found ids {set:?}; live per history {want:?}; missing {missing:?} unexpected {extra:?}")));
        }
        for (id, d) in hits {
            let b = brute(metric, p, &live[id]);
            if !((d - b).abs() <= tol(b)) {
                return Some(("vector_differs", format!("id {id}: distance to probe {p:?} is {d}, but its latest vector {:?} is at {b}", live[id])));
            }
        }
    }
    None
}

fn probe_for(c: &Case, dim: usize) -> Vec<f32> {
    let d = if dim == 0 { c.dim } else { dim };
    let mut p: Vec<f32> = c.probe.iter().copied().chain(std::iter::repeat(0.5)).take(d).collect();
    if norm64(&p) == 0.0 {
        p[0] = 1.0;
    }
    if c.metric == Metric::DotProduct {
        unitize(&p)
    } else {
        p
    }
}

/// Attribute a `live_set_differs` failure to C24's finding "unreachable vector" when the search
/// lacks only vectors that can be cut off in the graph (derived from the vectors and their
/// insertion order), or when the miss is not reproducible (`rerun_fails` re-executes the history on
/// a fresh index: the random variety, a vector that hnsw_rs gave a level >= 1).
#[allow(clippy::too_many_arguments)]
fn attribute_unreachable(c: &Case, mut f: Fail, seen: &Seen, specs: &[Spec], expect: &BTreeMap<usize, Vec<f32>>, order: &[usize], rerun_fails: Option<&dyn Fn() -> bool>) -> Fail {
    let found: BTreeSet<usize> = seen.searches.iter().flat_map(|(_, h)| h.iter().map(|x| x.0)).collect();
    let cut = isolated(c.metric, expect, order, c.m, &found);
    let reduced: BTreeMap<usize, Vec<f32>> = expect.iter().filter(|(id, _)| !cut.contains(id)).map(|(a, b)| (*a, b.clone())).collect();
    let same_everywhere = seen.searches.iter().all(|(_, h)| h.iter().map(|x| x.0).collect::<BTreeSet<_>>() == found);
    let only_missing = found.iter().all(|id| expect.contains_key(id));
    if !cut.is_empty() && same_everywhere && specs.iter().any(|s| differs(c.metric, s, seen, Some(&reduced)).is_none()) {
        f.detail = format!("{}\nexplained by: ids {cut:?} can be cut off in the graph (at some point of the insertion order no vector outside that set has any of them among its m = {} nearest, mutually)", f.detail, c.m);
        return f.known(K_UNREACHABLE);
    }
    if let (true, Some(rerun)) = (only_missing, rerun_fails) {
        let again = (0..RERUNS).filter(|_| rerun()).count();
        if again < RERUNS {
            f.detail = format!("{}\nexplained by: not reproducible: the identical history failed this way in only {again} of {RERUNS} re-executions, so the miss depends on hnsw_rs's random level assignment", f.detail);
            return f.known(K_UNREACHABLE);
        }
    }
    f
}

fn fail_at(i: usize, op: &Op, kind: &str, what: String, trace: &[String]) -> Fail {
    let from = trace.len().saturating_sub(14);
    Fail::new(kind, format!("after op #{i} {}: {what}\nhistory (last {} of {i} ops): {}", op_text(op), trace.len() - from, trace[from..].join("; ")))
}

pub fn check(ctx: &Ctx, c: &Case, obs: &mut Obs) -> CheckResult {
    run_case(ctx, c, obs, true)
}

/// `first`: the judged execution (not a re-execution made to see whether a failure is reproducible)
fn run_case(ctx: &Ctx, c: &Case, obs: &mut Obs, first: bool) -> CheckResult {
    let cfg = c.config();
    let mut idx = HnswIndex::new(cfg.clone());
    let mut specs = vec![Spec::new(true), Spec::new(false)];
    let mut mirror = Mirror::default();
    let mut trace: Vec<String> = Vec::new();
    let sc = Scratch::new("c25");
    let mut ever_deleted: BTreeSet<usize> = BTreeSet::new();
    let mut deleted_since_persist = false;
    let mut stale_checks = 0u64;
    let (mut reinserts, mut updates, mut rejected, mut persists, mut persist_after_delete, mut unknown_deletes, mut emptied) = (0u64, 0u64, 0u64, 0u64, 0u64, 0u64, 0u64);
    let mut any_delete = false;
    let (mut persist_right_after_delete, mut via_manager) = (false, false);
    for (i, op) in c.ops.iter().enumerate() {
        // does this operation insert an id that is tombstoned right now?
        let hits_tombstone = match op {
            Op::Insert(id, _) => mirror.tombs.contains(id),
            Op::Batch(es) => es.iter().any(|e| mirror.tombs.contains(&e.0)),
            _ => false,
        };
        let mut extra_probe: Option<Vec<f32>> = None;
        let mut after_load: Option<HnswConfig> = None;
        match op {
            Op::Batch(es) => match idx.insert_batch(es) {
                Ok(()) => {
                    for (id, v) in es {
                        specs.iter_mut().for_each(|s| s.insert(*id, v));
                    }
                    mirror.insert_all(es);
                    deleted_since_persist = false;
                }
                Err(_) => rejected += 1,
            },
            Op::Insert(id, v) => {
                let dim_before = specs[0].dim();
                match idx.insert(*id, v) {
                    Ok(()) => {
                        if dim_before != 0 && dim_before != v.len() {
                            return Err(fail_at(i, op, "accepted_wrong_dimension", format!("accepted into an index of dimension {dim_before}"), &trace));
                        }
                        let was_live = specs[0].live().contains_key(id);
                        updates += was_live as u64;
                        if !was_live && ever_deleted.contains(id) {
                            reinserts += 1;
                        }
                        specs.iter_mut().for_each(|s| s.insert(*id, v));
                        mirror.insert(*id, v);
                        deleted_since_persist = false;
                        extra_probe = Some(v.clone());
                    }
                    Err(_) => rejected += 1,
                }
            }
            Op::Delete(id) => {
                let known = specs[0].stored.iter().any(|e| e.0 == *id);
                unknown_deletes += !known as u64;
                idx.delete(*id);
                if specs[0].live().contains_key(id) {
                    ever_deleted.insert(*id);
                    any_delete = true;
                    deleted_since_persist = true;
                }
                specs.iter_mut().for_each(|s| s.delete(*id));
                mirror.delete(*id);
                emptied += (known && specs[0].stored.is_empty()) as u64;
            }
            Op::Rebuild(es) => match idx.rebuild(es) {
                Ok(()) => {
                    specs.iter_mut().for_each(|s| s.rebuild(es));
                    mirror.rebuild(es);
                    deleted_since_persist = false;
                }
                Err(_) => rejected += 1,
            },
            Op::Query { .. } => continue,
            Op::SaveLoad => {
                let dir = sc.path.join(format!("idx{i}"));
                idx.save(&dir).map_err(|e| fail_at(i, op, "save_failed", e, &trace))?;
                idx = HnswIndex::load(&dir).map_err(|e| fail_at(i, op, "load_failed", e, &trace))?;
                mirror.regraph();
                after_load = Some(idx.config().clone());
                persists += 1;
                persist_after_delete += any_delete as u64;
                persist_right_after_delete |= deleted_since_persist;
                deleted_since_persist = false;
            }
            Op::ManagerSaveLoad => {
                let base = sc.path.join(format!("mgr{i}"));
                let name = "vec_idx";
                let n = idx.len();
                let mut mgr = IndexManager::new();
                mgr.register_index(RegisteredIndex { name: name.into(), relation: "docs".into(), column_idx: 1, column_name: "emb".into(), index_type: IndexType::Hnsw(cfg.clone()) })
                    .map_err(|e| fail_at(i, op, "register_failed", e, &trace))?;
                // the manager takes the index; the history continues on what was persisted
                let taken = std::mem::replace(&mut idx, HnswIndex::new(cfg.clone()));
                mgr.set_materialized(name, Box::new(taken), n);
                mgr.save_indexes(&base).map_err(|e| fail_at(i, op, "save_failed", e, &trace))?;
                let mut mgr2 = IndexManager::new();
                let loaded = mgr2.load_indexes(&base).map_err(|e| fail_at(i, op, "load_failed", e, &trace))?;
                if loaded != 1 {
                    return Err(fail_at(i, op, "load_failed", format!("load_indexes loaded {loaded} materialized indexes, 1 was saved"), &trace));
                }
                match mgr2.get_registered(name) {
                    Some(r) if r.index_type == IndexType::Hnsw(cfg.clone()) && r.relation == "docs" && r.column_idx == 1 && r.column_name == "emb" => {}
                    other => return Err(fail_at(i, op, "config_differs", format!("registration after load_indexes is {other:?}, saved {cfg:?} on docs(emb)"), &trace)),
                }
                let Some(mat) = mgr2.get_materialized(name) else {
                    return Err(fail_at(i, op, "load_failed", "no valid materialized index after load_indexes".into(), &trace));
                };
                // judge the manager's copy through the Index trait, exactly like the index itself
                let via_mgr = mat.arc();
                match via_mgr.as_any().downcast_ref::<HnswIndex>() {
                    Some(h) if h.config() == &cfg => {}
                    Some(h) => return Err(fail_at(i, op, "config_differs", format!("config after load_indexes {:?}, saved {cfg:?}", h.config()), &trace)),
                    None => return Err(fail_at(i, op, "load_failed", "materialized index is not a HnswIndex".into(), &trace)),
                }
                if via_mgr.metric() != c.metric.to_engine() {
                    return Err(fail_at(i, op, "metric_differs", format!("metric() = {:?} after load_indexes", via_mgr.metric()), &trace));
                }
                mirror.regraph();
                let seen = observe(mat.index.as_ref(), &[probe_for(c, specs[0].dim())]);
                let diffs: Vec<_> = specs.iter().map(|s| differs(c.metric, s, &seen, None)).collect();
                if diffs.iter().all(|d| d.is_some()) {
                    let (kind, what) = diffs[0].clone().unwrap();
                    let mut f = fail_at(i, op, kind, format!("(index held by the loading IndexManager) {what}; implied: {}", specs[0].expect()), &trace);
                    if kind == "live_set_differs" {
                        let order: Vec<usize> = specs[0].stored.iter().map(|e| e.0).collect();
                        let rerun = || run_case(ctx, c, &mut Obs::default(), false).is_err_and(|g| g.known.is_none());
                        f = attribute_unreachable(c, f, &seen, &specs, &specs[0].live(), &order, if first { Some(&rerun) } else { None });
                    }
                    return Err(f);
                }
                idx = HnswIndex::load(&base.join("indexes").join(name)).map_err(|e| fail_at(i, op, "load_failed", e, &trace))?;
                after_load = Some(idx.config().clone());
                persists += 1;
                persist_after_delete += any_delete as u64;
                persist_right_after_delete |= deleted_since_persist;
                deleted_since_persist = false;
                via_manager = true;
            }
        }
        // configuration and metric never change
        if idx.metric() != c.metric.to_engine() {
            return Err(fail_at(i, op, "metric_differs", format!("metric() = {:?}, configured {:?}", idx.metric(), c.metric), &trace));
        }
        if idx.config() != &cfg {
            return Err(fail_at(i, op, "config_differs", format!("config() = {:?}, configured {cfg:?}", idx.config()), &trace));
        }
        if let Some(l) = after_load {
            if l != cfg {
                return Err(fail_at(i, op, "config_differs", format!("loaded config {l:?}, saved {cfg:?}"), &trace));
            }
        }
        let mut probes = vec![probe_for(c, specs[0].dim())];
        if let Some(p) = extra_probe {
            if !c.metric.normalising() || norm64(&p) > super::c24::NORM_FLOOR {
                probes.push(p);
            }
        }
        let seen = observe(&idx, &probes);
        // While C24's finding "a deleted id stays searchable until the graph is next rebuilt" is open,
        // a search over a stale graph is expected to show exactly the ids the graph was built from
        // (anything else is still a failure); counters are judged as always.
        let stale = mirror.stale();
        let tolerated = if stale && ctx.is_open_known(K_STALE) { Some(&mirror.graph) } else { None };
        stale_checks += tolerated.is_some() as u64;
        let diffs: Vec<Option<(&'static str, String)>> = specs.iter().map(|s| differs(c.metric, s, &seen, tolerated)).collect();
        if diffs.iter().all(|d| d.is_some()) {
            let (kind, what) = diffs[0].clone().unwrap();
            let mut f = fail_at(i, op, kind, format!("{what}\nimplied by the history: {}\nindex shows: len={} tombstone_count={} dimension={}", specs[0].expect(), seen.len, seen.tombs, seen.dim), &trace);
            if hits_tombstone && ctx.is_open_known(K_TOMBSTONED) {
                f.detail = format!("{}\nthe operation inserts an id that is tombstoned (deleted, no compaction/rebuild since)", f.detail);
                f = f.known(K_TOMBSTONED);
            } else if stale && tolerated.is_none() && specs.iter().any(|s| differs(c.metric, s, &seen, Some(&mirror.graph)).is_none()) {
                f.detail = format!("{}\nthe search graph was not rebuilt since the delete: the search shows the ids it was built from {:?}", f.detail, mirror.graph.keys().collect::<Vec<_>>());
                f = f.known(K_STALE);
            } else if kind == "live_set_differs" {
                let expect: BTreeMap<usize, Vec<f32>> = tolerated.cloned().unwrap_or_else(|| specs[0].live());
                let order: Vec<usize> = if tolerated.is_some() { mirror.graph_order.clone() } else { specs[0].stored.iter().map(|e| e.0).collect() };
                let rerun = || run_case(ctx, c, &mut Obs::default(), false).is_err_and(|g| g.known.is_none());
                f = attribute_unreachable(c, f, &seen, &specs, &expect, &order, if first { Some(&rerun) } else { None });
            }
            if std::env::var("VERIF_DEBUG_FAIL").is_ok() && first && f.known.is_none() {
                eprintln!("UNEXPLAINED {} {}\nCASE {}", f.kind, f.detail, serde_json::to_string(c).unwrap_or_default());
            }
            return Err(f);
        }
        // keep the readings that match (both, as long as no unknown id was deleted)
        let keep: Vec<Spec> = specs.iter().zip(&diffs).filter(|(_, d)| d.is_none()).map(|(s, _)| s.clone()).collect();
        specs = keep;
        trace.push(op_text(op));
    }
    let saveload_after_delete = persist_after_delete > 0;
    obs.nontrivial = reinserts > 0 || saveload_after_delete;
    obs.class(&format!("metric: {}", c.metric.name()));
    obs.class_if(reinserts > 0, "delete -> re-insert of the same id");
    obs.class_if(saveload_after_delete, "save/load after a delete");
    obs.class_if(persists >= 2, ">=2 save/load cycles");
    obs.class_if(persist_right_after_delete, "save/load with no insert since the last delete");
    obs.class_if(via_manager, "IndexManager save_indexes/load_indexes");
    obs.class_if(mirror.compactions > 0, "auto_compaction_happened");
    obs.class_if(updates > 0, "update_of_live_id");
    obs.class_if(unknown_deletes > 0, "delete_of_unknown_or_already_deleted_id");
    obs.class_if(specs.len() == 1 && unknown_deletes > 0, if specs[0].count_unknown { "unknown delete observed as counted tombstone" } else { "unknown delete observed as ignored" });
    obs.class_if(emptied > 0, "index_emptied_by_deletes");
    obs.class_if(rejected > 0, "insert_rejected_by_index");
    obs.class_if(c.ops.iter().any(|o| matches!(o, Op::Rebuild(_))), "rebuild");
    obs.class_if(stale_checks > 0, "live set judged against a stale graph (open finding C24-deleted-id-still-searchable)");
    obs.count("live_set_checks_tolerating_stale_graph", stale_checks);
    obs.count("operations", trace.len() as u64);
    obs.count("save_load_cycles", persists);
    obs.count("operations_rejected_by_index", rejected);
    obs.sample = Some(json!({
        "metric": c.metric.name(), "dim": c.dim, "m": c.m, "ef_construction": c.ef_construction, "ef_search": c.ef_search,
        "ops": c.ops.iter().take(16).map(|o| crate::common::runner::truncate(&op_text(o), 100)).collect::<Vec<_>>(),
        "n_ops": c.ops.len(), "final": specs[0].expect(),
    }));
    Ok(())
}

fn directed() -> Vec<Case> {
    let mut out = Vec::new();
    for metric in [Metric::Euclidean, Metric::Cosine, Metric::Manhattan, Metric::DotProduct] {
        let mk = |v: &[f32]| if metric == Metric::DotProduct { unitize(v) } else { v.to_vec() };
        let base = |ops: Vec<Op>| Case { metric, dim: 2, m: 16, ef_construction: 200, ef_search: 50, probe: vec![1.0, 0.5, 0.25], ops };
        let pts: Vec<Entry> = vec![(0, mk(&[1.0, 0.0])), (7, mk(&[0.0, 1.0])), (14, mk(&[1.0, 1.0])), (21, mk(&[-1.0, 0.5])), (28, mk(&[1.0, 0.0])), (35, mk(&[2.0, 1.0]))];
        // tombstone survives save/load; the second delete compacts
        out.push(base(vec![Op::Batch(pts.clone()), Op::Delete(7), Op::SaveLoad, Op::Delete(14), Op::SaveLoad, Op::ManagerSaveLoad]));
        // delete -> re-insert with no compaction in between
        out.push(base(vec![Op::Batch(pts.clone()), Op::Delete(14), Op::Insert(14, mk(&[0.5, 1.0])), Op::SaveLoad]));
        // delete -> compaction -> re-insert
        out.push(base(vec![Op::Batch(pts[..3].to_vec()), Op::Delete(7), Op::Insert(7, mk(&[0.5, 1.0])), Op::ManagerSaveLoad, Op::Insert(0, mk(&[0.0, -1.0])), Op::SaveLoad]));
        // empty index round trip, emptied index, wrong dimension
        out.push(base(vec![Op::SaveLoad, Op::Insert(0, mk(&[1.0, 0.0])), Op::Insert(7, mk(&[1.0, 0.0, 0.0])), Op::Delete(0), Op::SaveLoad, Op::Insert(7, mk(&[1.0, 0.0, 0.0])), Op::ManagerSaveLoad]));
        // unknown id deleted
        out.push(base(vec![Op::Batch(pts.clone()), Op::Delete(100_003), Op::SaveLoad, Op::Rebuild(pts[1..].to_vec()), Op::SaveLoad]));
    }
    out
}

pub fn strategy() -> impl Strategy<Value = Case> {
    tape_strategy(TAPE_LEN).prop_map(|t| decode(&t, Mode::Persist))
}

pub fn run(ctx: &Ctx) {
    ctx.set_rule(
        "A case is a HnswIndex configuration (metric in {euclidean, cosine, manhattan, dot_product}, dim 1-8, m in {8,16}, ef_construction in \
         {100,200}, ef_search in {10,32,50}) and a history decoded from a proptest tape: an initial load of 0-45 vectors (insert_batch, rebuild or \
         one insert each) followed by 4-28 operations drawn from insert of a new id (20%), update of a live id (15%), delete (25%), re-insert of \
         a deleted id (5%), rebuild (10%), HnswIndex::save+load (15%), IndexManager::save_indexes+load_indexes on a fresh manager (5%), and delete \
         of an unknown / already deleted id or insert of a wrong-dimension vector (5%); vectors as in C24 (pool with exact duplicates, near-zero and \
         large magnitudes). After EVERY operation: len(), tombstone_count(), dimension(), metric(), config() and the result of exhaustive searches \
         (k = len+5, ef = max(200, 4*len); probe = a fixed per-case vector, plus the vector just inserted) are compared with the model: the id set \
         found must be exactly the model's live set and every hit's distance must be the brute-force distance to the model's latest vector for that \
         id (1e-4*max(1,|d|)). After a save/load the same comparison is made on the loaded index (and on the copy held by the loading IndexManager, \
         plus its registration metadata) and the history continues on the loaded index. Non-trivial = the history re-inserts an id after deleting it \
         (accepted by the index), or performs a save/load after a delete. Distinct = distinct case JSON. Directed minimal histories per metric run first.",
    );
    ctx.assume("model of the counters, from the trait docs, docs/guides/indexing.md and the crate's own unit tests: len() counts entries including tombstoned ones; delete adds a tombstone; when tombstones/entries > 0.3 after a delete the index compacts at once (tombstoned entries dropped, tombstones cleared); rebuild(list) replaces the contents and clears tombstones; dimension() is 0 when there are no entries; an insert makes its id live (clears its tombstone) and replaces the vector of an existing entry");
    ctx.assume("delete of a never-inserted id: undocumented; accepted either as a counted tombstone or as a no-op, whichever reading matches consistently; the live set must be unaffected in both");
    ctx.assume("an Err from insert (zero-norm vector for cosine, dimension mismatch) means rejected, model unchanged; an Err from save/load is a failure");
    ctx.assume("dot_product vectors and probes are unit-norm; cosine probes are never below the index's zero-norm threshold");
    ctx.assume("the live set is recovered by search, so C24's open findings show up here: while C24-deleted-id-still-searchable is open, a search over a graph that was not rebuilt since a delete is expected to show exactly the ids the graph was built from (counters are judged as always; counted in live_set_checks_tolerating_stale_graph); a live_set_differs failure that lacks only vectors that can be cut off in the graph (C24-unreachable-vector: derived from the vectors, or not reproducible in 4 re-executions on fresh indexes) is attributed to that finding");
    StdoutFilter::install();
    ctx.run_enum("directed", directed(), false, |c, o| check(ctx, c, o));
    let sh: &(dyn Fn(&Case, &dyn Fn(&Case) -> bool) -> Case + Sync) = &shrink_case;
    ctx.run_part_with("persist_histories", ctx.cases(4000, 80_000), strategy, |c, o| check(ctx, c, o), Some(sh));
}

pub fn replay(ctx: &Ctx, part: &str, case: &J) -> Option<Result<CheckResult, String>> {
    StdoutFilter::install();
    Some(match part {
        "directed" | "persist_histories" | "witness" => ctx.replay_case(part, case, |c: &Case, o: &mut Obs| check(ctx, c, o)),
        _ => return None,
    })
}
