//! C26 — vector builtins obey their laws: distances are symmetric, non-negative and zero on
//! identical inputs (cosine within [0,2], never NaN for finite input); int8
//! quantize-then-dequantize stays within one quantization step; LSH buckets depend only on
//! (vector, table, hyperplane count) whatever the global hyperplane cache holds or whoever else
//! uses it; probe sequences start at the bucket, are distinct and non-decreasing in Hamming
//! distance.
//!
//! `temporal_ops` is named by the property's anchors, but the statement gives no temporal law, so
//! nothing is asserted about it here.

use crate::common::{CheckResult, Ctx, Fail, Obs};
use inputlayer::vector_ops as vo;
use inputlayer::vector_ops::QuantizationMethod;
use proptest::prelude::*;
use serde::{Deserialize, Serialize};
use serde_json::{json, Value as J};
use std::collections::hash_map::DefaultHasher;
use std::collections::BTreeSet;
use std::hash::{Hash, Hasher};
use std::sync::atomic::{AtomicUsize, Ordering};
use std::sync::Mutex;

// ------------------------------------------------------------------------------------------------
// known findings (ids are attached only when the case-derived signature holds)

/// cosine_distance accumulates squares/dot in f32: a finite vector whose sum of squares exceeds
/// f32::MAX gives inf/inf = NaN.
pub const K_COS: &str = "C26-cosine-nan-on-f32-overflow";
/// quantize_vector_symmetric computes 127/max_abs in f32: for max_abs < 127/f32::MAX the scale
/// is +inf and every non-zero component becomes +-127.
pub const K_QSYM: &str = "C26-quantize-symmetric-scale-overflow";
/// quantize_vector_linear computes max-min in f32: when that overflows every component maps to
/// the same code.
pub const K_QLIN: &str = "C26-quantize-linear-range-overflow";
/// lsh_bucket accumulates the hyperplane dot product in f32, lsh_bucket_with_distances (and hence
/// lsh_multi_probe) in f64: the first probe is not lsh_bucket's bucket when the two sums differ in
/// sign class (f32 underflow / overflow / cancellation).
pub const K_MP: &str = "C26-multi-probe-first-differs-from-lsh-bucket";

/// All failures of one case; an unexplained one wins over one that matches a known finding, so a
/// known defect on a case never hides a new one on the same case.
#[derive(Default)]
struct Fails(Vec<Fail>);

impl Fails {
    fn push(&mut self, f: Fail) {
        self.0.push(f);
    }
    fn finish(self) -> CheckResult {
        let mut known = None;
        for f in self.0 {
            if f.known.is_none() {
                return Err(f);
            }
            known.get_or_insert(f);
        }
        match known {
            Some(f) => Err(f),
            None => Ok(()),
        }
    }
}

fn tag(f: Fail, known: Option<&str>) -> Fail {
    match known {
        Some(k) => f.known(k),
        None => f,
    }
}

// ------------------------------------------------------------------------------------------------
// generators (finite f32 only, by construction)

const HUGE: [f32; 10] = [1e30, -1e30, f32::MAX, -f32::MAX, 1e19, -2e19, 3e38, -3e38, 1e25, 1.8e19];
const TINY: [f32; 10] = [1e-45, -1e-45, 1e-40, -3e-39, f32::MIN_POSITIVE, -f32::MIN_POSITIVE, 1e-30, -1e-25, 1e-20, 3e-37];

/// profile 0 ordinary, 1 huge, 2 tiny/denormal, 3 any finite bit pattern, 4 zero, 5 narrow range at an offset
fn comp(profile: u8) -> BoxedStrategy<f32> {
    let ordinary = || {
        prop_oneof![
            4 => -10.0f32..10.0,
            2 => (-5i8..=5).prop_map(f32::from),
            1 => Just(0.0f32),
            1 => Just(-0.0f32),
            1 => Just(1.0f32),
            1 => Just(-1.0f32),
            1 => Just(0.5f32),
        ]
    };
    let any_finite = || (any::<bool>(), 0u32..=254, 0u32..0x80_0000).prop_map(|(s, e, m)| f32::from_bits(((s as u32) << 31) | (e << 23) | m));
    match profile {
        0 => ordinary().boxed(),
        1 => prop_oneof![
            5 => proptest::sample::select(HUGE.to_vec()),
            2 => (any::<bool>(), 1e18f32..3.0e38).prop_map(|(s, x)| if s { -x } else { x }),
            1 => Just(0.0f32),
            1 => ordinary(),
        ]
        .boxed(),
        2 => prop_oneof![
            5 => proptest::sample::select(TINY.to_vec()),
            3 => (any::<bool>(), 1u32..0x80_0000).prop_map(|(s, m)| f32::from_bits(((s as u32) << 31) | m)),
            1 => Just(0.0f32),
            1 => Just(-0.0f32),
        ]
        .boxed(),
        3 => any_finite().boxed(),
        4 => prop_oneof![Just(0.0f32), Just(-0.0f32)].boxed(),
        _ => (proptest::sample::select(vec![100.0f32, -1000.0, 1.0e6, 0.25]), -8i16..=8).prop_map(|(b, k)| b + f32::from(k) / 4.0).boxed(),
    }
}

fn profile() -> impl Strategy<Value = u8> {
    prop_oneof![5 => Just(0u8), 3 => Just(1u8), 3 => Just(2u8), 2 => Just(3u8), 1 => Just(4u8)]
}

fn dim() -> impl Strategy<Value = usize> {
    prop_oneof![1 => Just(0usize), 8 => 1usize..=4, 6 => 5usize..=16]
}

fn fvec(profile: u8, dim: usize) -> BoxedStrategy<Vec<f32>> {
    proptest::collection::vec(comp(profile), dim..=dim).boxed()
}

fn i8comp() -> impl Strategy<Value = i8> {
    prop_oneof![4 => any::<i8>(), 2 => -3i8..=3, 1 => Just(0i8), 1 => Just(127i8), 1 => Just(-128i8), 1 => Just(-127i8)]
}

fn i8vec(dim: usize, zero: bool) -> BoxedStrategy<Vec<i8>> {
    if zero {
        Just(vec![0i8; dim]).boxed()
    } else {
        proptest::collection::vec(i8comp(), dim..=dim).boxed()
    }
}

fn max_abs(v: &[f32]) -> f64 {
    v.iter().fold(0.0f64, |m, x| m.max(f64::from(x.abs())))
}

/// magnitude class of the vectors of a case (the "ordinary" class is the trivial one)
fn mag_class(vs: &[&[f32]]) -> &'static str {
    let all = || vs.iter().flat_map(|v| v.iter());
    let m = all().fold(0.0f64, |m, x| m.max(f64::from(x.abs())));
    let min_nz = all().filter(|x| **x != 0.0).fold(f64::INFINITY, |m, x| m.min(f64::from(x.abs())));
    if m == 0.0 {
        "zero"
    } else if m >= 1e18 {
        if min_nz < 1e-18 {
            "huge_and_tiny"
        } else {
            "huge"
        }
    } else if m < 1e-18 {
        "tiny"
    } else if min_nz < 1e-18 {
        "has_tiny_component"
    } else {
        "ordinary"
    }
}

fn fmt_f32s(v: &[f32]) -> String {
    format!("{v:?}")
}

// ------------------------------------------------------------------------------------------------
// part 1+2: distance laws

#[derive(Clone, Copy, PartialEq)]
enum MKind {
    /// symmetric, >= 0, zero on identical input
    Dist,
    /// Dist + value in [0,2]
    Cos,
    /// Cos, and the documentation defines the value for zero vectors as 1.0 (so d(0,0) = 0 is
    /// not claimed)
    CosZeroIsOne,
    /// only symmetry (dot product is listed with the distance functions but is not a distance)
    SymOnly,
}

/// Laws of one metric on one pair. `call(x, y)` with x, y in {0 = a, 1 = b}; `None` = the checked
/// variant returned Err (rejected input). `self_tol[i]` is the tolerance of d(x_i, x_i) <= tol,
/// `zero[i]` whether x_i is a zero vector. Returns the first broken law and the argument pair it
/// was observed on.
fn metric_laws(name: &str, kind: MKind, call: &dyn Fn(usize, usize) -> Option<f64>, self_tol: [f64; 2], zero: [bool; 2], same_dim: bool) -> Option<(String, String, (usize, usize))> {
    let (ab, ba) = (call(0, 1), call(1, 0));
    let selfs = [call(0, 0), call(1, 1)];
    let nm = ["a", "b"];
    if ab.is_some() != ba.is_some() {
        return Some((format!("{name}_asymmetric"), format!("{name}(a,b) = {ab:?} but {name}(b,a) = {ba:?}"), (0, 1)));
    }
    for (args, v) in [((0, 1), ab), ((1, 0), ba), ((0, 0), selfs[0]), ((1, 1), selfs[1])] {
        if let Some(v) = v {
            if v.is_nan() {
                return Some((format!("{name}_nan"), format!("{name}({},{}) is NaN for finite input", nm[args.0], nm[args.1]), args));
            }
        }
    }
    if let (Some(x), Some(y)) = (ab, ba) {
        if x.to_bits() != y.to_bits() {
            return Some((format!("{name}_asymmetric"), format!("{name}(a,b) = {x:e} but {name}(b,a) = {y:e}"), (0, 1)));
        }
    }
    if kind == MKind::SymOnly {
        return None;
    }
    for (args, v) in [((0, 1), ab), ((0, 0), selfs[0]), ((1, 1), selfs[1])] {
        if let Some(v) = v {
            if !(v >= 0.0) {
                return Some((format!("{name}_negative"), format!("{name}({},{}) = {v:e} < 0", nm[args.0], nm[args.1]), args));
            }
            // (for vectors of different dimension the documented result is the sentinel INFINITY)
            if kind != MKind::Dist && (same_dim || args.0 == args.1) && !(v <= 2.0) {
                return Some((format!("{name}_out_of_range"), format!("{name}({},{}) = {v:e} outside [0,2]", nm[args.0], nm[args.1]), args));
            }
        }
    }
    for i in 0..2 {
        if kind == MKind::CosZeroIsOne && zero[i] {
            continue;
        }
        if let Some(v) = selfs[i] {
            if !(v <= self_tol[i]) {
                return Some((format!("{name}_identity"), format!("{name}({0},{0}) = {v:e} > tolerance {1:e}", nm[i], self_tol[i]), (i, i)));
            }
        }
    }
    None
}

#[derive(Clone, Debug, Serialize, Deserialize)]
pub struct DistCase {
    a: Vec<f32>,
    b: Vec<f32>,
}

fn dist_strategy() -> impl Strategy<Value = DistCase> {
    (profile(), profile(), dim(), dim(), 0u8..10)
        .prop_flat_map(|(pa, pb, d, d2, rel)| {
            // rel 0,1: b drawn from another magnitude profile; 9: another dimension
            let pb = if rel < 2 { pb } else { pa };
            let db = if rel == 9 { d2 } else { d };
            (fvec(pa, d), fvec(pb, db), Just(rel), proptest::sample::select(vec![2.0f32, 0.5, -3.0, 1e-3]))
        })
        .prop_map(|(a, b, rel, k)| {
            let b = match rel {
                6 => a.clone(),
                7 => a.iter().map(|x| -x).collect(),
                8 => {
                    let s: Vec<f32> = a.iter().map(|x| x * k).collect();
                    if s.iter().all(|x| x.is_finite()) {
                        s
                    } else {
                        a.clone()
                    }
                }
                _ => b,
            };
            DistCase { a, b }
        })
}

/// signature of K_COS for one call: the f64 sum of squares of an argument reaches f32::MAX, so
/// the f32 accumulators of cosine_distance overflow
fn cos_overflow_sig(x: &[f32], y: &[f32]) -> bool {
    let ss = |v: &[f32]| v.iter().map(|c| f64::from(*c) * f64::from(*c)).sum::<f64>();
    ss(x).max(ss(y)) >= 0.999 * f64::from(f32::MAX)
}

type F32Fn = fn(&[f32], &[f32]) -> f64;
type F32Checked = fn(&[f32], &[f32]) -> Result<f64, vo::VectorError>;

fn check_dist(c: &DistCase, obs: &mut Obs) -> CheckResult {
    let vs = [&c.a[..], &c.b[..]];
    let cls = mag_class(&vs);
    let same_dim = c.a.len() == c.b.len();
    obs.nontrivial = cls != "ordinary";
    obs.class(&format!("magnitude: {cls}"));
    obs.class_if(!same_dim, "dimension_mismatch");
    obs.class_if(c.a.is_empty() || c.b.is_empty(), "empty_vector");
    obs.class_if(same_dim && c.a.iter().zip(&c.b).all(|(x, y)| x.to_bits() == y.to_bits()), "identical_inputs");
    let zero = [max_abs(&c.a) == 0.0, max_abs(&c.b) == 0.0];
    obs.class_if(zero[0] != zero[1], "one_zero_vector");
    // d(x,x) <= 1e-6 for |x|_inf <= 1, relative 1e-6*|x|_inf above (the code returns exactly 0)
    let lin_tol = [1e-6 * max_abs(&c.a).max(1.0), 1e-6 * max_abs(&c.b).max(1.0)];
    let cos_tol = [1e-6, 1e-6];
    let plain: [(&str, F32Fn, MKind); 5] = [
        ("euclidean", vo::euclidean_distance, MKind::Dist),
        ("euclidean_squared", vo::euclidean_distance_squared, MKind::Dist),
        ("cosine", vo::cosine_distance, MKind::Cos),
        ("manhattan", vo::manhattan_distance, MKind::Dist),
        ("dot", vo::dot_product, MKind::SymOnly),
    ];
    let checked: [(&str, F32Checked, MKind); 4] = [
        ("euclidean_checked", vo::euclidean_distance_checked, MKind::Dist),
        ("cosine_checked", vo::cosine_distance_checked, MKind::Cos),
        ("manhattan_checked", vo::manhattan_distance_checked, MKind::Dist),
        ("dot_checked", vo::dot_product_checked, MKind::SymOnly),
    ];
    let mut fails = Fails::default();
    let mut judge = |name: &str, kind: MKind, call: &dyn Fn(usize, usize) -> Option<f64>| {
        let tol = if kind == MKind::Dist { lin_tol } else { cos_tol };
        if let Some((k, d, args)) = metric_laws(name, kind, call, tol, zero, same_dim) {
            let known = (kind == MKind::Cos && k.ends_with("_nan") && cos_overflow_sig(vs[args.0], vs[args.1])).then_some(K_COS);
            fails.push(tag(Fail::new(&k, format!("{d}; a = {}, b = {}", fmt_f32s(&c.a), fmt_f32s(&c.b))), known));
        }
    };
    for (name, f, kind) in plain {
        judge(name, kind, &|i, j| Some(f(vs[i], vs[j])));
    }
    let mut rejected = 0;
    for (name, f, kind) in checked {
        if f(vs[0], vs[1]).is_err() {
            rejected += 1;
        }
        judge(name, kind, &|i, j| f(vs[i], vs[j]).ok());
    }
    obs.count("checked_variant_rejections", rejected);
    let e = vo::euclidean_distance(&c.a, &c.b);
    let co = vo::cosine_distance(&c.a, &c.b);
    obs.class_if(same_dim && e.is_infinite(), "euclidean_overflows_to_inf");
    obs.class_if(co.is_nan(), "cosine_nan");
    obs.sample = Some(json!({"a": fmt_f32s(&c.a), "b": fmt_f32s(&c.b), "euclidean": format!("{e:e}"), "cosine": format!("{co:e}"),
        "manhattan": format!("{:e}", vo::manhattan_distance(&c.a, &c.b)), "dot": format!("{:e}", vo::dot_product(&c.a, &c.b))}));
    fails.finish()
}

#[derive(Clone, Debug, Serialize, Deserialize)]
pub struct I8Case {
    a: Vec<i8>,
    b: Vec<i8>,
}

fn i8_strategy() -> impl Strategy<Value = I8Case> {
    (prop_oneof![1 => Just(0usize), 8 => 1usize..=4, 6 => 5usize..=16, 1 => Just(64usize)], dim(), 0u8..12)
        .prop_flat_map(|(d, d2, rel)| {
            let db = if rel == 9 { d2 } else { d };
            (i8vec(d, rel == 10), i8vec(db, rel == 10 || rel == 11), Just(rel))
        })
        .prop_map(|(a, b, rel)| {
            let b = match rel {
                6 => a.clone(),
                7 => a.iter().map(|x| x.saturating_neg()).collect(),
                _ => b,
            };
            I8Case { a, b }
        })
}

type I8Fn = fn(&[i8], &[i8]) -> f64;

fn check_i8(c: &I8Case, obs: &mut Obs) -> CheckResult {
    let vs = [&c.a[..], &c.b[..]];
    let zero = [c.a.iter().all(|x| *x == 0), c.b.iter().all(|x| *x == 0)];
    let extreme = c.a.iter().chain(&c.b).any(|x| *x == i8::MIN || *x == i8::MAX);
    obs.nontrivial = zero[0] || zero[1] || extreme || c.a.len() != c.b.len();
    obs.class_if(zero[0] || zero[1], "zero_vector");
    obs.class_if(extreme, "extreme_component");
    obs.class_if(c.a.len() != c.b.len(), "dimension_mismatch");
    obs.class_if(c.a == c.b, "identical_inputs");
    let ms: [(&str, I8Fn, MKind); 6] = [
        ("euclidean_int8", vo::euclidean_distance_int8, MKind::Dist),
        ("cosine_int8", vo::cosine_distance_int8, MKind::CosZeroIsOne),
        ("manhattan_int8", vo::manhattan_distance_int8, MKind::Dist),
        ("dot_int8", vo::dot_product_int8, MKind::SymOnly),
        ("euclidean_dequantized", vo::euclidean_distance_dequantized, MKind::Dist),
        ("cosine_dequantized", vo::cosine_distance_dequantized, MKind::Cos),
    ];
    let mut fails = Fails::default();
    for (name, f, kind) in ms {
        if let Some((k, d, _)) = metric_laws(name, kind, &|i, j| Some(f(vs[i], vs[j])), [1e-6, 1e-6], zero, c.a.len() == c.b.len()) {
            fails.push(Fail::new(&k, format!("{d}; a = {:?}, b = {:?}", c.a, c.b)));
        }
    }
    obs.class_if(zero[0] && vo::cosine_distance_int8(&c.a, &c.a) == 1.0, "cosine_int8_of_zero_vector_is_documented_1");
    obs.sample = Some(json!({"a": c.a, "b": c.b, "euclidean_int8": vo::euclidean_distance_int8(&c.a, &c.b), "cosine_int8": vo::cosine_distance_int8(&c.a, &c.b)}));
    fails.finish()
}

// ------------------------------------------------------------------------------------------------
// part 3: quantize -> dequantize

#[derive(Clone, Debug, Serialize, Deserialize)]
pub struct QCase {
    v: Vec<f32>,
}

fn q_strategy() -> impl Strategy<Value = QCase> {
    (prop_oneof![4 => Just(0u8), 3 => Just(1u8), 3 => Just(2u8), 2 => Just(3u8), 1 => Just(4u8), 3 => Just(5u8)], dim())
        .prop_flat_map(|(p, d)| fvec(p, d))
        .prop_map(|v| QCase { v })
}

fn check_quant(c: &QCase, obs: &mut Obs) -> CheckResult {
    let v = &c.v;
    let cls = mag_class(&[v]);
    obs.nontrivial = cls != "ordinary";
    obs.class(&format!("magnitude: {cls}"));
    let mx = v.iter().fold(f64::NEG_INFINITY, |m, x| m.max(f64::from(*x)));
    let mn = v.iter().fold(f64::INFINITY, |m, x| m.min(f64::from(*x)));
    let m_abs = max_abs(v);
    obs.class_if(!v.is_empty() && mx == mn, "constant_vector");
    // signatures of the two known f32-intermediate overflows, computed the way the documented
    // formulas would be evaluated in f32
    let sym_scale_overflow = m_abs > 0.0 && (127.0f32 / (m_abs as f32)).is_infinite();
    let lin_range_overflow = !v.is_empty() && ((mx as f32) - (mn as f32)).is_infinite();
    obs.class_if(sym_scale_overflow, "symmetric_scale_overflows_f32");
    obs.class_if(lin_range_overflow, "linear_range_overflows_f32");
    let mut fails = Fails::default();
    let mut sample = serde_json::Map::new();
    sample.insert("v".into(), json!(fmt_f32s(v)));
    for (name, method) in [("linear", QuantizationMethod::Linear), ("minmax", QuantizationMethod::MinMax), ("symmetric", QuantizationMethod::Symmetric)] {
        let q = vo::quantize_vector(v, method);
        if q.len() != v.len() {
            fails.push(Fail::new(&format!("quantize_{name}_length"), format!("{} codes for {} components of {}", q.len(), v.len(), fmt_f32s(v))));
            continue;
        }
        // dequantize = the library's int8 -> f32 conversion; the affine inverse of the documented
        // mapping is applied in f64 by the check (documented: "the user can apply their own scaling")
        let deq = vo::dequantize_vector(&q);
        if deq.len() != q.len() {
            fails.push(Fail::new("dequantize_length", format!("{} values for {} codes", deq.len(), q.len())));
            continue;
        }
        sample.insert(name.into(), json!(q));
        let symmetric = method == QuantizationMethod::Symmetric;
        // documented mappings: symmetric [-max_abs, max_abs] -> [-127, 127] (step max_abs/127);
        // linear [min, max] -> [-128, 127] (step (max-min)/255)
        let step = if symmetric { m_abs / 127.0 } else { (mx - mn) / 255.0 };
        for (i, x) in v.iter().enumerate() {
            let code = f64::from(deq[i]);
            let back = if symmetric { code * step } else { mn + (code + 128.0) * step };
            let err = (f64::from(*x) - back).abs();
            if !(err <= step * (1.0 + 1e-9)) {
                let known = if symmetric { sym_scale_overflow.then_some(K_QSYM) } else { lin_range_overflow.then_some(K_QLIN) };
                fails.push(tag(
                    Fail::new(
                        &format!("quantize_{name}_outside_step"),
                        format!("component {i} = {x:e} -> code {} -> {back:e}: error {err:e} > one step {step:e} (v = {}, codes {q:?})", q[i], fmt_f32s(v)),
                    ),
                    known,
                ));
                break;
            }
        }
        if symmetric {
            // the library's own scaled dequantization, where the f32 scale max_abs/127 is a normal
            // number whose products stay finite (otherwise the judgement above is the only one)
            let s32 = (m_abs / 127.0) as f32;
            if s32.is_normal() && (127.0 * s32).is_finite() {
                let d = vo::dequantize_vector_with_scale(&q, s32);
                for (i, x) in v.iter().enumerate() {
                    let err = (f64::from(*x) - f64::from(*d.get(i).unwrap_or(&f32::NAN))).abs();
                    // one step plus the f32 rounding of scale and product (<= 127 * 2^-22 steps)
                    if !(err <= step * (1.0 + 1e-3)) {
                        fails.push(tag(
                            Fail::new("dequantize_scaled_outside_step", format!("component {i} = {x:e} -> code {} -> {:?} with scale {s32:e}: error {err:e} > step {step:e} (v = {})", q[i], d.get(i), fmt_f32s(v))),
                            sym_scale_overflow.then_some(K_QSYM),
                        ));
                        break;
                    }
                }
            }
        }
    }
    obs.sample = Some(J::Object(sample));
    fails.finish()
}

// ------------------------------------------------------------------------------------------------
// R7: LSH reference. Construction as observable in src/vector_ops.rs (generate_hyperplanes): component d
// of hyperplane h of table t is u(seed) with seed = t*1_000_000_007 + h*31337 + d (wrapping u64),
// u = low 32 bits of std DefaultHasher(seed) mapped linearly onto [-1, 1]; bit h of the bucket is
// set iff <v, hyperplane h> > 0; at most 62 bits; empty vector or 0 hyperplanes -> bucket 0.
// lsh_bucket sums in f32, the int8 and the *_with_distances forms in f64.

fn ref_component(table: i64, h: usize, d: usize) -> f32 {
    let seed = (table as u64).wrapping_mul(1_000_000_007).wrapping_add((h as u64).wrapping_mul(31337)).wrapping_add(d as u64);
    let mut s = DefaultHasher::new();
    seed.hash(&mut s);
    let low = (s.finish() & 0xFFFF_FFFF) as u32;
    ((f64::from(low) / f64::from(u32::MAX)) * 2.0 - 1.0) as f32
}

fn ref_bucket_f32(v: &[f32], table: i64, nh: usize) -> i64 {
    if v.is_empty() || nh == 0 {
        return 0;
    }
    let mut bucket = 0i64;
    for h in 0..nh.min(62) {
        let mut acc = 0.0f32;
        for (d, x) in v.iter().enumerate() {
            acc += x * ref_component(table, h, d);
        }
        if acc > 0.0 {
            bucket |= 1i64 << h;
        }
    }
    bucket
}

fn ref_bucket_f64(v: &[f64], table: i64, nh: usize) -> i64 {
    if v.is_empty() || nh == 0 {
        return 0;
    }
    let mut bucket = 0i64;
    for h in 0..nh.min(62) {
        let mut acc = 0.0f64;
        for (d, x) in v.iter().enumerate() {
            acc += x * f64::from(ref_component(table, h, d));
        }
        if acc > 0.0 {
            bucket |= 1i64 << h;
        }
    }
    bucket
}

fn widen(v: &[f32]) -> Vec<f64> {
    v.iter().map(|x| f64::from(*x)).collect()
}
fn widen_i8(v: &[i8]) -> Vec<f64> {
    v.iter().map(|x| f64::from(*x)).collect()
}

fn hd(a: i64, b: i64) -> u32 {
    (a ^ b).count_ones()
}

/// 1 + n + C(n,2) + C(n,3): the buckets within Hamming distance 3, which the documentation lists
/// explicitly (HD=0, 1, 2, "and so on")
fn ball3(n: usize) -> usize {
    let n = n as u128;
    let c2 = n * n.saturating_sub(1) / 2;
    let c3 = n * n.saturating_sub(1) * n.saturating_sub(2) / 6;
    (1 + n + c2 + c3).min(usize::MAX as u128) as usize
}

/// probe-sequence laws: starts at the bucket, distinct, non-decreasing Hamming distance to the
/// bucket, at most `requested` entries and exactly `requested` while the HD<=3 ball is not exhausted
fn probe_laws(name: &str, probes: &[i64], bucket: i64, nbits: usize, requested: usize) -> Option<(String, String)> {
    let show = |p: &[i64]| format!("{:?}{}", &p[..p.len().min(12)], if p.len() > 12 { " ..." } else { "" });
    if probes.len() > requested {
        return Some((format!("{name}_too_long"), format!("{} probes for {requested} requested", probes.len())));
    }
    let floor = requested.min(ball3(nbits));
    if probes.len() < floor {
        return Some((format!("{name}_too_short"), format!("{} probes, but {requested} were requested and {} buckets lie within Hamming distance 3 ({nbits} bits): {}", probes.len(), ball3(nbits), show(probes))));
    }
    if let Some(first) = probes.first() {
        if *first != bucket {
            return Some((format!("{name}_first_not_bucket"), format!("first probe {first} != bucket {bucket}")));
        }
    }
    let mut seen = BTreeSet::new();
    let mut last = 0;
    for (i, p) in probes.iter().enumerate() {
        if !seen.insert(*p) {
            return Some((format!("{name}_duplicate"), format!("probe {p} at position {i} occurs twice: {}", show(probes))));
        }
        let d = hd(*p, bucket);
        if d < last {
            return Some((format!("{name}_hamming_decreases"), format!("position {i}: Hamming distance {d} after {last} (bucket {bucket}): {}", show(probes))));
        }
        last = d;
    }
    None
}

#[derive(Clone, Debug, Serialize, Deserialize)]
pub struct LshCase {
    v: Vec<f32>,
    q: Vec<i8>,
    table: i64,
    nh: usize,
    tables: usize,
    probes: usize,
    /// an arbitrary bucket id for lsh_probes (besides the vector's own bucket)
    bucket: i64,
}

fn table_strategy() -> impl Strategy<Value = i64> {
    prop_oneof![6 => 0i64..8, 1 => -3i64..0, 1 => Just(i64::MAX), 1 => Just(i64::MIN), 2 => any::<i64>()]
}

fn nh_strategy() -> impl Strategy<Value = usize> {
    prop_oneof![1 => Just(0usize), 6 => 1usize..=16, 3 => 17usize..=61, 1 => Just(62usize), 1 => Just(63usize), 1 => Just(64usize), 1 => Just(70usize), 1 => 62usize..=70]
}

fn lsh_strategy() -> impl Strategy<Value = LshCase> {
    (profile(), dim(), dim(), any::<bool>())
        .prop_flat_map(|(p, d, dq, zq)| {
            (
                fvec(p, d),
                i8vec(dq, zq && dq % 3 == 0),
                table_strategy(),
                nh_strategy(),
                1usize..=4,
                prop_oneof![12 => 0usize..=10, 6 => 11usize..200, 2 => 200usize..3000, 1 => Just(45_000usize)],
                prop_oneof![3 => 0i64..256, 2 => any::<i64>(), 1 => Just(-1i64), 1 => Just(i64::MIN)],
            )
        })
        .prop_map(|(v, q, table, nh, tables, probes, bucket)| LshCase { v, q, table, nh, tables, probes, bucket })
}

fn check_lsh(c: &LshCase, obs: &mut Obs) -> CheckResult {
    let cls = mag_class(&[&c.v]);
    let nbits = c.nh.min(62);
    obs.nontrivial = cls != "ordinary" || c.nh == 0 || c.nh >= 62 || !(0..64).contains(&c.table);
    obs.class(&format!("magnitude: {cls}"));
    obs.class(match c.nh {
        0 => "hyperplanes: 0",
        1..=16 => "hyperplanes: 1-16",
        17..=61 => "hyperplanes: 17-61",
        62 => "hyperplanes: 62",
        _ => "hyperplanes: >62 (capped)",
    });
    obs.class_if(!(0..64).contains(&c.table), "table_index_outside_0_63");
    obs.class_if(c.v.is_empty(), "empty_vector");
    let mut fails = Fails::default();
    let ctx = || format!("v = {}, table {}, {} hyperplanes", fmt_f32s(&c.v), c.table, c.nh);

    // buckets against R7
    let b32 = vo::lsh_bucket(&c.v, c.table, c.nh);
    let r32 = ref_bucket_f32(&c.v, c.table, c.nh);
    if b32 != r32 {
        fails.push(Fail::new("lsh_bucket_differs_from_reference", format!("lsh_bucket = {b32:#b}, reference {r32:#b}; {}", ctx())));
    }
    let (bd, dist) = vo::lsh_bucket_with_distances(&c.v, c.table, c.nh);
    let r64 = ref_bucket_f64(&widen(&c.v), c.table, c.nh);
    // the bucket reported next to the distances is the bucket of the vector (the one lsh_bucket names);
    // while finding K_MP was open it was the f64-accumulated variant
    if bd != r32 {
        fails.push(tag(
            Fail::new("lsh_bucket_with_distances_differs_from_reference", format!("bucket = {bd:#b}, reference {r32:#b} (f64-accumulated {r64:#b}); {}", ctx())),
            (bd == r64 && r32 != r64).then_some(K_MP),
        ));
    }
    let bq = vo::lsh_bucket_int8(&c.q, c.table, c.nh);
    let rq = ref_bucket_f64(&widen_i8(&c.q), c.table, c.nh);
    if bq != rq {
        fails.push(Fail::new("lsh_bucket_int8_differs_from_reference", format!("lsh_bucket_int8 = {bq:#b}, reference {rq:#b}; q = {:?}, table {}, {} hyperplanes", c.q, c.table, c.nh)));
    }
    let (bqd, qdist) = vo::lsh_bucket_with_distances_int8(&c.q, c.table, c.nh);
    if bqd != rq {
        fails.push(Fail::new("lsh_bucket_with_distances_int8_differs_from_reference", format!("bucket = {bqd:#b}, reference {rq:#b}; q = {:?}, table {}, {} hyperplanes", c.q, c.table, c.nh)));
    }
    let many = vo::lsh_buckets(&c.v, c.tables, c.nh);
    let many_ref: Vec<i64> = (0..c.tables as i64).map(|t| ref_bucket_f32(&c.v, t, c.nh)).collect();
    if many != many_ref {
        fails.push(Fail::new("lsh_buckets_differs_from_reference", format!("lsh_buckets = {many:?}, reference {many_ref:?}; v = {}, {} tables, {} hyperplanes", fmt_f32s(&c.v), c.tables, c.nh)));
    }

    // probe sequences
    for (what, bucket) in [("own", b32), ("arbitrary", c.bucket)] {
        let p = vo::lsh_probes(bucket, c.nh, c.probes);
        if let Some((k, d)) = probe_laws("lsh_probes", &p, bucket, nbits, c.probes) {
            fails.push(Fail::new(&k, format!("{d}; lsh_probes({bucket}, {}, {}) [{what} bucket]", c.nh, c.probes)));
        }
        if what == "own" {
            obs.class_if(p.len() < c.probes, "probe_request_exceeds_hd3_ball");
            obs.class_if(p.len() < c.probes && (nbits >= 63 || p.len() < (1usize << nbits)), "probes_stop_at_hamming_distance_3");
        }
    }
    let pr = vo::lsh_probes_ranked(bd, &dist, c.probes);
    if let Some((k, d)) = probe_laws("lsh_probes_ranked", &pr, bd, dist.len().min(62), c.probes) {
        fails.push(Fail::new(&k, format!("{d}; lsh_probes_ranked({bd}, {} distances, {}); {}", dist.len(), c.probes, ctx())));
    }
    let mp = vo::lsh_multi_probe(&c.v, c.table, c.nh, c.probes);
    if let Some((k, d)) = probe_laws("lsh_multi_probe", &mp, bd, dist.len().min(62), c.probes) {
        fails.push(Fail::new(&k, format!("{d}; lsh_multi_probe(.., {}); {}", c.probes, ctx())));
    }
    let mpq = vo::lsh_multi_probe_int8(&c.q, c.table, c.nh, c.probes);
    if let Some((k, d)) = probe_laws("lsh_multi_probe_int8", &mpq, bqd, qdist.len().min(62), c.probes) {
        fails.push(Fail::new(&k, format!("{d}; lsh_multi_probe_int8({:?}, {}, {}, {})", c.q, c.table, c.nh, c.probes)));
    }
    // "the first element is always the exact bucket for the input vector": the bucket an index
    // built with lsh_bucket stores the vector under
    if let Some(first) = mp.first() {
        if *first != b32 {
            obs.class("multi_probe_first_differs_from_lsh_bucket");
            // signature: the reference itself shows that f32 and f64 accumulation disagree here
            let known = (r32 != r64).then_some(K_MP);
            fails.push(tag(
                Fail::new("lsh_multi_probe_first_not_lsh_bucket", format!("lsh_multi_probe(..)[0] = {first:#b} but lsh_bucket = {b32:#b} (f32-accumulated reference {r32:#b}, f64-accumulated {r64:#b}); {}", ctx())),
                known,
            ));
        }
    }
    obs.sample = Some(json!({"v": fmt_f32s(&c.v), "table": c.table, "hyperplanes": c.nh, "bucket": b32, "bucket_int8": bq, "probes_requested": c.probes,
        "lsh_probes": vo::lsh_probes(b32, c.nh, c.probes.min(6)), "multi_probe": mp.iter().take(6).collect::<Vec<_>>()}));
    fails.finish()
}

// ------------------------------------------------------------------------------------------------
// part 4+5: the global hyperplane cache

/// The hyperplane cache is process-global: cases that reason about evictions (or drive the cache
/// from many threads) run one at a time. Bucket values must never depend on it, so the law parts
/// are not serialised.
static CACHE_LOCK: Mutex<()> = Mutex::new(());

/// restores the default cache configuration when a cache case ends (also on failure/panic)
struct CacheReset;
impl Drop for CacheReset {
    fn drop(&mut self) {
        vo::configure_lsh_cache_size(64);
        vo::clear_lsh_cache();
    }
}

#[derive(Clone, Debug, Serialize, Deserialize)]
pub enum KVec {
    F(Vec<f32>),
    I(Vec<i8>),
}

#[derive(Clone, Debug, Serialize, Deserialize)]
pub struct LKey {
    v: KVec,
    table: i64,
    nh: usize,
}

impl LKey {
    fn dim(&self) -> usize {
        match &self.v {
            KVec::F(v) => v.len(),
            KVec::I(v) => v.len(),
        }
    }
    /// the cache slot this key uses
    fn slot(&self) -> (i64, usize, usize) {
        (self.table, self.nh.min(62), self.dim())
    }
    /// (plain bucket, bucket of the *_with_distances form) from the code under test
    fn eval(&self) -> (i64, i64) {
        match &self.v {
            KVec::F(v) => (vo::lsh_bucket(v, self.table, self.nh), vo::lsh_bucket_with_distances(v, self.table, self.nh).0),
            KVec::I(v) => (vo::lsh_bucket_int8(v, self.table, self.nh), vo::lsh_bucket_with_distances_int8(v, self.table, self.nh).0),
        }
    }
    /// the same two values from R7
    fn reference(&self) -> (i64, i64) {
        match &self.v {
            // both entry points name the same bucket (the one the vector is filed under)
            KVec::F(v) => (ref_bucket_f32(v, self.table, self.nh), ref_bucket_f32(v, self.table, self.nh)),
            KVec::I(v) => {
                let r = ref_bucket_f64(&widen_i8(v), self.table, self.nh);
                (r, r)
            }
        }
    }
}

#[derive(Clone, Debug, Serialize, Deserialize)]
pub enum CacheAct {
    Clear,
    Resize(usize),
    Prewarm { table: i64, nh: usize, dim: usize },
    /// look one of the case's keys up (touches its LRU stamp)
    Lookup(usize),
    /// look up a key that is not one of the case's keys (occupies / evicts a slot)
    Other { table: i64, nh: usize, dim: usize },
}

fn apply(act: &CacheAct, keys: &[LKey]) {
    match act {
        CacheAct::Clear => vo::clear_lsh_cache(),
        CacheAct::Resize(n) => vo::configure_lsh_cache_size(*n),
        CacheAct::Prewarm { table, nh, dim } => vo::prewarm_lsh_cache(*table, *nh, *dim),
        CacheAct::Lookup(i) => {
            if !keys.is_empty() {
                let _ = keys[i % keys.len()].eval();
            }
        }
        CacheAct::Other { table, nh, dim } => {
            let _ = vo::lsh_bucket(&vec![1.0f32; *dim], *table, *nh);
        }
    }
}

fn cache_dim() -> impl Strategy<Value = usize> {
    proptest::sample::select(vec![1usize, 2, 3, 8])
}
fn cache_nh() -> impl Strategy<Value = usize> {
    proptest::sample::select(vec![1usize, 4, 8, 16, 62, 64, 70])
}

fn lkey_strategy() -> impl Strategy<Value = LKey> {
    (prop_oneof![6 => Just(0u8), 1 => Just(1u8), 1 => Just(2u8)], cache_dim(), any::<bool>())
        .prop_flat_map(|(p, d, int8)| {
            let v = if int8 { i8vec(d, false).prop_map(KVec::I).boxed() } else { fvec(p, d).prop_map(KVec::F).boxed() };
            (v, 0i64..3, cache_nh())
        })
        .prop_map(|(v, table, nh)| LKey { v, table, nh })
}

fn act_strategy() -> impl Strategy<Value = CacheAct> {
    prop_oneof![
        2 => Just(CacheAct::Clear),
        3 => prop_oneof![4 => 1usize..=3, 1 => Just(0usize), 1 => Just(64usize)].prop_map(CacheAct::Resize),
        3 => (0i64..4, prop_oneof![cache_nh(), Just(0usize)], prop_oneof![4 => cache_dim(), 1 => Just(0usize), 1 => Just(32usize)]).prop_map(|(table, nh, dim)| CacheAct::Prewarm { table, nh, dim }),
        4 => (0usize..8).prop_map(CacheAct::Lookup),
        4 => (0i64..5, cache_nh(), prop_oneof![4 => cache_dim(), 1 => Just(5usize)]).prop_map(|(table, nh, dim)| CacheAct::Other { table, nh, dim }),
    ]
}

#[derive(Clone, Debug, Serialize, Deserialize)]
pub struct CacheCase {
    init_size: usize,
    keys: Vec<LKey>,
    acts: Vec<CacheAct>,
}

fn cache_strategy() -> impl Strategy<Value = CacheCase> {
    (1usize..=3, proptest::collection::vec(lkey_strategy(), 2..=6), proptest::collection::vec(act_strategy(), 1..=24)).prop_map(|(init_size, keys, acts)| CacheCase { init_size, keys, acts })
}

fn key_mismatch(kind: &str, k: &LKey, i: usize, got: (i64, i64), want: (i64, i64), when: &str) -> Fail {
    Fail::new(kind, format!("key {i} {k:?}: (bucket, bucket_with_distances) = ({:#b}, {:#b}) {when}, expected ({:#b}, {:#b})", got.0, got.1, want.0, want.1))
}

fn check_cache(c: &CacheCase, obs: &mut Obs) -> CheckResult {
    let _g = CACHE_LOCK.lock().unwrap_or_else(|e| e.into_inner());
    let _reset = CacheReset;
    vo::clear_lsh_cache();
    vo::configure_lsh_cache_size(c.init_size);
    let want: Vec<(i64, i64)> = c.keys.iter().map(LKey::reference).collect();
    let slots: BTreeSet<_> = c.keys.iter().map(LKey::slot).collect();
    // before any cache action
    let before: Vec<(i64, i64)> = c.keys.iter().map(LKey::eval).collect();
    for (i, k) in c.keys.iter().enumerate() {
        if before[i] != want[i] {
            return Err(key_mismatch("bucket_differs_from_reference", k, i, before[i], want[i], "on a cold cache"));
        }
    }
    let mut evictions = 0usize;
    let (mut clears, mut resizes) = (0u64, 0u64);
    for (step, act) in c.acts.iter().enumerate() {
        let mut e0 = vo::get_lsh_cache_stats().evictions;
        apply(act, &c.keys);
        match act {
            CacheAct::Clear => {
                e0 = 0;
                clears += 1;
            }
            CacheAct::Resize(_) => resizes += 1,
            _ => {}
        }
        // every key again, starting at a different key each step so the LRU victim varies
        for j in 0..c.keys.len() {
            let i = (step + j) % c.keys.len();
            let got = c.keys[i].eval();
            if got != before[i] {
                return Err(key_mismatch("bucket_changed_by_cache_action", &c.keys[i], i, got, before[i], &format!("after step {step} {act:?} of {:?}", c.acts)));
            }
        }
        evictions += vo::get_lsh_cache_stats().evictions.saturating_sub(e0);
    }
    obs.nontrivial = evictions > 0;
    obs.class_if(evictions > 0, "eviction_between_evaluations");
    obs.class_if(clears > 0, "cache_cleared");
    obs.class_if(resizes > 0, "cache_resized");
    obs.class_if(slots.len() > c.init_size, "more_cache_slots_than_capacity");
    obs.class_if(c.keys.iter().any(|k| matches!(k.v, KVec::I(_))), "int8_key");
    obs.count("evictions_observed", evictions as u64);
    obs.sample = Some(json!({"initial_capacity": c.init_size, "distinct_slots": slots.len(), "keys": c.keys.len(), "actions": c.acts.iter().map(|a| format!("{a:?}")).collect::<Vec<_>>(),
        "evictions_observed": evictions, "buckets": before.iter().map(|b| b.0).collect::<Vec<_>>()}));
    Ok(())
}

#[derive(Clone, Debug, Serialize, Deserialize)]
pub struct ConcCase {
    init_size: usize,
    keys: Vec<LKey>,
    /// what the churn thread does, round and round, while the readers run
    churn: Vec<CacheAct>,
    iters: u16,
    /// starting key of each of the 8 reader threads
    offsets: Vec<u8>,
}

fn conc_strategy() -> impl Strategy<Value = ConcCase> {
    let churn_act = prop_oneof![
        3 => Just(CacheAct::Clear),
        4 => (1usize..=3).prop_map(CacheAct::Resize),
        2 => (0i64..4, cache_nh(), cache_dim()).prop_map(|(table, nh, dim)| CacheAct::Prewarm { table, nh, dim }),
        2 => (0i64..5, cache_nh(), cache_dim()).prop_map(|(table, nh, dim)| CacheAct::Other { table, nh, dim }),
        1 => (0usize..8).prop_map(CacheAct::Lookup),
    ];
    (1usize..=3, proptest::collection::vec(lkey_strategy(), 3..=8), proptest::collection::vec(churn_act, 1..=8), 4u16..=30, proptest::collection::vec(any::<u8>(), 8..=8))
        .prop_map(|(init_size, keys, churn, iters, offsets)| ConcCase { init_size, keys, churn, iters, offsets })
}

const READERS: usize = 8;

fn check_conc(c: &ConcCase, obs: &mut Obs) -> CheckResult {
    let _g = CACHE_LOCK.lock().unwrap_or_else(|e| e.into_inner());
    let _reset = CacheReset;
    vo::clear_lsh_cache();
    vo::configure_lsh_cache_size(c.init_size);
    let want: Vec<(i64, i64)> = c.keys.iter().map(LKey::reference).collect();
    // schedule-independent oracle: the single-threaded values, which must also be R7's
    for (i, k) in c.keys.iter().enumerate() {
        let got = k.eval();
        if got != want[i] {
            return Err(key_mismatch("bucket_differs_from_reference", k, i, got, want[i], "single-threaded"));
        }
    }
    let slots: BTreeSet<_> = c.keys.iter().map(LKey::slot).collect();
    let n = c.keys.len();
    let remaining = AtomicUsize::new(READERS);
    let bad: Mutex<Option<Fail>> = Mutex::new(None);
    struct Done<'a>(&'a AtomicUsize);
    impl Drop for Done<'_> {
        fn drop(&mut self) {
            self.0.fetch_sub(1, Ordering::SeqCst);
        }
    }
    std::thread::scope(|sc| {
        for r in 0..READERS {
            let (remaining, bad, want) = (&remaining, &bad, &want);
            let off = *c.offsets.get(r).unwrap_or(&0) as usize;
            sc.spawn(move || {
                let _done = Done(remaining);
                for it in 0..c.iters as usize {
                    for j in 0..n {
                        let i = (off + it + j) % n;
                        let got = c.keys[i].eval();
                        if got != want[i] {
                            let mut b = bad.lock().unwrap_or_else(|e| e.into_inner());
                            b.get_or_insert(key_mismatch("bucket_changed_under_concurrency", &c.keys[i], i, got, want[i], &format!("in reader {r}, iteration {it}, while the cache was being churned")));
                            return;
                        }
                    }
                    if bad.lock().unwrap_or_else(|e| e.into_inner()).is_some() {
                        return;
                    }
                }
            });
        }
        let remaining = &remaining;
        sc.spawn(move || {
            while remaining.load(Ordering::SeqCst) > 0 {
                for act in &c.churn {
                    apply(act, &c.keys);
                    if remaining.load(Ordering::SeqCst) == 0 {
                        break;
                    }
                }
                std::thread::yield_now();
            }
        });
    });
    let min_cap = c.churn.iter().filter_map(|a| if let CacheAct::Resize(n) = a { Some(*n) } else { None }).chain([c.init_size]).min().unwrap_or(1);
    obs.nontrivial = slots.len() > min_cap;
    obs.class_if(slots.len() > min_cap, "more_cache_slots_than_capacity");
    obs.class_if(c.churn.iter().any(|a| matches!(a, CacheAct::Clear)), "concurrent_clear");
    obs.class_if(c.churn.iter().any(|a| matches!(a, CacheAct::Resize(_))), "concurrent_resize");
    obs.count("concurrent_bucket_evaluations", (READERS * c.iters as usize * n) as u64);
    obs.sample = Some(json!({"keys": n, "distinct_slots": slots.len(), "initial_capacity": c.init_size, "reader_threads": READERS, "iterations": c.iters,
        "churn": c.churn.iter().map(|a| format!("{a:?}")).collect::<Vec<_>>()}));
    match bad.into_inner().unwrap_or_else(|e| e.into_inner()) {
        Some(f) => Err(f),
        None => Ok(()),
    }
}

// ------------------------------------------------------------------------------------------------
// structural shrinking of failing cases (after proptest's own): drop components, then replace
// components by simpler ones (0, 1, -1, the nearest power of ten), as long as the same failure
// kind remains

fn simplicity_rank(x: f32) -> u8 {
    if x.to_bits() == 0 {
        0
    } else if x == 1.0 {
        1
    } else if x == -1.0 {
        2
    } else if x != 0.0 && power_of_ten_near(x).to_bits() == x.to_bits() {
        3
    } else {
        4
    }
}

fn power_of_ten_near(x: f32) -> f32 {
    let p: f32 = format!("1e{}", f64::from(x.abs()).log10().round() as i32).parse().unwrap_or(0.0);
    if p.is_finite() && p > 0.0 {
        p.copysign(x)
    } else {
        x
    }
}

fn simpler(x: f32) -> Vec<f32> {
    let mut c = vec![0.0f32, 1.0, -1.0];
    if x != 0.0 {
        c.push(power_of_ten_near(x));
    }
    c.retain(|y| simplicity_rank(*y) < simplicity_rank(x));
    c
}

/// `fields(case)` = the f32 vectors of the case; components with the same index are dropped together
fn shrink_f32_fields<T: Clone>(c: &T, fields: &dyn Fn(&mut T) -> Vec<&mut Vec<f32>>, still: &dyn Fn(&T) -> bool) -> T {
    let mut cur = c.clone();
    for _ in 0..8 {
        let mut changed = false;
        let n_fields = fields(&mut cur).len();
        let mut i = fields(&mut cur).iter().map(|v| v.len()).max().unwrap_or(0);
        while i > 0 {
            i -= 1;
            let mut t = cur.clone();
            for v in fields(&mut t) {
                if i < v.len() {
                    v.remove(i);
                }
            }
            if still(&t) {
                cur = t;
                changed = true;
            }
        }
        for fi in 0..n_fields {
            let len = fields(&mut cur)[fi].len();
            for i in 0..len {
                let x = fields(&mut cur)[fi][i];
                for cand in simpler(x) {
                    let mut t = cur.clone();
                    fields(&mut t)[fi][i] = cand;
                    if still(&t) {
                        cur = t;
                        changed = true;
                        break;
                    }
                }
            }
        }
        if !changed {
            break;
        }
    }
    cur
}

fn shrink_dist(c: &DistCase, still: &dyn Fn(&DistCase) -> bool) -> DistCase {
    shrink_f32_fields(c, &|c: &mut DistCase| vec![&mut c.a, &mut c.b], still)
}

fn shrink_q(c: &QCase, still: &dyn Fn(&QCase) -> bool) -> QCase {
    shrink_f32_fields(c, &|c: &mut QCase| vec![&mut c.v], still)
}

fn shrink_lsh(c: &LshCase, still: &dyn Fn(&LshCase) -> bool) -> LshCase {
    let mut cur = c.clone();
    let attempt = |cur: &mut LshCase, edit: &dyn Fn(&mut LshCase)| {
        let mut t = cur.clone();
        edit(&mut t);
        if still(&t) {
            *cur = t;
        }
    };
    attempt(&mut cur, &|t| t.q.clear());
    attempt(&mut cur, &|t| t.tables = 1);
    attempt(&mut cur, &|t| t.bucket = 0);
    for table in 0..8i64 {
        if cur.table != table && !(0..table).contains(&cur.table) {
            attempt(&mut cur, &|t| t.table = table);
        }
    }
    for p in [0usize, 1, 2, 5] {
        if p < cur.probes {
            attempt(&mut cur, &|t| t.probes = p);
        }
    }
    let cur = shrink_f32_fields(&cur, &|c: &mut LshCase| vec![&mut c.v], still);
    // fewest hyperplanes that still show it
    let mut best = cur.clone();
    for nh in 1..cur.nh {
        let mut t = cur.clone();
        t.nh = nh;
        if still(&t) {
            best = t;
            break;
        }
    }
    best
}

// ------------------------------------------------------------------------------------------------

pub fn run(ctx: &Ctx) {
    ctx.set_rule(
        "distances: pairs (a,b) of finite f32 vectors, dim 0-16, drawn per magnitude profile (ordinary / huge up to f32::MAX incl. +-1e30 / \
         tiny incl. denormals / any finite bit pattern / zero), b independent, from another profile, = a, = -a, = k*a or of another dimension; \
         euclidean, euclidean_squared, cosine, manhattan (+ *_checked; Err = rejected): d(a,b) = d(b,a) bit-exact, no NaN, d >= 0, \
         d(x,x) <= 1e-6*max(1,|x|_inf) (cosine: <= 1e-6), cosine in [0,2]; dot: symmetry only. int8_distances: the same laws for the *_int8 and \
         *_dequantized forms (cosine_int8 of a zero vector is documented as 1.0 and exempt from d(x,x)=0). quantize: every component within ONE \
         step of its reconstruction, step = max|x|/127 (symmetric) resp. (max-min)/255 (linear, minmax) as documented, codes read back through \
         dequantize_vector and (symmetric, normal f32 scale) dequantize_vector_with_scale with 1e-3 step slack. lsh: lsh_bucket / _int8 / \
         _with_distances / lsh_buckets equal reference R7 (own hyperplane construction) for tables incl. negative/extreme and 0-70 hyperplanes; \
         lsh_probes / lsh_probes_ranked / lsh_multi_probe(_int8): first = bucket, distinct, non-decreasing Hamming distance, length <= requested \
         and = requested while <= the HD<=3 ball; multi_probe[0] = lsh_bucket. cache_history: 2-6 keys sharing/competing for cache slots, \
         capacity 1-3, 1-24 actions (clear, resize 0-3/64, prewarm, lookups of own and foreign keys): after every action every key's bucket \
         equals its cold-cache value and R7. cache_concurrency: 8 reader threads evaluate the keys 4-30 rounds while one thread clears / \
         resizes (1-3) / prewarms / looks up foreign keys; every value equals the single-threaded one (= R7). Non-trivial = magnitude class other \
         than ordinary [distances, quantize]; zero vector, +-127/-128 component or dimension mismatch [int8]; magnitude class, 0 or >= 62 \
         hyperplanes or table outside 0..63 [lsh]; an eviction was observed between two evaluations [cache_history]; more distinct cache slots \
         than the smallest capacity [cache_concurrency]. Distinct = distinct case JSON.",
    );
    ctx.assume("std DefaultHasher::new() is deterministic and identical in the harness and the crate (same std build)");
    ctx.assume("R7 re-implements the hyperplane construction read from src/vector_ops.rs (the docs only promise determinism); every cache/concurrency case additionally compares against the crate's own cold-cache value");
    ctx.assume("cache_history and cache_concurrency cases are serialised by a process-wide mutex; thread schedules of cache_concurrency are whatever the OS produces (oracle is schedule-independent)");
    ctx.assume("the property states no temporal law; temporal_ops is not exercised");
    ctx.run_part_with("distances", ctx.cases(60_000, 1_200_000), dist_strategy, check_dist, Some(&shrink_dist));
    ctx.run_part("int8_distances", ctx.cases(30_000, 600_000), i8_strategy, check_i8);
    ctx.run_part_with("quantize", ctx.cases(40_000, 800_000), q_strategy, check_quant, Some(&shrink_q));
    ctx.run_part_with("lsh", ctx.cases(20_000, 400_000), lsh_strategy, check_lsh, Some(&shrink_lsh));
    ctx.run_part("cache_history", ctx.cases(8_000, 160_000), cache_strategy, check_cache);
    ctx.run_part("cache_concurrency", ctx.cases(1_000, 20_000), conc_strategy, check_conc);
}

pub fn replay(ctx: &Ctx, part: &str, case: &J) -> Option<Result<CheckResult, String>> {
    Some(match part {
        "distances" => ctx.replay_case(part, case, check_dist),
        "int8_distances" => ctx.replay_case(part, case, check_i8),
        "quantize" => ctx.replay_case(part, case, check_quant),
        "lsh" => ctx.replay_case(part, case, check_lsh),
        "cache_history" => ctx.replay_case(part, case, check_cache),
        "cache_concurrency" => ctx.replay_case(part, case, check_conc),
        _ => return None,
    })
}
