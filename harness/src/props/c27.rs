//! C27 — authorization holds for every program (multi-line programs, comments, continuation
//! lines, graph switches): no statement changes a knowledge graph on which the caller lacks write
//! permission. Also hosts the shared generator used by C29.

use crate::common::digest::{diff, digest, Digest};
use crate::common::gen::{tape_strategy, Tape};
use crate::common::store::{block_on, open_handler, result_messages, Scratch, KG};
use crate::common::{CheckResult, Ctx, Fail, Obs};
use inputlayer::auth::{AuthIdentity, Role};
use inputlayer::value::{Tuple, Value};
use proptest::prelude::*;
use serde::{Deserialize, Serialize};
use serde_json::{json, Value as J};

#[derive(Clone, Copy, Debug, Serialize, Deserialize, PartialEq, Eq)]
pub enum Kind {
    Read,
    Write,
    SessionOnly,
    KgUse,
    KgCreate,
    KgDrop,
    AdminOnly,
}

#[derive(Clone, Debug, Serialize, Deserialize)]
pub struct Line {
    pub kind: Kind,
    pub text: String,
    /// target KG name for KgUse / KgCreate / KgDrop
    pub target: Option<String>,
}

#[derive(Clone, Debug, Serialize, Deserialize)]
pub struct ACase {
    pub lines: Vec<Line>,
    /// rendered program (with comments / continuation lines / trailing comments)
    pub program: String,
    /// "editor" | "viewer"
    pub global_role: String,
    /// role on `default` and on `k2`: "owner" | "editor" | "viewer" | "none"
    pub role_default: String,
    pub role_k2: String,
    pub with_session: bool,
    /// knowledge_graph argument of the request (None = session / default binding)
    pub request_kg: Option<String>,
}

fn s(x: &str) -> Value {
    Value::string(x)
}

pub const SECRET: &str = "SECRET-HASH-7f3a";

pub fn fixture(sc: &Scratch, c: &ACase) -> Result<inputlayer::protocol::Handler, String> {
    let h = open_handler(&sc.path, |_| {})?;
    {
        let st = h.get_storage();
        st.insert_tuples_into(KG, "r", vec![Tuple::pair(1, 2), Tuple::pair(3, 4)]).map_err(|e| e.to_string())?;
        st.create_knowledge_graph("k2").map_err(|e| e.to_string())?;
        st.insert_tuples_into("k2", "r", vec![Tuple::pair(10, 20), Tuple::pair(30, 40)]).map_err(|e| e.to_string())?;
        st.create_knowledge_graph("_internal").map_err(|e| e.to_string())?;
        st.insert_tuples_into(
            "_internal",
            "users",
            vec![Tuple::new(vec![s("u1"), s(SECRET), s(&c.global_role)]), Tuple::new(vec![s("admin"), s(SECRET), s("admin")])],
        )
        .map_err(|e| e.to_string())?;
        st.insert_tuples_into("_internal", "api_keys", vec![Tuple::new(vec![s("boot"), s(SECRET), s("admin")])]).map_err(|e| e.to_string())?;
        let mut acls = vec![Tuple::new(vec![s("other"), s("admin"), s("owner")])];
        if c.role_default != "none" {
            acls.push(Tuple::new(vec![s(KG), s("u1"), s(&c.role_default)]));
        }
        if c.role_k2 != "none" {
            acls.push(Tuple::new(vec![s("k2"), s("u1"), s(&c.role_k2)]));
        }
        st.insert_tuples_into("_internal", "kg_acls", acls).map_err(|e| e.to_string())?;
    }
    for kg in [KG, "k2"] {
        block_on(h.query_program(Some(kg.to_string()), "+p(X) <- r(X, Y)".to_string())).map_err(|e| format!("fixture rule: {e}"))?;
    }
    Ok(h)
}

pub fn gen_line(t: &mut Tape, internal: bool) -> Line {
    let l = |k: Kind, text: &str| Line { kind: k, text: text.to_string(), target: None };
    let kg_names = if internal { vec!["_internal", "_internal", "k2", "default"] } else { vec!["k2", "default", "k2", "k3"] };
    match t.below(20) {
        0 => l(Kind::Read, "?r(X, Y)"),
        1 => l(Kind::Read, "?p(X)"),
        2 => l(Kind::Read, ".rel"),
        3 => l(Kind::Read, ".rule"),
        4 => l(Kind::Write, &format!("+r({}, {})", 50 + t.below(5), t.below(5))),
        5 => l(Kind::Write, &format!("+r[({}, 1), ({}, 2)]", 60 + t.below(5), 70 + t.below(5))),
        6 => l(Kind::Write, ["-r(1, 2)", "-r(10, 20)"][t.below(2)]),
        7 => l(Kind::Write, "-r(X, Y) <- r(X, Y), X > 2"),
        8 => l(Kind::Write, "-r(X, Y), +r(Y, X) <- r(X, Y)"),
        9 => l(Kind::Write, &format!("+q{}(X) <- r(X, Y)", t.below(3))),
        10 => l(Kind::SessionOnly, "tmp(X) <- r(X, Y)"),
        11 => l(Kind::SessionOnly, "r(99, 99)"),
        12 => l(Kind::Write, &format!("+sch{}(a: int, b: string)", t.below(3))),
        13 => l(Kind::Write, [".rule drop p", "-p", ".clear prefix r", ".rule clear p"][t.below(4)]),
        14 | 15 => {
            let n = kg_names[t.below(kg_names.len())];
            Line { kind: Kind::KgUse, text: format!(".kg use {n}"), target: Some(n.to_string()) }
        }
        16 => {
            // new names, but also creates that are refused (existing graph, invalid name): a refused create leaves
            // the executor on the graph it was on
            let n = if internal && t.chance(8, 16) {
                "_internal".to_string()
            } else {
                match t.below(6) {
                    0..=2 => format!("new{}", t.below(3)),
                    3 => "k2".to_string(),
                    4 => "default".to_string(),
                    _ => "bad..name".to_string(),
                }
            };
            Line { kind: Kind::KgCreate, text: format!(".kg create {n}"), target: Some(n) }
        }
        17 => {
            let n = kg_names[t.below(kg_names.len())];
            Line { kind: Kind::KgDrop, text: format!(".kg drop {n}"), target: Some(n.to_string()) }
        }
        18 => l(Kind::AdminOnly, ".compact"),
        _ => {
            if internal {
                [l(Kind::Read, "?users(U, H, R)"), l(Kind::Read, "?api_keys(L, H, O)"), l(Kind::Write, "+users(\"evil\", \"h\", \"admin\")"), l(Kind::Write, "+kg_acls(\"default\", \"u1\", \"owner\")"), l(Kind::Read, "?kg_acls(K, U, R)")][t.below(5)].clone()
            } else {
                l(Kind::Read, "?r(1, Y)")
            }
        }
    }
}

pub fn render(t: &mut Tape, lines: &[Line]) -> String {
    let mut out = Vec::new();
    for (i, l) in lines.iter().enumerate() {
        let mut after_comment = false;
        if t.chance(3, 16) {
            out.push(["// a comment", "% another comment", "", "   // indented comment", "   % indented percent comment", "% c"][t.below(6)].to_string());
            after_comment = true;
        }
        let mut text = l.text.clone();
        if t.chance(2, 16) {
            text.push_str(["  // trailing comment", "  % trailing percent comment"][t.below(2)]);
        }
        // a continuation line only after a line that ends an rule-like statement: split at "<-"
        if let Some(p) = text.find("<- ") {
            if t.chance(5, 16) && i > 0 {
                let (a, b) = text.split_at(p + 2);
                out.push(a.to_string());
                // sometimes a comment sits between the head and its continuation line
                if t.chance(1, 3) {
                    out.push(["% c", "// c", "   % c"][t.below(3)].to_string());
                }
                out.push(format!("   {}", b.trim_start()));
                continue;
            }
        }
        // an indented statement right after a comment line is still its own statement (the comment is
        // removed before continuation lines are joined)
        if after_comment && t.chance(1, 3) {
            text = format!("  {text}");
        }
        out.push(text);
        // a statement followed by an indented comment line
        if t.chance(1, 16) {
            out.push("  % indented comment after a statement".to_string());
        }
    }
    out.join("\n")
}

pub fn decode(tape: &[u16], internal: bool) -> ACase {
    let mut t = Tape::new(tape);
    let n = 1 + t.below(6);
    let lines: Vec<Line> = (0..n).map(|_| gen_line(&mut t, internal)).collect();
    let program = render(&mut t, &lines);
    let roles = ["owner", "editor", "viewer", "none"];
    let global_role = ["editor", "viewer"][t.below(2)].to_string();
    let role_default = roles[t.below(4)].to_string();
    let role_k2 = roles[t.below(4)].to_string();
    let with_session = t.chance(6, 16);
    // the WebSocket layer sends a session and no graph, REST a graph and no session; the public entry point also
    // takes both (non-query statements then run on the explicit graph): a third of the session cases do that
    let request_kg = if with_session && !t.chance(1, 3) {
        None
    } else {
        Some(if internal && t.chance(3, 16) { "_internal".to_string() } else { ["default", "k2"][t.below(2)].to_string() })
    };
    ACase { lines, program, global_role, role_default, role_k2, with_session, request_kg }
}

pub fn identity(c: &ACase) -> AuthIdentity {
    AuthIdentity { username: "u1".into(), role: if c.global_role == "editor" { Role::Editor } else { Role::Viewer } }
}

pub fn role_on<'a>(c: &'a ACase, kg: &str) -> &'a str {
    match kg {
        "default" => &c.role_default,
        "k2" => &c.role_k2,
        _ => "none",
    }
}

pub struct RunOut {
    pub before: Digest,
    pub after: Digest,
    pub result: Result<Vec<String>, String>,
    pub session_kg: Option<String>,
}

/// Execute the case's program as identity `auth` (None = trusted caller) on a fresh fixture.
pub fn execute(c: &ACase, auth: Option<&AuthIdentity>) -> Result<RunOut, String> {
    let sc = Scratch::new("c27");
    let h = fixture(&sc, c)?;
    let sid = if c.with_session { Some(h.create_session(KG)?) } else { None };
    let before = digest(&h);
    let res = block_on(h.execute_program(sid.as_ref(), c.request_kg.clone(), c.program.clone(), auth));
    let after = digest(&h);
    let session_kg = sid.as_ref().and_then(|s| h.session_manager().session_kg(s).ok());
    let result = res.map(|r| {
        let mut out = result_messages(&r);
        for row in &r.rows {
            out.push(format!("{:?}", row.values));
        }
        out
    });
    Ok(RunOut { before, after, result, session_kg })
}

pub fn check(_ctx: &Ctx, c: &ACase, obs: &mut Obs) -> CheckResult {
    let ident = identity(c);
    let out = execute(c, Some(&ident)).map_err(|e| Fail::new("fixture_failed", e))?;
    let changed = diff(&out.before, &out.after);
    obs.class(&format!("global_{}", c.global_role));
    obs.class_if(c.with_session, "with_session");
    obs.class_if(c.lines.len() >= 2, "multi_statement");
    obs.class_if(c.program.contains("//") || c.program.contains('%'), "has_comment");
    obs.class_if(c.program.contains("\n   "), "has_continuation_line");
    obs.class_if(!changed.is_empty(), "state_changed");
    obs.class_if(out.result.is_err(), "request_refused");
    obs.sample = Some(json!({"program": c.program.lines().collect::<Vec<_>>(), "global": c.global_role, "default": c.role_default, "k2": c.role_k2, "session": c.with_session, "request_kg": c.request_kg}));
    // non-trivial: >= 2 statements and the program would change state when run by a trusted caller
    if c.lines.len() >= 2 {
        if let Ok(twin) = execute(c, None) {
            obs.nontrivial = !diff(&twin.before, &twin.after).is_empty();
        }
    }
    let desc = || {
        format!(
            "identity u1: global {} / default:{} / k2:{}; session {}; request kg {:?}\nprogram:\n{}\nresult: {:?}",
            c.global_role, c.role_default, c.role_k2, c.with_session, c.request_kg, c.program, out.result
        )
    };
    for key in &changed {
        if key == "kgs" {
            // allowed only through a permitted create (global editor) or drop (owner of that KG)
            let before: Vec<&str> = out.before["kgs"].split(',').collect();
            let after: Vec<&str> = out.after.get("kgs").map(|s| s.split(',').collect()).unwrap_or_default();
            for k in &after {
                if !before.contains(k) && c.global_role != "editor" {
                    return Err(Fail::new("unauthorized_kg_create", format!("a global viewer created knowledge graph {k}\n{}", desc())));
                }
            }
            for k in &before {
                if !after.contains(k) && role_on(c, k) != "owner" {
                    return Err(Fail::new("unauthorized_kg_drop", format!("knowledge graph {k} was dropped by a caller who is not its owner\n{}", desc())));
                }
            }
            continue;
        }
        let kg = key.split('/').next().unwrap_or("");
        if kg == "_internal" {
            // the only legitimate effect is ACL bookkeeping of a permitted create/drop
            if key == "_internal/facts/kg_acls" && changed.iter().any(|k| k == "kgs") {
                continue;
            }
            return Err(Fail::new(
                "unauthorized_change_to_internal_kg",
                format!("{key} changed from {:?} to {:?}\n{}", out.before.get(key), out.after.get(key), desc()),
            ));
        }
        let role = role_on(c, kg);
        let newly_created = !out.before["kgs"].split(',').any(|k| k == kg);
        let dropped = !out.after.get("kgs").is_some_and(|s| s.split(',').any(|k| k == kg));
        if newly_created || dropped {
            continue; // judged through the kgs rule above
        }
        if role != "owner" && role != "editor" {
            return Err(Fail::new(
                "unauthorized_write",
                format!("{key} changed although the caller's role on knowledge graph '{kg}' is '{role}'\n{}", desc()),
            ));
        }
    }
    // completeness for single statements: a permitted statement must not be refused for lack of permission
    if c.lines.len() == 1 && c.program.lines().count() == 1 && !(c.with_session && c.request_kg.is_some()) {
        let l = &c.lines[0];
        let cur = c.request_kg.clone().unwrap_or_else(|| KG.to_string());
        let role = role_on(c, &cur);
        let permitted = match l.kind {
            Kind::Read => role != "none",
            Kind::Write => role == "owner" || role == "editor",
            Kind::KgUse => l.target.as_deref().is_some_and(|t| role_on(c, t) != "none") && role != "none",
            _ => false,
        };
        if permitted {
            if let Err(e) = &out.result {
                if e.contains("Permission denied") || e.contains("Access denied") {
                    return Err(Fail::new("permitted_statement_refused", format!("{}\nthe statement is permitted for this identity but was refused", desc())));
                }
            }
        }
        obs.class_if(permitted, "single_permitted_statement");
    }
    Ok(())
}

pub fn run(ctx: &Ctx) {
    ctx.set_rule(
        "Programs of 1-6 statements (queries, single/bulk inserts, deletes, conditional deletes, updates, persistent rules, session rules, \
         session facts, schema declarations, .rule drop / -name / .clear prefix, .kg use|create|drop, .compact) rendered with comment lines, \
         trailing // comments and indented continuation lines, submitted through Handler::execute_program by user u1 with global role in \
         {editor, viewer} x role on KG default in {owner, editor, viewer, none} x role on KG k2 (same), with a WebSocket session or an \
         explicit request KG. Oracle: a digest of every KG's facts, rules, schemas, indexes, of the KG list and of _internal is taken before \
         and after; any change to a KG on which the caller is neither owner nor editor, any KG creation by a global viewer, any drop by a \
         non-owner, any change to _internal other than ACL bookkeeping of a permitted create/drop is a violation whatever the call \
         returned; a single permitted statement must not be refused. Non-trivial = >=2 statements and the program changes state when run \
         by a trusted caller on a twin handler. Distinct = case JSON.",
    );
    ctx.assume("permission model from src/auth.rs comments: the per-KG role decides data access, the global role only gates KG creation and admin commands");
    ctx.run_part("multi_statement_programs", ctx.cases(8000, 120_000), || tape_strategy(80).prop_map(|t| decode(&t, false)), |c, o| check(ctx, c, o));
}

pub fn replay(ctx: &Ctx, part: &str, case: &J) -> Option<Result<CheckResult, String>> {
    Some(match part {
        "multi_statement_programs" => ctx.replay_case(part, case, |c: &ACase, o: &mut Obs| check(ctx, c, o)),
        _ => return None,
    })
}
