//! C28 — role permissions form a lattice; a KG viewer never gets a state-changing statement;
//! only admins manage users, API keys and compaction. Exhaustive over statement/meta variants.

use crate::common::digest::{diff, digest};
use crate::common::store::{block_on, open_handler, Scratch, KG};
use crate::common::{CheckResult, Ctx, Fail, Obs};
use inputlayer::auth::{authorize_kg_operation, authorize_statement, KgRole, Role};
use inputlayer::statement::{parse_statement, Statement};
use inputlayer::value::{Tuple, Value};
use serde::{Deserialize, Serialize};
use serde_json::{json, Value as J};

#[derive(Clone, Debug, Serialize, Deserialize)]
pub struct StCase {
    pub text: String,
    /// expected variant name prefix (sanity: the text must parse to this variant)
    pub variant: String,
}

/// (text, variant) — at least one per Statement variant and per MetaCommand variant, with a few
/// argument shapes each.
fn statements() -> Vec<StCase> {
    let v = |t: &str, var: &str| StCase { text: t.to_string(), variant: var.to_string() };
    vec![
        v("?r(X, Y)", "Query"),
        v("?r(1, Y), Y > 2", "Query"),
        v("+r(9, 9)", "Insert"),
        v("+r[(7, 7), (8, 8)]", "Insert"),
        v("-r(1, 2)", "Delete"),
        v("-r[(1, 2), (3, 4)]", "Delete"),
        v("-r(X, Y) <- r(X, Y), X > 1", "Delete"),
        v("-r(X, Y), +r(X, Z) <- r(X, Y), Z = Y + 1", "Update"),
        v("+p2(X) <- r(X, Y)", "PersistentRule"),
        v("+p(X) <- r(Y, X)", "PersistentRule"),
        v("tmp(X) <- r(X, Y)", "SessionRule"),
        v("r(5, 5)", "Fact"),
        v("+s2(a: int, b: string)", "SchemaDecl"),
        v("s3(a: int)", "SchemaDecl"),
        v("type Email: string", "TypeDecl"),
        v("-r", "DeleteRelationOrRule"),
        v("-p", "DeleteRelationOrRule"),
        v(".kg", "Meta(KgShow"),
        v(".kg list", "Meta(KgList"),
        v(".kg create k3", "Meta(KgCreate"),
        v(".kg use k2", "Meta(KgUse"),
        v(".kg drop k2", "Meta(KgDrop"),
        v(".rel", "Meta(RelList"),
        v(".rel r", "Meta(RelDescribe"),
        v(".rel drop r", "Meta(RelDrop"),
        v(".rule", "Meta(RuleList"),
        v(".rule p", "Meta(RuleQuery"),
        v(".rule def p", "Meta(RuleShowDef"),
        v(".rule drop p", "Meta(RuleDrop"),
        v(".rule drop prefix p", "Meta(RuleDropPrefix"),
        v(".rule edit p 1 +p(X) <- r(X, X)", "Meta(RuleEdit"),
        v(".rule clear p", "Meta(RuleClear"),
        v(".rule remove p 1", "Meta(RuleRemove"),
        v(".session", "Meta(SessionList"),
        v(".session clear", "Meta(SessionClear"),
        v(".session drop 1", "Meta(SessionDrop"),
        v(".session drop tmp", "Meta(SessionDropName"),
        v(".index list", "Meta(IndexList"),
        v(".index create vi on vecs(v) metric cosine", "Meta(IndexCreate"),
        v(".index drop vi0", "Meta(IndexDrop"),
        v(".index stats vi0", "Meta(IndexStats"),
        v(".index rebuild vi0", "Meta(IndexRebuild"),
        v(".clear prefix r", "Meta(ClearPrefix"),
        v(".compact", "Meta(Compact"),
        v(".status", "Meta(Status"),
        v(".debug ?r(X, Y)", "Meta(Debug"),
        v(".why ?p(X)", "Meta(Why"),
        v(".why full ?p(X)", "Meta(WhyFull"),
        v(".why_not p(77)", "Meta(WhyNot"),
        v(".agent hello", "Meta(AgentMessage"),
        v(".agent start intro", "Meta(AgentStart"),
        v(".agent setup intro", "Meta(AgentSetup"),
        v(".agent examples", "Meta(AgentExamples"),
        v(".help", "Meta(Help"),
        v(".quit", "Meta(Quit"),
        v(".load LOADFILE", "Meta(Load"),
        v(".user list", "Meta(UserList"),
        v(".user create newu pw12345678 editor", "Meta(UserCreate"),
        v(".user drop vi", "Meta(UserDrop"),
        v(".user password vi newpw123456", "Meta(UserPassword"),
        v(".user role vi editor", "Meta(UserRole"),
        v(".apikey create lab", "Meta(ApiKeyCreate"),
        v(".apikey list", "Meta(ApiKeyList"),
        v(".apikey revoke lab0", "Meta(ApiKeyRevoke"),
        v(".kg acl list", "Meta(KgAclList"),
        v(".kg acl list k2", "Meta(KgAclList"),
        v(".kg acl grant k2 vi editor", "Meta(KgAclGrant"),
        v(".kg acl revoke k2 ed", "Meta(KgAclRevoke"),
    ]
}

fn s(x: &str) -> Value {
    Value::string(x)
}

/// Scratch handler with fixtures every statement can act on.
pub fn fixture(sc: &Scratch) -> Result<inputlayer::protocol::Handler, String> {
    let h = open_handler(&sc.path, |_| {})?;
    {
        let st = h.get_storage();
        st.insert_tuples_into(KG, "r", vec![Tuple::pair(1, 2), Tuple::pair(3, 4), Tuple::pair(5, 6)]).map_err(|e| e.to_string())?;
        st.insert_tuples_into(KG, "vecs", vec![Tuple::new(vec![Value::Int64(1), Value::vector(vec![1.0, 0.0])]), Tuple::new(vec![Value::Int64(2), Value::vector(vec![0.0, 1.0])])])
            .map_err(|e| e.to_string())?;
        st.create_knowledge_graph("k2").map_err(|e| e.to_string())?;
        st.insert_tuples_into("k2", "r", vec![Tuple::pair(10, 20)]).map_err(|e| e.to_string())?;
        st.create_knowledge_graph("_internal").map_err(|e| e.to_string())?;
        st.insert_tuples_into("_internal", "users", vec![Tuple::new(vec![s("ed"), s("x"), s("editor")]), Tuple::new(vec![s("vi"), s("x"), s("viewer")]), Tuple::new(vec![s("admin"), s("x"), s("admin")])])
            .map_err(|e| e.to_string())?;
        st.insert_tuples_into("_internal", "api_keys", vec![Tuple::new(vec![s("lab0"), s("hash"), s("admin")])]).map_err(|e| e.to_string())?;
        st.insert_tuples_into("_internal", "kg_acls", vec![Tuple::new(vec![s("k2"), s("ed"), s("editor")])]).map_err(|e| e.to_string())?;
    }
    for line in ["+p(X) <- r(X, Y)", "+p(X) <- r(Y, X)", "+s(a: int)", ".index create vi0 on vecs(col1) metric cosine"] {
        block_on(h.query_program(Some(KG.to_string()), line.to_string())).map_err(|e| format!("fixture `{line}`: {e}"))?;
    }
    std::fs::write(sc.path.join("load.iql"), "+loaded(1, 1)\n").map_err(|e| e.to_string())?;
    Ok(h)
}

fn is_ok<T, E>(r: &Result<T, E>) -> bool {
    r.is_ok()
}

pub fn check(_ctx: &Ctx, c: &StCase, obs: &mut Obs) -> CheckResult {
    let sc = Scratch::new("c28");
    let text = c.text.replace("LOADFILE", &sc.path.join("load.iql").display().to_string());
    let stmt: Statement = parse_statement(&text).map_err(|e| Fail::new("fixture_statement_does_not_parse", format!("`{text}`: {e}")))?;
    let dbg = format!("{stmt:?}");
    if !dbg.starts_with(&c.variant) {
        return Err(Fail::new("fixture_statement_wrong_variant", format!("`{text}` parsed as {dbg}, expected {}", c.variant)));
    }
    obs.nontrivial = true;
    obs.key = Some(c.text.clone());
    obs.sample = Some(json!({"statement": c.text, "variant": c.variant}));
    // lattice of KG roles and of global roles
    let (kv, ke, ko) = (authorize_kg_operation(&KgRole::Viewer, &stmt), authorize_kg_operation(&KgRole::Editor, &stmt), authorize_kg_operation(&KgRole::Owner, &stmt));
    if is_ok(&kv) && !is_ok(&ke) {
        return Err(Fail::new("kg_viewer_allowed_but_editor_denied", format!("`{text}`: viewer {kv:?}, editor {ke:?}")));
    }
    if is_ok(&ke) && !is_ok(&ko) {
        return Err(Fail::new("kg_editor_allowed_but_owner_denied", format!("`{text}`: editor {ke:?}, owner {ko:?}")));
    }
    let (gv, ge, ga) = (authorize_statement(&Role::Viewer, &stmt), authorize_statement(&Role::Editor, &stmt), authorize_statement(&Role::Admin, &stmt));
    if is_ok(&gv) && !is_ok(&ge) {
        return Err(Fail::new("viewer_allowed_but_editor_denied", format!("`{text}`: viewer {gv:?}, editor {ge:?}")));
    }
    if is_ok(&ge) && !is_ok(&ga) {
        return Err(Fail::new("editor_allowed_but_admin_denied", format!("`{text}`: editor {ge:?}, admin {ga:?}")));
    }
    let admin_only = ["Meta(User", "Meta(ApiKey", "Meta(Compact"].iter().any(|p| c.variant.starts_with(p));
    if admin_only && (is_ok(&gv) || is_ok(&ge)) {
        return Err(Fail::new("admin_only_command_allowed_to_non_admin", format!("`{text}`: global viewer {gv:?}, global editor {ge:?}")));
    }
    obs.class_if(is_ok(&kv), "allowed_to_kg_viewer");
    obs.class_if(admin_only, "admin_only_command");
    // behavioural: does executing it (as a trusted caller) change persistent state?
    if c.variant.starts_with("Meta(Agent") && !c.variant.starts_with("Meta(AgentSetup") && !c.variant.starts_with("Meta(AgentExamples") {
        // needs the external teaching-agent service: not executed (no network in the sandbox)
        obs.class("not_executed_needs_network");
        return Ok(());
    }
    let h = fixture(&sc).map_err(|e| Fail::new("fixture_failed", e))?;
    let sid = h.create_session(KG).map_err(|e| Fail::new("fixture_failed", e))?;
    let _ = block_on(h.execute_program(Some(&sid), None, "tmp(X) <- r(X, Y)".to_string(), None));
    let before = digest(&h);
    let res = block_on(h.execute_program(Some(&sid), None, text.clone(), None));
    let after = digest(&h);
    let changed = diff(&before, &after);
    obs.class_if(!changed.is_empty(), "changes_persistent_state");
    if !changed.is_empty() && is_ok(&kv) {
        return Err(Fail::new(
            "kg_viewer_may_change_persistent_state",
            format!("`{text}` is permitted to a KG viewer but executing it changed {changed:?} (result {:?})", res.map(|r| r.rows.len())),
        ));
    }
    Ok(())
}

pub fn run(ctx: &Ctx) {
    ctx.set_rule(
        "Exhaustive: one or more representative texts for every Statement variant and every MetaCommand variant (68 statements, each checked \
         to parse to the intended variant) x every KG role and global role. Oracle: viewer-allowed implies editor-allowed implies \
         owner-allowed (KG roles) and viewer implies editor implies admin (global roles); user / API-key / compaction commands denied to \
         every non-admin; and 'changes persistent state' is established behaviourally - the statement is executed by a trusted caller on a \
         scratch handler with fixtures (facts, rules, schema, index, second KG, users, ACLs, API key, session rule) and the full state \
         digest is compared - no such statement may be permitted to a KG viewer. Every (statement) case is non-trivial; distinct = text.",
    );
    ctx.assume(".agent message/start need the external agent service and are not executed (they are classified by the authorization tables only)");
    ctx.run_enum("all_statement_variants", statements(), true, |c, o| check(ctx, c, o));
}

pub fn replay(ctx: &Ctx, part: &str, case: &J) -> Option<Result<CheckResult, String>> {
    Some(match part {
        "all_statement_variants" => ctx.replay_case(part, case, |c: &StCase, o: &mut Obs| check(ctx, c, o)),
        _ => return None,
    })
}
