//! C29 — the internal authentication knowledge graph is unreachable for non-admins: it can be
//! neither read, modified, switched to, created nor dropped, whatever the program text or the
//! session binding.

use super::c27::{decode, execute, identity, ACase, SECRET};
use crate::common::digest::{diff, kg_part};
use crate::common::gen::tape_strategy;
use crate::common::{CheckResult, Ctx, Fail, Obs};
use proptest::prelude::*;
use serde_json::{json, Value as J};

pub fn check(_ctx: &Ctx, c: &ACase, obs: &mut Obs) -> CheckResult {
    let ident = identity(c);
    let out = execute(c, Some(&ident)).map_err(|e| Fail::new("fixture_failed", e))?;
    let names_internal_late = c.program.lines().enumerate().any(|(i, l)| i > 0 && l.contains("_internal"));
    obs.nontrivial = names_internal_late || (c.with_session && c.program.contains("_internal"));
    obs.class_if(c.program.contains("_internal"), "program_names_internal");
    obs.class_if(names_internal_late, "internal_on_later_line");
    obs.class_if(c.with_session, "with_session");
    obs.class_if(c.request_kg.as_deref() == Some("_internal"), "request_kg_is_internal");
    obs.sample = Some(json!({"program": c.program.lines().collect::<Vec<_>>(), "global": c.global_role, "session": c.with_session, "request_kg": c.request_kg}));
    let desc = || format!("identity u1 (global {}), session {}, request kg {:?}\nprogram:\n{}\nresult: {:?}", c.global_role, c.with_session, c.request_kg, c.program, out.result);
    let (b, a) = (kg_part(&out.before, "_internal"), kg_part(&out.after, "_internal"));
    let changed = diff(&b, &a);
    // ACL bookkeeping for a KG the caller legitimately created/dropped is the handler's own write
    let kgs_changed = out.before.get("kgs") != out.after.get("kgs");
    let illegitimate: Vec<&String> = changed.iter().filter(|k| !(kgs_changed && k.as_str() == "_internal/facts/kg_acls")).collect();
    if !illegitimate.is_empty() {
        return Err(Fail::new("internal_kg_modified", format!("{illegitimate:?} changed\n{}", desc())));
    }
    if !out.after.get("kgs").is_some_and(|k| k.split(',').any(|x| x == "_internal")) {
        return Err(Fail::new("internal_kg_dropped", desc()));
    }
    let leaked = match &out.result {
        Ok(rows) => rows.iter().any(|r| r.contains(SECRET)),
        Err(e) => e.contains(SECRET),
    };
    if leaked {
        return Err(Fail::new("internal_kg_read", format!("a secret stored in _internal was returned to a non-admin\n{}", desc())));
    }
    if out.session_kg.as_deref() == Some("_internal") {
        return Err(Fail::new("session_bound_to_internal_kg", desc()));
    }
    Ok(())
}

pub fn run(ctx: &Ctx) {
    ctx.set_rule(
        "C27's program generator with `_internal` placed in every position: as request KG, in `.kg use|create|drop _internal` alone and \
         inside multi-line programs, after comments / continuation lines, followed by reads (?users, ?api_keys, ?kg_acls) and writes \
         (+users(..), +kg_acls(..)), with and without a WebSocket session; identities are non-admin (global editor or viewer with any KG \
         roles). The internal KG is seeded with marker secrets. Oracle: the _internal part of the state digest is unchanged (apart from \
         the handler's own ACL bookkeeping for a KG the caller created/dropped), _internal still exists, no returned row or message \
         contains a marker secret, and the session is never bound to _internal afterwards. Non-trivial = `_internal` is named on a line \
         other than the first, or a session is used. Distinct = case JSON.",
    );
    ctx.run_part("internal_kg_programs", ctx.cases(8000, 120_000), || tape_strategy(80).prop_map(|t| decode(&t, true)), |c, o| check(ctx, c, o));
}

pub fn replay(ctx: &Ctx, part: &str, case: &J) -> Option<Result<CheckResult, String>> {
    Some(match part {
        "internal_kg_programs" => ctx.replay_case(part, case, |c: &ACase, o: &mut Obs| check(ctx, c, o)),
        _ => return None,
    })
}
