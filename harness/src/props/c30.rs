//! C30 — a program with a syntax error has no effect (rejected as a whole); a valid program's
//! statements take effect in program order.

use super::c27::{decode, fixture, ACase};
use crate::common::digest::{diff, digest};
use crate::common::gen::tape_strategy;
use crate::common::store::{block_on, Scratch, KG};
use crate::common::{CheckResult, Ctx, Fail, Obs};
use proptest::prelude::*;
use serde::{Deserialize, Serialize};
use serde_json::{json, Value as J};

#[derive(Clone, Debug, Serialize, Deserialize)]
pub struct ECase {
    pub base: ACase,
    /// which kind of syntax error to inject (index into INJECTIONS), per line position
    pub injection: u8,
    pub via_execute_program: bool,
}

const INJECTIONS: [&str; 7] = ["drop_last_paren", "unquoted_atom", "colon_equals", "stray_token", "unterminated_string", "double_arrow", "empty_args_comma"];

fn inject(line: &str, kind: usize) -> String {
    match INJECTIONS[kind % INJECTIONS.len()] {
        "drop_last_paren" => match line.rfind(')') {
            Some(p) => format!("{}{}", &line[..p], &line[p + 1..]),
            None => format!("{line} ("),
        },
        "unquoted_atom" => "+r(abc def, 1)".to_string(),
        "colon_equals" => "x := r(1, 2)".to_string(),
        "stray_token" => format!("{line} )) @@"),
        "unterminated_string" => "+r(\"abc, 1)".to_string(),
        "double_arrow" => "+bad(X) <- r(X, Y) <- r(Y, X)".to_string(),
        _ => "+r(, )".to_string(),
    }
}

fn strategy() -> impl Strategy<Value = ECase> {
    (tape_strategy(80), 0u8..7, any::<bool>()).prop_map(|(t, injection, via)| {
        let mut base = decode(&t, false);
        // C30 is about parsing, not authorization: plain program text without rendering tricks
        // that would move the error into a comment or a continuation line
        base.program = base.lines.iter().map(|l| l.text.clone()).collect::<Vec<_>>().join("\n");
        base.global_role = "editor".into();
        base.role_default = "owner".into();
        base.role_k2 = "owner".into();
        ECase { base, injection, via_execute_program: via }
    })
}

fn run_program(c: &ECase, program: &str) -> Result<(crate::common::digest::Digest, crate::common::digest::Digest, Result<usize, String>), String> {
    let sc = Scratch::new("c30");
    let h = fixture(&sc, &c.base)?;
    let sid = if c.via_execute_program && c.base.with_session { Some(h.create_session(KG)?) } else { None };
    let kg = if sid.is_some() { None } else { Some(c.base.request_kg.clone().unwrap_or_else(|| KG.to_string())) };
    let before = digest(&h);
    let res = if c.via_execute_program {
        block_on(h.execute_program(sid.as_ref(), kg, program.to_string(), None))
    } else {
        block_on(h.query_program(kg, program.to_string()))
    };
    let after = digest(&h);
    Ok((before, after, res.map(|r| r.rows.len())))
}

pub fn check(_ctx: &Ctx, c: &ECase, obs: &mut Obs) -> CheckResult {
    let lines: Vec<String> = c.base.lines.iter().map(|l| l.text.clone()).collect();
    obs.sample = Some(json!({"program": lines, "injection": INJECTIONS[c.injection as usize % INJECTIONS.len()], "via_execute_program": c.via_execute_program}));
    obs.class(INJECTIONS[c.injection as usize % INJECTIONS.len()]);
    obs.class_if(c.via_execute_program, "via_execute_program");
    // (a) every position: the variant with one broken line is rejected and changes nothing
    let mut judged = 0;
    for pos in 0..lines.len() {
        let bad = inject(&lines[pos], c.injection as usize);
        // precondition of the property: the statement fails to parse (per the statement parser)
        if inputlayer::statement::parse_statement(&bad).is_ok() {
            obs.count("injection_still_parses", 1);
            continue;
        }
        let mut v = lines.clone();
        v[pos] = bad.clone();
        let program = v.join("\n");
        let (before, after, res) = run_program(c, &program).map_err(|e| Fail::new("fixture_failed", e))?;
        judged += 1;
        let changed = diff(&before, &after);
        let earlier_mutates = c.base.lines[..pos].iter().any(|l| matches!(l.kind, super::c27::Kind::Write | super::c27::Kind::KgCreate | super::c27::Kind::KgDrop));
        if pos > 0 && earlier_mutates {
            obs.nontrivial = true;
        }
        if !changed.is_empty() {
            return Err(Fail::new(
                "program_with_syntax_error_had_effect",
                format!("program:\n{program}\nline {} (`{bad}`) does not parse, yet {changed:?} changed (result {res:?})", pos + 1),
            ));
        }
        if res.is_ok() {
            return Err(Fail::new("program_with_syntax_error_accepted", format!("program:\n{program}\nline {} (`{bad}`) does not parse, but the request returned Ok", pos + 1)));
        }
    }
    if judged == 0 {
        obs.discard = Some("no injection produced an unparsable line".into());
        return Ok(());
    }
    // (b) the valid program: statements take effect in program order = same final state as
    // submitting the lines one request at a time
    let program = lines.join("\n");
    let (_, after_whole, res_whole) = run_program(c, &program).map_err(|e| Fail::new("fixture_failed", e))?;
    let sc = Scratch::new("c30b");
    let h = fixture(&sc, &c.base).map_err(|e| Fail::new("fixture_failed", e))?;
    let mut kg = c.base.request_kg.clone().unwrap_or_else(|| KG.to_string());
    let mut any_err = false;
    let sid = if c.via_execute_program && c.base.with_session { Some(h.create_session(KG).map_err(|e| Fail::new("fixture_failed", e))?) } else { None };
    for l in &c.base.lines {
        // same entry point as the whole-program run (execute_program also does ACL/session
        // bookkeeping after KG create/drop)
        let r = if c.via_execute_program {
            let kg_arg = if sid.is_some() { None } else { Some(kg.clone()) };
            block_on(h.execute_program(sid.as_ref(), kg_arg, l.text.clone(), None))
        } else {
            block_on(h.query_program(Some(kg.clone()), l.text.clone()))
        };
        match r {
            Ok(r) => {
                if let Some(k) = r.switched_kg {
                    kg = k;
                }
            }
            Err(_) => any_err = true,
        }
    }
    let after_lines = digest(&h);
    if res_whole.is_ok() && !any_err {
        let d = diff(&after_whole, &after_lines);
        if !d.is_empty() {
            return Err(Fail::new(
                "program_order_not_respected",
                format!("program:\n{program}\nfinal state differs from submitting the statements one request at a time, in order: {d:?}\nwhole: {:?}\nline by line: {:?}", d.iter().map(|k| after_whole.get(k)).collect::<Vec<_>>(), d.iter().map(|k| after_lines.get(k)).collect::<Vec<_>>()),
            ));
        }
        obs.class("order_checked");
    }
    Ok(())
}

pub fn run(ctx: &Ctx) {
    ctx.set_rule(
        "Valid programs of 1-6 statements from C27's statement generator (trusted caller) and, for each, one variant per line position \
         with a syntax error injected there (dropped parenthesis, unquoted atom, ':=', stray tokens, unterminated string, second '<-', \
         empty argument); only variants whose broken line is rejected by statement::parse_statement are judged. Oracle (a): the request \
         returns an error and the full state digest is unchanged; (b) the valid original leaves the same state as submitting its \
         statements one request at a time in order. Driven through Handler::query_program and Handler::execute_program (with and \
         without a session). Non-trivial = the error is not on the first line and an earlier line would mutate state. Distinct = case JSON.",
    );
    ctx.assume("'fails to parse' is decided by the engine's own statement parser on the broken line (the property is conditional on it)");
    ctx.run_part("syntax_error_injection", ctx.cases(4000, 60_000), strategy, |c, o| check(ctx, c, o));
}

pub fn replay(ctx: &Ctx, part: &str, case: &J) -> Option<Result<CheckResult, String>> {
    Some(match part {
        "syntax_error_injection" => ctx.replay_case(part, case, |c: &ECase, o: &mut Obs| check(ctx, c, o)),
        _ => return None,
    })
}
