//! C31 — Value/Tuple comparison is a total order consistent with equality and hashing.

use crate::common::val::{any_v, f, to_tuple, vecf, V, VT};
use crate::common::{CheckResult, Ctx, Fail, Obs};
use inputlayer::storage::persist::{consolidate_to_current, Update};
use inputlayer::value::Value;
use proptest::prelude::*;
use serde_json::Value as J;
use std::cmp::Ordering;
use std::collections::BTreeMap;
use std::hash::{Hash, Hasher};

fn h<T: Hash>(t: &T) -> u64 {
    let mut s = std::collections::hash_map::DefaultHasher::new();
    t.hash(&mut s);
    s.finish()
}

pub fn domain() -> Vec<V> {
    let nan2 = f64::from_bits(0x7ff8_0000_0000_0001);
    let mut d = vec![
        V::Null,
        V::B(false),
        V::B(true),
        V::I32(0),
        V::I32(1),
        V::I32(-1),
        V::I32(i32::MIN),
        V::I32(i32::MAX),
        V::I64(0),
        V::I64(1),
        V::I64(-1),
        V::I64(2),
        V::I64(i64::MIN),
        V::I64(i64::MAX),
        f(0.0),
        f(-0.0),
        f(1.0),
        f(-1.0),
        f(2.0),
        f(1.5),
        f(f64::NAN),
        f(-f64::NAN),
        f(nan2),
        f(f64::INFINITY),
        f(f64::NEG_INFINITY),
        f(f64::MIN_POSITIVE / 2.0),
        f(1e300),
        V::Ts(0),
        V::Ts(1),
        V::Ts(-5),
        V::Ts(1_700_000_000_000),
        V::S(String::new()),
        V::S("a".into()),
        V::S("b".into()),
        V::S("ab".into()),
        V::S("1".into()),
        V::S("é".into()),
        V::Vec(vec![]),
        vecf(&[0.0]),
        vecf(&[-0.0]),
        vecf(&[1.0]),
        vecf(&[f32::NAN]),
        vecf(&[-1.0]),
        vecf(&[1.0, 2.0]),
        vecf(&[1.0, -0.0]),
        vecf(&[1.0, 0.0]),
        vecf(&[f32::INFINITY, 1.0]),
        vecf(&[2.0]),
        V::VecI8(vec![]),
        V::VecI8(vec![0]),
        V::VecI8(vec![1]),
        V::VecI8(vec![-1]),
        V::VecI8(vec![1, 2]),
        V::VecI8(vec![127, -128]),
    ];
    d.dedup();
    d
}

fn laws<T: Ord + Eq + Hash + std::fmt::Debug>(a: &T, b: &T, c: &T) -> CheckResult {
    // reflexivity of == and cmp
    for x in [a, b, c] {
        if !(x == x) {
            return Err(Fail::new("eq_not_reflexive", format!("{x:?} != itself")));
        }
        if x.cmp(x) != Ordering::Equal {
            return Err(Fail::new("cmp_not_reflexive", format!("{x:?}.cmp(itself) = {:?}", x.cmp(x))));
        }
    }
    for (x, y) in [(a, b), (b, c), (a, c)] {
        let o = x.cmp(y);
        if (o == Ordering::Equal) != (x == y) {
            return Err(Fail::new("cmp_eq_disagree", format!("{x:?} vs {y:?}: cmp={o:?} but ==:{}", x == y)));
        }
        if x == y && h(x) != h(y) {
            return Err(Fail::new("eq_hash_disagree", format!("{x:?} == {y:?} but hashes differ")));
        }
        if (x == y) != (y == x) {
            return Err(Fail::new("eq_not_symmetric", format!("{x:?} vs {y:?}")));
        }
        if y.cmp(x) != o.reverse() {
            return Err(Fail::new("cmp_not_antisymmetric", format!("{x:?} vs {y:?}: {o:?} / {:?}", y.cmp(x))));
        }
        if x.partial_cmp(y) != Some(o) {
            return Err(Fail::new("partial_cmp_disagrees", format!("{x:?} vs {y:?}")));
        }
    }
    // transitivity of <= and of ==
    if a.cmp(b) != Ordering::Greater && b.cmp(c) != Ordering::Greater && a.cmp(c) == Ordering::Greater {
        return Err(Fail::new("cmp_not_transitive", format!("{a:?} <= {b:?} <= {c:?} but {a:?} > {c:?}")));
    }
    if a.cmp(b) == Ordering::Less && b.cmp(c) != Ordering::Greater && a.cmp(c) != Ordering::Less {
        return Err(Fail::new("cmp_not_transitive", format!("{a:?} < {b:?} <= {c:?} but not {a:?} < {c:?}")));
    }
    if a.cmp(b) != Ordering::Greater && b.cmp(c) == Ordering::Less && a.cmp(c) != Ordering::Less {
        return Err(Fail::new("cmp_not_transitive", format!("{a:?} <= {b:?} < {c:?} but not {a:?} < {c:?}")));
    }
    if a == b && b == c && a != c {
        return Err(Fail::new("eq_not_transitive", format!("{a:?} {b:?} {c:?}")));
    }
    Ok(())
}

fn check_values(t: &(V, V, V), obs: &mut Obs) -> CheckResult {
    let (a, b, c) = (t.0.to_value(), t.1.to_value(), t.2.to_value());
    let kinds: std::collections::BTreeSet<_> = [t.0.kind(), t.1.kind(), t.2.kind()].into_iter().collect();
    let special = t.0.is_special_float() || t.1.is_special_float() || t.2.is_special_float();
    obs.nontrivial = kinds.len() >= 2 || special;
    obs.class_if(kinds.len() >= 2, "mixed_kinds");
    obs.class_if(special, "special_float");
    // identity oracle: engine equality must coincide with kind+bits identity
    for (x, y) in [(&t.0, &t.1), (&t.1, &t.2), (&t.0, &t.2)] {
        let (vx, vy): (Value, Value) = (x.to_value(), y.to_value());
        if (vx == vy) != (x == y) {
            // documented: floats compare by bits in Eq; the property only needs consistency, so
            // this is recorded, not judged.
            obs.class("eq_differs_from_bit_identity");
        }
    }
    laws(&a, &b, &c)
}

fn check_tuples(t: &(VT, VT, VT), obs: &mut Obs) -> CheckResult {
    let (a, b, c) = (to_tuple(&t.0), to_tuple(&t.1), to_tuple(&t.2));
    let special = [&t.0, &t.1, &t.2].iter().any(|t| t.iter().any(V::is_special_float));
    let kinds: std::collections::BTreeSet<_> = t.0.iter().chain(&t.1).chain(&t.2).map(V::kind).collect();
    obs.nontrivial = special || kinds.len() >= 2;
    obs.class_if(special, "special_float");
    obs.class_if(t.0.len() != t.1.len() || t.1.len() != t.2.len(), "mixed_arity");
    laws(&a, &b, &c)
}

#[derive(Clone, Debug, serde::Serialize, serde::Deserialize)]
pub struct ConsCase {
    pool: Vec<VT>,
    /// (pool index, diff, time)
    ups: Vec<(usize, i64, u64)>,
    /// permutation seed list: order in which `ups` is presented the second time
    perm: Vec<usize>,
}

fn cons_strategy() -> impl Strategy<Value = ConsCase> {
    let dom = domain();
    let n = dom.len();
    let tuple = proptest::collection::vec((0..n).prop_map(move |i| dom[i].clone()), 1..3);
    (proptest::collection::vec(tuple, 1..5), proptest::collection::vec((0usize..5, prop_oneof![Just(1i64), Just(-1), Just(2)], 0u64..4), 1..10))
        .prop_flat_map(|(pool, ups)| {
            let n = ups.len();
            let perm = Just((0..n).collect::<Vec<_>>()).prop_shuffle();
            (Just(pool), Just(ups), perm)
        })
        .prop_map(|(pool, ups, perm)| {
            let pl = pool.len();
            ConsCase { ups: ups.into_iter().map(|(i, d, t)| (i % pl, d, t)).collect(), pool, perm }
        })
}

fn check_cons(c: &ConsCase, obs: &mut Obs) -> CheckResult {
    let mk = |order: &[usize]| -> Vec<Update> {
        order
            .iter()
            .map(|&i| {
                let (p, d, t) = c.ups[i];
                Update { data: to_tuple(&c.pool[p]), time: t, diff: d }
            })
            .collect()
    };
    let ident: Vec<usize> = (0..c.ups.len()).collect();
    let mut u1 = mk(&ident);
    let mut u2 = mk(&c.perm);
    consolidate_to_current(&mut u1);
    consolidate_to_current(&mut u2);
    // reference: order-independent sum per equal value (identity = kind+bits, which is the
    // engine's documented Eq for scalars)
    let mut m: BTreeMap<VT, i64> = BTreeMap::new();
    for (p, d, _) in &c.ups {
        *m.entry(c.pool[*p].clone()).or_default() += d;
    }
    m.retain(|_, d| *d != 0);
    let norm = |us: &[Update]| -> BTreeMap<VT, i64> {
        let mut r = BTreeMap::new();
        for u in us {
            *r.entry(crate::common::val::from_tuple(&u.data)).or_default() += u.diff;
        }
        r
    };
    let special = c.pool.iter().any(|t| t.iter().any(V::is_special_float));
    let dup = {
        let mut seen = std::collections::BTreeSet::new();
        c.ups.iter().any(|(p, _, _)| !seen.insert(c.pool[*p].clone()))
    };
    obs.nontrivial = dup && c.perm != ident;
    obs.class_if(special, "special_float");
    obs.class_if(dup, "repeated_value");
    let (r1, r2) = (norm(&u1), norm(&u2));
    if u1.len() != r1.len() || u2.len() != r2.len() {
        return Err(Fail::new("consolidate_left_duplicates", format!("consolidated list still has two entries for one value: {u1:?} / {u2:?}")));
    }
    if r1 != m {
        return Err(Fail::new("consolidate_wrong_sum", format!("got {r1:?}, order-independent sum is {m:?}")));
    }
    if r2 != m {
        return Err(Fail::new("consolidate_order_dependent", format!("permuted input gave {r2:?}, expected {m:?}")));
    }
    Ok(())
}

pub fn run(ctx: &Ctx) {
    ctx.set_rule(
        "values: ALL ordered triples over a fixed domain of representative values of every kind (exhaustive); \
         tuples: random triples of tuples (arity 0-3) over generated values; consolidate: random update lists over a small \
         tuple pool presented in two orders vs an order-independent sum. Non-trivial = triple mixes >=2 kinds or holds a \
         special float (NaN/-0.0/inf) [values, tuples]; a repeated value under a non-identity permutation [consolidate]. \
         Distinct = distinct case JSON.",
    );
    ctx.assume("identity of generated values is kind+bits; hashing judged with std DefaultHasher");
    let d = domain();
    let mut triples = Vec::with_capacity(d.len().pow(3));
    for a in &d {
        for b in &d {
            for c in &d {
                triples.push((a.clone(), b.clone(), c.clone()));
            }
        }
    }
    ctx.run_enum("values_exhaustive", triples, true, check_values);
    let n = ctx.cases(20_000, 400_000);
    ctx.run_part("values_random", n, || (any_v(), any_v(), any_v()), check_values);
    let tup = || proptest::collection::vec(any_v(), 0..4);
    let tup_small = || {
        let dom = domain();
        let n = dom.len();
        proptest::collection::vec((0..n).prop_map(move |i| dom[i].clone()), 0..3)
    };
    ctx.run_part("tuples_random", n, move || (tup(), tup(), tup()), check_tuples);
    ctx.run_part("tuples_domain", n, move || (tup_small(), tup_small(), tup_small()), check_tuples);
    ctx.run_part("consolidate", ctx.cases(20_000, 300_000), cons_strategy, check_cons);
}

pub fn replay(ctx: &Ctx, part: &str, case: &J) -> Option<Result<CheckResult, String>> {
    Some(match part {
        "values_exhaustive" | "values_random" => ctx.replay_case(part, case, check_values),
        "tuples_random" | "tuples_domain" => ctx.replay_case(part, case, check_tuples),
        "consolidate" => ctx.replay_case(part, case, check_cons),
        _ => return None,
    })
}
