//! C32 — relations are sets and write reports are accurate (insert / delete / conditional delete /
//! update through the protocol handler, and inserts/deletes directly on the StorageEngine).

use crate::common::gen::{tape_strategy, Tape};
use crate::common::hist::{self, apply_engine, live_state, Expect, SetModel};
use crate::common::prog::{body_valuations, krow_ints, AOp, Atom, Clause, Db, Lit, Op as COp, AE, T};
use crate::common::store::{block_on, open_handler, open_store, read_relation, result_messages, Scratch, KG};
use crate::common::val::from_tuple;
use crate::common::{CheckResult, Ctx, Fail, Obs, V};
use proptest::prelude::*;
use serde::{Deserialize, Serialize};
use serde_json::{json, Value as J};
use std::collections::{BTreeMap, BTreeSet};

type Row = Vec<i64>;

#[derive(Clone, Debug, Serialize, Deserialize)]
pub enum St {
    /// `+r[(..), (..)]` (or `+r(..)` for a single row)
    Insert(String, Vec<Row>),
    /// `-r(..)` / `-r[(..), (..)]`
    Delete(String, Vec<Row>),
    /// `-r(head) <- r(head), body...`
    CondDelete(Atom, Vec<Lit>),
    /// `-del, +ins <- body`
    Update(Atom, Atom, Vec<Lit>),
}

fn rows_text(rows: &[Row]) -> String {
    rows.iter().map(|r| format!("({})", r.iter().map(|v| v.to_string()).collect::<Vec<_>>().join(", "))).collect::<Vec<_>>().join(", ")
}

impl St {
    pub fn text(&self) -> String {
        match self {
            St::Insert(r, rows) if rows.len() == 1 => format!("+{r}{}", rows_text(rows)),
            St::Insert(r, rows) => format!("+{r}[{}]", rows_text(rows)),
            St::Delete(r, rows) if rows.len() == 1 => format!("-{r}{}", rows_text(rows)),
            St::Delete(r, rows) => format!("-{r}[{}]", rows_text(rows)),
            St::CondDelete(head, body) => {
                let mut parts = vec![head.text()];
                parts.extend(body.iter().map(Lit::text));
                format!("-{} <- {}", head.text(), parts.join(", "))
            }
            St::Update(d, i, body) => format!("-{}, +{} <- {}", d.text(), i.text(), body.iter().map(Lit::text).collect::<Vec<_>>().join(", ")),
        }
    }
}

const ARITY: [(&str, usize); 2] = [("r", 2), ("s", 1)];

fn gen_row(t: &mut Tape, arity: usize) -> Row {
    (0..arity).map(|_| t.range(0, 3)).collect()
}

fn gen_filter(t: &mut Tape, vars: &[u8]) -> Lit {
    let v = vars[t.below(vars.len())];
    match t.below(5) {
        0 | 1 => Lit::Cmp(T::V(v), COp::ALL[t.below(6)], T::C(t.range(0, 3))),
        2 if vars.len() > 1 => Lit::Cmp(T::V(v), COp::ALL[t.below(6)], T::V(vars[t.below(vars.len())])),
        3 => Lit::Pos(Atom { rel: "s".into(), args: vec![T::V(v)] }),
        _ => Lit::Neg(Atom { rel: "s".into(), args: vec![T::V(v)] }),
    }
}

fn decode(tape: &[u16]) -> Vec<St> {
    let mut t = Tape::new(tape);
    let n = 2 + t.below(8);
    let mut out = Vec::new();
    // start with some data so that deletes/updates have something to match
    out.push(St::Insert("r".into(), (0..(2 + t.below(5))).map(|_| gen_row(&mut t, 2)).collect()));
    out.push(St::Insert("s".into(), (0..(1 + t.below(3))).map(|_| gen_row(&mut t, 1)).collect()));
    for _ in 0..n {
        let (rel, ar) = ARITY[if t.chance(12, 16) { 0 } else { 1 }];
        out.push(match t.below(10) {
            0 | 1 => St::Insert(rel.into(), (0..(1 + t.below(4))).map(|_| gen_row(&mut t, ar)).collect()),
            2 | 3 => St::Delete(rel.into(), (0..(1 + t.below(3))).map(|_| gen_row(&mut t, ar)).collect()),
            4..=6 => {
                // conditional delete on r(A, B) (or r(c, B))
                let head = if t.chance(3, 16) { Atom { rel: "r".into(), args: vec![T::C(t.range(0, 3)), T::V(1)] } } else { Atom { rel: "r".into(), args: vec![T::V(0), T::V(1)] } };
                let vars: Vec<u8> = head.args.iter().filter_map(|a| if let T::V(v) = a { Some(*v) } else { None }).collect();
                let mut body = vec![gen_filter(&mut t, &vars)];
                if t.chance(4, 16) {
                    body.push(gen_filter(&mut t, &vars));
                }
                St::CondDelete(head, body)
            }
            _ => {
                // update: -r(A, B), +r(<args>) <- r(A, B) [, filter] [, C = B + k]
                let del = Atom { rel: "r".into(), args: vec![T::V(0), T::V(1)] };
                let mut body = vec![Lit::Pos(del.clone())];
                if t.chance(8, 16) {
                    body.push(gen_filter(&mut t, &[0, 1]));
                }
                let ins = match t.below(4) {
                    0 => Atom { rel: "r".into(), args: vec![T::V(1), T::V(0)] },
                    1 => Atom { rel: "r".into(), args: vec![T::V(0), T::C(t.range(0, 3))] },
                    _ => {
                        body.push(Lit::Bind(2, AE::Bin(Box::new(AE::V(1)), AOp::Add, Box::new(AE::C(t.range(1, 2))))));
                        Atom { rel: "r".into(), args: vec![T::V(0), T::V(2)] }
                    }
                };
                St::Update(del, ins, body)
            }
        });
    }
    out
}

type Model = BTreeMap<String, BTreeSet<Row>>;

fn to_db(m: &Model) -> Db {
    m.iter().map(|(r, rows)| (r.clone(), rows.iter().map(|x| krow_ints(x)).collect())).collect()
}

fn instantiate(a: &Atom, env: &BTreeMap<u8, (i64, i64)>) -> Option<Row> {
    a.args
        .iter()
        .map(|t| match t {
            T::V(v) => env.get(v).map(|k| k.0),
            T::C(c) => Some(*c),
            T::W => None,
        })
        .collect()
}

/// model transition: returns the expected message
fn apply_model(m: &mut Model, st: &St) -> Result<String, String> {
    Ok(match st {
        St::Insert(r, rows) => {
            let set = m.entry(r.clone()).or_default();
            let new = rows.iter().filter(|row| set.insert((*row).clone())).count();
            format!("Inserted {new} fact(s) into '{r}'.")
        }
        St::Delete(r, rows) => {
            let set = m.entry(r.clone()).or_default();
            let n = rows.iter().filter(|row| set.remove(*row)).count();
            if rows.len() == 1 {
                format!("Deleted {n} facts from '{r}'.")
            } else {
                format!("Deleted {n} fact(s) from '{r}'.")
            }
        }
        St::CondDelete(head, body) => {
            let mut b = vec![Lit::Pos(head.clone())];
            b.extend(body.iter().cloned());
            let cl = Clause { head: "__q".into(), hargs: vec![], body: b };
            let vals = body_valuations(&cl, &to_db(m)).map_err(|e| format!("{e:?}"))?;
            let targets: BTreeSet<Row> = vals.iter().filter_map(|env| instantiate(head, env)).collect();
            let set = m.entry(head.rel.clone()).or_default();
            let n = targets.iter().filter(|t| set.remove(*t)).count();
            format!("Conditional delete: {n} fact(s) deleted from '{}'.", head.rel)
        }
        St::Update(del, ins, body) => {
            let cl = Clause { head: "__q".into(), hargs: vec![], body: body.clone() };
            let vals = body_valuations(&cl, &to_db(m)).map_err(|e| format!("{e:?}"))?;
            let dels: BTreeSet<Row> = vals.iter().filter_map(|env| instantiate(del, env)).collect();
            let inss: BTreeSet<Row> = vals.iter().filter_map(|env| instantiate(ins, env)).collect();
            let set = m.entry(del.rel.clone()).or_default();
            let d = dels.iter().filter(|t| set.remove(*t)).count();
            let set = m.entry(ins.rel.clone()).or_default();
            let i = inss.iter().filter(|t| set.insert((*t).clone())).count();
            format!("Update: {d} deleted, {i} inserted.")
        }
    })
}

/// an update whose deletes and inserts overlap (a tuple is both deleted for one binding and
/// inserted/deleted for another): the engine applies bindings one by one, so the outcome may
/// depend on their order
fn update_overlaps(m: &Model, st: &St) -> bool {
    if let St::Update(del, ins, body) = st {
        let cl = Clause { head: "__q".into(), hargs: vec![], body: body.clone() };
        if let Ok(vals) = body_valuations(&cl, &to_db(m)) {
            let dels: BTreeSet<Row> = vals.iter().filter_map(|env| instantiate(del, env)).collect();
            let inss: BTreeSet<Row> = vals.iter().filter_map(|env| instantiate(ins, env)).collect();
            return !dels.is_disjoint(&inss);
        }
    }
    false
}

pub const K_UPDATE_ORDER: &str = "C32-update-applied-binding-by-binding";

pub fn check_handler(_ctx: &Ctx, sts: &Vec<St>, obs: &mut Obs) -> CheckResult {
    let sc = Scratch::new("c32");
    let h = open_handler(&sc.path, |_| {}).map_err(|e| Fail::new("open_failed", e))?;
    let mut m: Model = BTreeMap::new();
    let mut nontrivial = false;
    let hist_text = sts.iter().map(St::text).collect::<Vec<_>>();
    obs.sample = Some(json!(hist_text));
    let mut overlap_seen = false;
    for (i, st) in sts.iter().enumerate() {
        match st {
            St::Insert(_, rows) => {
                let distinct: BTreeSet<&Row> = rows.iter().collect();
                if distinct.len() < rows.len() {
                    nontrivial = true;
                    obs.class("batch_with_duplicate");
                }
            }
            St::CondDelete(..) | St::Update(..) => {}
            St::Delete(..) => {}
        }
        let before = m.clone();
        let overlap = update_overlaps(&m, st);
        overlap_seen |= overlap;
        let expected_msg = apply_model(&mut m, st).map_err(|e| Fail::new("model_failed", e))?;
        if let St::CondDelete(head, _) | St::Update(head, _, _) = st {
            let total = before.get(&head.rel).map_or(0, |s| s.len());
            let removed = total - m.get(&head.rel).map_or(0, |s| s.len()).min(total);
            if matches!(st, St::CondDelete(..)) && removed >= 2 && removed < total {
                nontrivial = true;
                obs.class("conditional_delete_matching_some");
            }
            if matches!(st, St::Update(..)) {
                obs.class("update");
            }
        }
        let res = block_on(h.query_program(Some(KG.to_string()), st.text()));
        let msgs = match res {
            Ok(r) => result_messages(&r),
            Err(e) => return Err(Fail::new("statement_failed", format!("history: {hist_text:?}\nstep {i} `{}` failed: {e}", st.text()))),
        };
        // contents after every statement
        let mut live: Model = BTreeMap::new();
        {
            let stg = h.get_storage();
            for (rel, ar) in ARITY {
                let rows = read_relation(&stg, KG, rel, ar).map_err(|e| Fail::new("read_failed", e))?;
                let mut seen = BTreeSet::new();
                for tup in &rows {
                    let row: Option<Row> = from_tuple(tup).iter().map(|v| if let V::I64(x) = v { Some(*x) } else { None }).collect();
                    let Some(row) = row else { return Err(Fail::new("non_integer_value", format!("{tup}"))) };
                    if !seen.insert(row) {
                        return Err(Fail::new("relation_holds_tuple_twice", format!("history: {hist_text:?}\nafter step {i} relation {rel} returns {tup} twice")));
                    }
                }
                if !seen.is_empty() {
                    live.insert(rel.to_string(), seen);
                }
            }
        }
        let exp_state: Model = m.iter().filter(|(_, s)| !s.is_empty()).map(|(k, v)| (k.clone(), v.clone())).collect();
        if live != exp_state {
            let mut f = Fail::new(
                "contents_differ_from_model",
                format!("history: {hist_text:?}\nafter step {i} `{}`: engine holds {live:?}, set model says {exp_state:?} (messages {msgs:?})", st.text()),
            );
            if overlap_seen {
                f = f.known(K_UPDATE_ORDER);
            }
            return Err(f);
        }
        if !msgs.iter().any(|x| x == &expected_msg) {
            let mut f = Fail::new("write_report_wrong", format!("history: {hist_text:?}\nstep {i} `{}` reported {msgs:?}, expected \"{expected_msg}\"", st.text()));
            if overlap_seen {
                f = f.known(K_UPDATE_ORDER);
            }
            return Err(f);
        }
    }
    obs.nontrivial = nontrivial;
    obs.class_if(overlap_seen, "update_with_overlapping_delete_insert");
    Ok(())
}

/// Direct StorageEngine path: reported (new, duplicate) / deleted counts and contents.
pub fn check_direct(_ctx: &Ctx, ops: &Vec<hist::Op>, obs: &mut Obs) -> CheckResult {
    let sc = Scratch::new("c32d");
    let st = open_store(&sc.path, |_| {}).map_err(|e| Fail::new("open_failed", e))?;
    let rels: Vec<String> = hist::RELS.iter().map(|s| s.to_string()).collect();
    let mut model = SetModel::default();
    let desc = ops.iter().map(hist::Op::short).collect::<Vec<_>>();
    obs.sample = Some(json!(desc));
    for (i, op) in ops.iter().enumerate() {
        if let hist::Op::Insert(_, rows) = op {
            if rows.iter().collect::<BTreeSet<_>>().len() < rows.len() {
                obs.nontrivial = true;
            }
        }
        let exp = model.apply(op);
        let got = apply_engine(&st, op).map_err(|e| Fail::new("operation_failed", format!("history {desc:?} step {i}: {e}")))?;
        if exp != Expect::None && got != exp {
            return Err(Fail::new("write_report_wrong", format!("history {desc:?}\nstep {i} {} reported {got:?}, the set model expects {exp:?}", op.short())));
        }
        let live = live_state(&st, &rels).map_err(|e| Fail::new("read_failed", e))?;
        if live != model.nonempty() {
            return Err(Fail::new("contents_differ_from_model", format!("history {desc:?}\nafter step {i}: engine {live:?} model {:?}", model.nonempty())));
        }
    }
    Ok(())
}

pub fn run(ctx: &Ctx) {
    ctx.set_rule(
        "handler part: histories of 4-11 statements sent one by one through Handler::query_program - bulk inserts with in-batch \
         duplicates, single/bulk deletes, conditional deletes (-r(A,B) <- r(A,B), filters over comparisons / s(A) / !s(A), constants in \
         the head) and update statements (-r(A,B), +r(..) <- r(A,B) [, filter][, C = B + k]) over r/2 and s/1 with values 0..3; \
         direct part: insert/delete histories on the StorageEngine API. Oracle: set model; after every statement the relation holds no \
         tuple twice, equals the model, and the reported 'Inserted n' / 'Deleted n' / 'Conditional delete: n' / 'Update: d deleted, i \
         inserted' equals the model's count (bindings of conditional deletes and updates are computed by the reference evaluator on \
         the pre-state; an update applies all its deletes, then all its inserts). Non-trivial = a batch with an in-batch duplicate, or \
         a conditional delete matching >=2 but not all tuples. Distinct = distinct statement list.",
    );
    ctx.assume("update statements are atomic: bindings from the pre-state, all deletes then all inserts (docs: '(atomic)')");
    ctx.run_part("handler_statements", ctx.cases(5000, 80_000), || tape_strategy(120).prop_map(|t| decode(&t)), |c, o| check_handler(ctx, c, o));
    ctx.run_part(
        "storage_engine_direct",
        ctx.cases(5000, 80_000),
        || {
            tape_strategy(60).prop_map(|t| {
                let mut tape = Tape::new(&t);
                hist::decode_history(&mut tape, 12, 2, 4, false)
            })
        },
        |c, o| check_direct(ctx, c, o),
    );
}

pub fn replay(ctx: &Ctx, part: &str, case: &J) -> Option<Result<CheckResult, String>> {
    Some(match part {
        "handler_statements" => ctx.replay_case(part, case, |c: &Vec<St>, o: &mut Obs| check_handler(ctx, c, o)),
        "storage_engine_direct" => ctx.replay_case(part, case, |c: &Vec<hist::Op>, o: &mut Obs| check_direct(ctx, c, o)),
        _ => return None,
    })
}
