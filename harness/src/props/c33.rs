//! C33 — declared schemas are enforced on every insert path: a batch with a non-conforming tuple
//! is rejected as a whole, conforming batches are accepted, stored tuples always conform.

use crate::common::gen::{tape_strategy, Tape};
use crate::common::store::{block_on, open_handler, read_relation_set, result_tuples, Scratch, KG};
use crate::common::val::{f, from_tuple, to_tuple, vecf, V, VT};
use crate::common::{CheckResult, Ctx, Fail, Obs};
use inputlayer::schema::{ColumnSchema, RelationSchema, SchemaType};
use proptest::prelude::*;
use serde::{Deserialize, Serialize};
use serde_json::{json, Value as J};
use std::collections::BTreeSet;

#[derive(Clone, Copy, Debug, Serialize, Deserialize, PartialEq, Eq)]
pub enum Ty {
    Int,
    Float,
    Str,
    Symbol,
    Bool,
    Timestamp,
    Vector,
    Vector3,
    Any,
}

impl Ty {
    /// declarable through `+rel(col: type)` text
    fn text(self) -> Option<&'static str> {
        match self {
            Ty::Int => Some("int"),
            Ty::Float => Some("float"),
            Ty::Str => Some("string"),
            Ty::Bool => Some("bool"),
            Ty::Vector => Some("vector"),
            _ => None,
        }
    }
    fn schema(self) -> SchemaType {
        match self {
            Ty::Int => SchemaType::Int,
            Ty::Float => SchemaType::Float,
            Ty::Str => SchemaType::String,
            Ty::Symbol => SchemaType::Symbol,
            Ty::Bool => SchemaType::Bool,
            Ty::Timestamp => SchemaType::Timestamp,
            Ty::Vector => SchemaType::Vector { dim: None },
            Ty::Vector3 => SchemaType::Vector { dim: Some(3) },
            Ty::Any => SchemaType::Any,
        }
    }
    /// Conformance per docs/spec/types.md ("Type in Schemas": int accepts integers, float floats,
    /// string/symbol strings, bool booleans, vector vector arrays, timestamp unix milliseconds).
    /// None = the documents leave it open (integer in a float column: "coercion in arithmetic";
    /// int8 vector in a vector column): such values are neither required nor forbidden.
    pub fn conforms(self, v: &V) -> Option<bool> {
        Some(match (self, v) {
            (Ty::Any, _) => true,
            (Ty::Int, V::I64(_) | V::I32(_)) => true,
            (Ty::Float, V::F(_)) => true,
            (Ty::Float, V::I64(_) | V::I32(_)) => return None,
            (Ty::Str | Ty::Symbol, V::S(_)) => true,
            (Ty::Bool, V::B(_)) => true,
            (Ty::Timestamp, V::Ts(_) | V::I64(_)) => true,
            (Ty::Vector, V::Vec(_)) => true,
            (Ty::Vector3, V::Vec(x)) => x.len() == 3,
            (Ty::Vector | Ty::Vector3, V::VecI8(_)) => return None,
            _ => false,
        })
    }
}

#[derive(Clone, Debug, Serialize, Deserialize)]
pub enum Path {
    Single,
    Bulk,
    UpdateInsertHalf,
    SessionFact,
    SessionApi,
}

#[derive(Clone, Debug, Serialize, Deserialize)]
pub struct Step {
    pub path: Path,
    pub tuples: Vec<VT>,
}

#[derive(Clone, Debug, Serialize, Deserialize)]
pub struct SchCase {
    pub cols: Vec<Ty>,
    /// declare through IQL text (only possible for text-declarable types) or through the API
    pub declare_by_text: bool,
    /// number of steps executed before the schema is declared (0 = schema first)
    pub declare_after: usize,
    pub steps: Vec<Step>,
}

fn value_text(v: &V) -> Option<String> {
    Some(match v {
        V::I64(i) => i.to_string(),
        V::F(b) => {
            let x = f64::from_bits(*b);
            if !x.is_finite() {
                return None;
            }
            let s = format!("{x}");
            if s.contains('.') || s.contains('e') {
                s
            } else {
                format!("{s}.0")
            }
        }
        V::S(s) => format!("\"{s}\""),
        V::B(b) => b.to_string(),
        V::Vec(x) => format!(
            "[{}]",
            x.iter()
                .map(|b| {
                    let s = format!("{}", f32::from_bits(*b));
                    if s.contains('.') {
                        s
                    } else {
                        format!("{s}.0")
                    }
                })
                .collect::<Vec<_>>()
                .join(", ")
        ),
        _ => return None,
    })
}

fn tuple_text(t: &VT) -> Option<String> {
    Some(format!("({})", t.iter().map(value_text).collect::<Option<Vec<_>>>()?.join(", ")))
}

fn good_value(t: &mut Tape, ty: Ty, text_only: bool) -> V {
    match ty {
        Ty::Int => {
            if !text_only && t.chance(3, 16) {
                V::I32(t.range(0, 5) as i32)
            } else {
                V::I64(t.range(-2, 5))
            }
        }
        Ty::Float => f([0.5, 1.25, -2.0, 3.0][t.below(4)]),
        Ty::Str | Ty::Symbol => V::S(["a", "bb", "", "x y"][t.below(4)].to_string()),
        Ty::Bool => V::B(t.chance(8, 16)),
        Ty::Timestamp => {
            if !text_only && t.chance(8, 16) {
                V::Ts(1_700_000_000_000 + t.range(0, 3))
            } else {
                V::I64(1_700_000_000_000 + t.range(0, 3))
            }
        }
        Ty::Vector => vecf(&[[1.0f32, 2.0].as_slice(), [0.5].as_slice(), [1.0, 0.0, 3.0].as_slice()][t.below(3)]),
        Ty::Vector3 => vecf(&[1.0, t.range(0, 3) as f32, 0.5]),
        Ty::Any => [V::I64(1), f(2.5), V::S("z".into()), V::B(true)][t.below(4)].clone(),
    }
}

fn bad_value(t: &mut Tape, ty: Ty, text_only: bool) -> Option<V> {
    let mut cands = vec![V::I64(7), f(1.5), V::S("bad".into()), V::B(false), vecf(&[9.0, 9.0])];
    if !text_only {
        cands.push(V::Null);
    }
    let cands: Vec<V> = cands.into_iter().filter(|v| ty.conforms(v) == Some(false)).collect();
    if cands.is_empty() {
        None
    } else {
        Some(cands[t.below(cands.len())].clone())
    }
}

fn decode(tape: &[u16]) -> SchCase {
    let mut t = Tape::new(tape);
    let declare_by_text = t.chance(9, 16);
    let text_types = [Ty::Int, Ty::Float, Ty::Str, Ty::Bool, Ty::Vector];
    let all_types = [Ty::Int, Ty::Float, Ty::Str, Ty::Symbol, Ty::Bool, Ty::Timestamp, Ty::Vector, Ty::Vector3, Ty::Any];
    let arity = 1 + t.below(4);
    let cols: Vec<Ty> = (0..arity).map(|_| if declare_by_text { text_types[t.below(5)] } else { all_types[t.below(9)] }).collect();
    let n_steps = 2 + t.below(5);
    let mut steps = Vec::new();
    for _ in 0..n_steps {
        let path = match t.below(8) {
            0 | 1 => Path::Single,
            2 | 3 => Path::Bulk,
            4 => Path::UpdateInsertHalf,
            5 => Path::SessionFact,
            _ => Path::SessionApi,
        };
        let text_only = !matches!(path, Path::SessionApi);
        let n = match path {
            Path::Bulk | Path::SessionApi => 1 + t.below(3),
            _ => 1,
        };
        let mut tuples = Vec::new();
        for _ in 0..n {
            let mut tup: VT = cols.iter().map(|c| good_value(&mut t, *c, text_only)).collect();
            match t.below(8) {
                0 | 1 => {
                    // one column of the wrong kind
                    let c = t.below(arity);
                    if let Some(b) = bad_value(&mut t, cols[c], text_only) {
                        tup[c] = b;
                    }
                }
                2 => {
                    // wrong arity
                    if t.chance(8, 16) || arity == 1 {
                        tup.push(V::I64(0));
                    } else {
                        tup.pop();
                    }
                }
                _ => {}
            }
            tuples.push(tup);
        }
        steps.push(Step { path, tuples });
    }
    // data-first declaration only through IQL text (the user-facing path); the storage API is the
    // handler's back end and is only used here to reach the types text cannot declare
    let declare_after = if !declare_by_text || t.chance(11, 16) { 0 } else { 1 + t.below(2) };
    SchCase { cols, declare_by_text, declare_after, steps }
}

/// Some(true) conforming, Some(false) non-conforming, None = undetermined by the documents
fn tuple_conf(cols: &[Ty], t: &VT) -> Option<bool> {
    if t.len() != cols.len() {
        return Some(false);
    }
    let mut undetermined = false;
    for (c, v) in cols.iter().zip(t) {
        match c.conforms(v) {
            Some(false) => return Some(false),
            None => undetermined = true,
            Some(true) => {}
        }
    }
    if undetermined {
        None
    } else {
        Some(true)
    }
}

pub const K_UPDATE_BYPASS: &str = "C33-update-insert-bypasses-schema";
pub const K_SESSION_FACT_BYPASS: &str = "C33-session-fact-bypasses-schema";

pub fn check(_ctx: &Ctx, c: &SchCase, obs: &mut Obs) -> CheckResult {
    let sc = Scratch::new("c33");
    let h = open_handler(&sc.path, |_| {}).map_err(|e| Fail::new("open_failed", e))?;
    let arity = c.cols.len();
    let mut declared = false;
    let decl_text = format!("+rel({})", c.cols.iter().enumerate().map(|(i, t)| format!("c{i}: {}", t.text().unwrap_or("int"))).collect::<Vec<_>>().join(", "));
    let describe = || format!("schema {:?} ({})\nsteps: {:?}", c.cols, if c.declare_by_text { decl_text.clone() } else { "registered through the API".into() }, c.steps);
    obs.sample = Some(json!({"schema": format!("{:?}", c.cols), "steps": c.steps.len()}));
    let stored = |h: &inputlayer::protocol::Handler| -> Result<BTreeSet<VT>, Fail> {
        // arity of stored tuples may differ from the schema if enforcement failed: read all arities
        let mut out = BTreeSet::new();
        for a in 1..=arity + 1 {
            if let Ok(s) = read_relation_set(&h.get_storage(), KG, "rel", a) {
                out.extend(s);
            }
        }
        Ok(out)
    };
    let mut session = None;
    for (si, step) in c.steps.iter().enumerate() {
        if !declared && si >= c.declare_after {
            // declare the schema now; if data already exists the declaration may be refused
            let r = if c.declare_by_text {
                block_on(h.query_program(Some(KG.to_string()), decl_text.clone())).map(|r| crate::common::store::result_messages(&r).join(" | ")).map_err(|e| e.to_string())
            } else {
                let mut rs = RelationSchema::new("rel");
                for (i, t) in c.cols.iter().enumerate() {
                    rs = rs.with_column(ColumnSchema::new(&format!("c{i}"), t.schema()));
                }
                h.get_storage().register_or_update_schema_in(KG, rs).map(|_| "ok".to_string()).map_err(|e| e.to_string())
            };
            let _ = r;
            declared = h.get_storage().has_schema_in(KG, "rel").unwrap_or(false);
            obs.class_if(si > 0, "schema_declared_after_data");
            if declared {
                for t in stored(&h)? {
                    if tuple_conf(&c.cols, &t) == Some(false) {
                        return Err(Fail::new("schema_accepted_over_nonconforming_data", format!("{}\nafter declaring the schema the relation still holds {t:?}", describe())));
                    }
                }
            }
        }
        let before = stored(&h)?;
        let confs: Vec<Option<bool>> = step.tuples.iter().map(|t| tuple_conf(&c.cols, t)).collect();
        let any_bad = confs.iter().any(|x| *x == Some(false));
        let all_good = confs.iter().all(|x| *x == Some(true));
        if any_bad && step.tuples.len() > 1 && confs.iter().any(|x| *x == Some(true)) {
            obs.nontrivial = true;
            obs.class("batch_mixing_conforming_and_nonconforming");
        }
        obs.class(&format!("path: {:?}", step.path));
        let texts: Option<Vec<String>> = step.tuples.iter().map(tuple_text).collect();
        match step.path {
            Path::Single | Path::Bulk | Path::UpdateInsertHalf => {
                let Some(texts) = texts else { continue };
                let program = match step.path {
                    Path::Single => format!("+rel{}", texts[0]),
                    Path::Bulk => format!("+rel[{}]", texts.join(", ")),
                    _ => format!("+trig(1)\n-trig(X), +rel{} <- trig(X)", texts[0]),
                };
                let res = block_on(h.query_program(Some(KG.to_string()), program.clone()));
                let after = stored(&h)?;
                if !declared {
                    continue;
                }
                let batch: BTreeSet<VT> = step.tuples.iter().cloned().collect();
                let newly: BTreeSet<&VT> = after.difference(&before).collect();
                if any_bad {
                    if !newly.is_empty() {
                        let mut f = Fail::new(
                            "nonconforming_batch_not_rejected",
                            format!("{}\nstep {si} `{program}` contains a non-conforming tuple but stored {newly:?} (result {:?})", describe(), res.as_ref().map(|r| crate::common::store::result_messages(r))),
                        );
                        if matches!(step.path, Path::UpdateInsertHalf) {
                            f = f.known(K_UPDATE_BYPASS);
                        }
                        return Err(f);
                    }
                } else if all_good {
                    for t in &batch {
                        if !after.contains(t) {
                            return Err(Fail::new(
                                "conforming_batch_rejected",
                                format!("{}\nstep {si} `{program}`: conforming tuple {t:?} was not stored (result {:?})", describe(), res.as_ref().map(|r| crate::common::store::result_messages(r)).map_err(|e| e.clone())),
                            ));
                        }
                    }
                } else {
                    // undetermined values: all-or-nothing
                    let n_in = batch.iter().filter(|t| after.contains(*t)).count();
                    if n_in != 0 && n_in != batch.len() {
                        return Err(Fail::new("batch_partially_applied", format!("{}\nstep {si} `{program}` stored only part of the batch: {after:?}", describe())));
                    }
                }
            }
            Path::SessionFact => {
                let Some(texts) = texts else { continue };
                if !declared {
                    continue;
                }
                let vars: Vec<String> = (0..step.tuples[0].len()).map(|i| format!("X{i}")).collect();
                let program = format!("rel{}\n?rel({})", texts[0], vars.join(", "));
                let res = block_on(h.query_program(Some(KG.to_string()), program.clone()));
                let visible: BTreeSet<VT> = res.as_ref().map(|r| result_tuples(r).iter().map(from_tuple).collect()).unwrap_or_default();
                let t = &step.tuples[0];
                if any_bad && visible.contains(t) {
                    return Err(Fail::new(
                        "nonconforming_session_fact_visible",
                        format!("{}\nstep {si} `{}`: the non-conforming session fact {t:?} is visible in the answer of the schema'd relation", describe(), program.replace('\n', " ; ")),
                    )
                    .known(K_SESSION_FACT_BYPASS));
                }
                if all_good && !visible.contains(t) {
                    return Err(Fail::new("conforming_session_fact_rejected", format!("{}\nstep {si} `{}`: {t:?} not visible; result {:?}", describe(), program.replace('\n', " ; "), res.map(|r| r.rows.len()))));
                }
                if stored(&h)? != before {
                    return Err(Fail::new("session_fact_was_persisted", format!("{}\nstep {si}: a session fact changed the stored relation", describe())));
                }
            }
            Path::SessionApi => {
                if !declared {
                    continue;
                }
                if session.is_none() {
                    session = Some(h.create_session(KG).map_err(|e| Fail::new("session_failed", e))?);
                }
                let sid = session.as_ref().unwrap();
                let r = h.session_insert_ephemeral(sid, "rel", step.tuples.iter().map(|t| to_tuple(t)).collect());
                if any_bad && r.is_ok() {
                    return Err(Fail::new("nonconforming_batch_not_rejected", format!("{}\nstep {si}: session_insert_ephemeral accepted {:?}", describe(), step.tuples)));
                }
                if all_good && r.is_err() {
                    return Err(Fail::new("conforming_batch_rejected", format!("{}\nstep {si}: session_insert_ephemeral rejected {:?}: {:?}", describe(), step.tuples, r)));
                }
                if stored(&h)? != before {
                    return Err(Fail::new("session_fact_was_persisted", format!("{}\nstep {si}: session_insert_ephemeral changed the stored relation", describe())));
                }
            }
        }
        if declared {
            for t in stored(&h)? {
                if tuple_conf(&c.cols, &t) == Some(false) {
                    let mut f = Fail::new("stored_tuple_violates_schema", format!("{}\nafter step {si} the relation holds {t:?}", describe()));
                    if matches!(step.path, Path::UpdateInsertHalf) {
                        f = f.known(K_UPDATE_BYPASS);
                    }
                    return Err(f);
                }
            }
        }
    }
    Ok(())
}

pub fn run(ctx: &Ctx) {
    ctx.set_rule(
        "Schemas of arity 1-4 over int/float/string/bool/vector declared through IQL text, or over all of int/float/string/symbol/bool/\
         timestamp/vector/vector(3)/any registered through the API, before the data or after 1-2 steps; 2-6 insert steps through \
         +rel(..), +rel[..], the insert half of an update statement, a request-local session fact (+ query), and session_insert_ephemeral; \
         each tuple is conforming, has one column of a wrong kind, or the wrong arity. Oracle: conformance predicate written from \
         docs/spec/types.md; a batch with a non-conforming tuple stores nothing, a conforming batch is stored completely, values the \
         documents leave open (integer in a float column, int8 vector) only require all-or-nothing, and after every step every stored \
         tuple of the schema'd relation conforms. Non-trivial = a batch mixing conforming and non-conforming tuples. Distinct = case JSON.",
    );
    ctx.assume("the documented type table is the contract; integer-in-float-column and int8-vector-in-vector-column are left open");
    ctx.run_part("schema_enforcement", ctx.cases(6000, 90_000), || tape_strategy(200).prop_map(|t| decode(&t)), |c, o| check(ctx, c, o));
}

pub fn replay(ctx: &Ctx, part: &str, case: &J) -> Option<Result<CheckResult, String>> {
    Some(match part {
        "schema_enforcement" => ctx.replay_case(part, case, |c: &SchCase, o: &mut Obs| check(ctx, c, o)),
        _ => return None,
    })
}
