//! C34 — rule sets with recursion through negation are never evaluated, whether the rules are
//! persistent, session rules, or a mix; every safe stratified rule set is accepted.

use crate::common::eng::{key_set, with_watchdog};
use crate::common::gen::{tape_strategy, Tape};
use crate::common::prog::{self, Atom, Clause, Deps, Lit, HT, T};
use crate::common::store::{block_on, itup, open_handler, result_tuples, Scratch, KG};
use crate::common::{CheckResult, Ctx, Fail, Obs};
use proptest::prelude::*;
use serde::{Deserialize, Serialize};
use serde_json::{json, Value as J};
use std::collections::{BTreeMap, BTreeSet};

#[derive(Clone, Copy, Debug, Serialize, Deserialize, PartialEq, Eq)]
pub enum Where {
    Persistent,
    /// session rule inside the request that also carries the query
    RequestLocal,
    /// rule stored in a WebSocket session, query sent in a later request of that session
    WsSession,
}

#[derive(Clone, Debug, Serialize, Deserialize)]
pub struct RCase {
    pub clauses: Vec<Clause>,
    pub place: Vec<Where>,
    /// relation queried
    pub query: String,
    pub edb: Vec<i64>,
}

fn decode(tape: &[u16]) -> RCase {
    let mut t = Tape::new(tape);
    let n_pred = 2 + t.below(3);
    let n_cl = 2 + t.below(4);
    let mut clauses = Vec::new();
    for i in 0..n_cl {
        // make sure every predicate has at least one clause first
        let head = if i < n_pred { i } else { t.below(n_pred) };
        let mut body = vec![Lit::Pos(Atom { rel: "e".into(), args: vec![T::V(0)] })];
        let n_dep = t.below(3);
        for _ in 0..n_dep {
            let dep = t.below(n_pred);
            let a = Atom { rel: format!("p{dep}"), args: vec![T::V(0)] };
            body.push(if t.chance(7, 16) { Lit::Neg(a) } else { Lit::Pos(a) });
        }
        clauses.push(Clause { head: format!("p{head}"), hargs: vec![HT::V(0)], body });
    }
    // one placement scheme per case: all persistent, all session (either kind), or a mix of
    // persistent with ONE session kind
    let session_kind = if t.chance(8, 16) { Where::RequestLocal } else { Where::WsSession };
    let scheme = t.below(4);
    let place: Vec<Where> = (0..n_cl)
        .map(|_| match scheme {
            0 => Where::Persistent,
            1 => session_kind,
            _ => {
                if t.chance(8, 16) {
                    Where::Persistent
                } else {
                    session_kind
                }
            }
        })
        .collect();
    let query = format!("p{}", t.below(n_pred));
    let edb: Vec<i64> = (0..(1 + t.below(3))).map(|i| i as i64).collect();
    RCase { clauses, place, query, edb }
}

/// does `rel` depend (transitively) on a relation of an unstratified SCC?
fn depends_on_bad_scc(clauses: &[Clause], rel: &str) -> bool {
    let deps = Deps::of(clauses);
    let mut bad: BTreeSet<usize> = BTreeSet::new();
    for c in clauses {
        for l in &c.body {
            if let Lit::Neg(a) = l {
                if deps.same_scc(&c.head, &a.rel) {
                    if let Some(i) = deps.scc_of.get(&c.head) {
                        bad.insert(*i);
                    }
                }
            }
        }
    }
    // reachability from rel
    let mut seen = BTreeSet::new();
    let mut stack = vec![rel.to_string()];
    while let Some(r) = stack.pop() {
        if !seen.insert(r.clone()) {
            continue;
        }
        if deps.scc_of.get(&r).is_some_and(|i| bad.contains(i)) {
            return true;
        }
        for c in clauses.iter().filter(|c| c.head == r) {
            for l in &c.body {
                if let Lit::Pos(a) | Lit::Neg(a) = l {
                    stack.push(a.rel.clone());
                }
            }
        }
    }
    false
}

pub const K_SESSION_UNSTRATIFIED: &str = "C34-session-rules-not-checked-for-stratification";

pub fn check(_ctx: &Ctx, c: &RCase, obs: &mut Obs) -> CheckResult {
    let deps = Deps::of(&c.clauses);
    let unstrat = deps.unstratified(&c.clauses);
    let sc = Scratch::new("c34");
    let h = open_handler(&sc.path, |_| {}).map_err(|e| Fail::new("open_failed", e))?;
    h.get_storage().insert_tuples_into(KG, "e", c.edb.iter().map(|v| itup(&[*v])).collect()).map_err(|e| Fail::new("insert_failed", e.to_string()))?;
    let kinds: BTreeSet<String> = c.place.iter().map(|p| format!("{p:?}")).collect();
    for k in &kinds {
        obs.class(&format!("has_{k}"));
    }
    obs.class_if(unstrat.is_some(), "unstratified");
    let has_session = c.place.iter().any(|p| *p != Where::Persistent);
    let has_persistent = c.place.iter().any(|p| *p == Where::Persistent);
    // negative cycle spans the persistent/session boundary, or has length >= 2
    if let Some((hd, neg)) = &unstrat {
        let scc_rels: BTreeSet<&String> = deps.sccs[deps.scc_of[hd]].iter().collect();
        let places: BTreeSet<String> = c.clauses.iter().zip(&c.place).filter(|(cl, _)| scc_rels.contains(&cl.head)).map(|(_, p)| format!("{p:?}")).collect();
        obs.nontrivial = places.len() >= 2 || hd != neg;
        obs.class_if(places.len() >= 2, "negative_cycle_spans_persistent_and_session");
    }
    obs.sample = Some(json!({"clauses": c.clauses.iter().zip(&c.place).map(|(cl, p)| format!("[{p:?}] {}", cl.text())).collect::<Vec<_>>(), "query": c.query}));
    let desc = || format!("rules:\n{}\nquery ?{}(X); e = {:?}", c.clauses.iter().zip(&c.place).map(|(cl, p)| format!("[{p:?}] {}", cl.text())).collect::<Vec<_>>().join("\n"), c.query, c.edb);
    let mut rejected: Option<String> = None;
    // 1. persistent rules, one request each
    for (cl, _) in c.clauses.iter().zip(&c.place).filter(|(_, p)| **p == Where::Persistent) {
        let r = block_on(h.query_program(Some(KG.to_string()), format!("+{}", cl.text())));
        match r {
            Ok(res) => {
                let msgs = crate::common::store::result_messages(&res);
                if msgs.iter().any(|m| m.to_lowercase().contains("unstratified") || m.to_lowercase().contains("error")) {
                    rejected = Some(msgs.join(" | "));
                    break;
                }
            }
            Err(e) => {
                rejected = Some(e);
                break;
            }
        }
    }
    // 2. session rules + query
    let mut answer = None;
    if rejected.is_none() {
        let ws: Vec<&Clause> = c.clauses.iter().zip(&c.place).filter(|(_, p)| **p == Where::WsSession).map(|(c, _)| c).collect();
        let local: Vec<&Clause> = c.clauses.iter().zip(&c.place).filter(|(_, p)| **p == Where::RequestLocal).map(|(c, _)| c).collect();
        let qtext = format!("?{}(X)", c.query);
        let (res, fired) = with_watchdog(20, || {
            if !ws.is_empty() {
                let sid = h.create_session(KG)?;
                for cl in &ws {
                    block_on(h.execute_program(Some(&sid), None, cl.text(), None))?;
                }
                block_on(h.execute_program(Some(&sid), None, qtext.clone(), None))
            } else {
                let mut prog: Vec<String> = local.iter().map(|c| c.text()).collect();
                prog.push(qtext.clone());
                block_on(h.query_program(Some(KG.to_string()), prog.join("\n")))
            }
        });
        if fired {
            obs.discard = Some("watchdog".into());
            return Ok(());
        }
        match res {
            Ok(r) => answer = Some(result_tuples(&r)),
            Err(e) => rejected = Some(e),
        }
    }
    let relevant = depends_on_bad_scc(&c.clauses, &c.query);
    match (&unstrat, &rejected, &answer) {
        (Some((hd, neg)), None, Some(ans)) if relevant => {
            let mut f = Fail::new(
                "unstratified_rule_set_evaluated",
                format!("{}\n'{hd}' depends on '{neg}' through negation inside a recursive cycle, yet every registration was accepted and the query returned {} row(s)", desc(), ans.len()),
            );
            if has_session {
                f = f.known(K_SESSION_UNSTRATIFIED);
            }
            Err(f)
        }
        (None, Some(why), _) => {
            // stratified: must be accepted — unless the rejection has another documented reason
            // (the generated rules are safe: every variable is bound by e(X))
            Err(Fail::new("stratified_rule_set_rejected", format!("{}\nthe rule set is stratified and safe but was rejected: {why}", desc())))
        }
        (None, None, Some(ans)) => {
            // answers: compare with the reference unless mutual recursion (C01 finding) is involved
            let mutual = deps.sccs.iter().any(|s| s.len() > 1);
            if !mutual {
                let mut edb = BTreeMap::new();
                edb.insert("e".to_string(), c.edb.iter().map(|v| vec![*v]).collect::<Vec<_>>());
                if let Ok(m) = prog::eval(&c.clauses, &edb) {
                    let exp = m.db.get(&c.query).cloned().unwrap_or_default();
                    let got = key_set(ans).map_err(|e| Fail::new("non_numeric_answer", e))?;
                    if got != exp {
                        return Err(Fail::new("stratified_answer_wrong", format!("{}\nengine {got:?}\nreference {exp:?}", desc())));
                    }
                    obs.class("answer_checked");
                }
            }
            let _ = has_persistent;
            Ok(())
        }
        _ => Ok(()),
    }
}

pub fn run(ctx: &Ctx) {
    ctx.set_rule(
        "Rule sets of 2-5 clauses over 2-4 unary predicates p_i(X) <- e(X) [, (!)p_j(X)]* with random signs and dependencies (no forced \
         stratification; roughly half contain a negative edge inside an SCC), each rule set placed all-persistent, all-session, or mixed \
         between persistent rules and one session kind (request-local session rules in the query's program, or rules stored in a \
         WebSocket session). Oracle: own SCC analysis of the union - unstratified and the queried relation depends on the bad SCC => some \
         registration or the query must be rejected; stratified (all generated rules are safe) => everything is accepted, and the answer \
         equals the reference model (skipped under mutual recursion, C01's finding). Non-trivial = the negative cycle spans the \
         persistent/session boundary or has length >= 2. Distinct = case JSON.",
    );
    ctx.run_part("rule_set_splits", ctx.cases(10_000, 150_000), || tape_strategy(60).prop_map(|t| decode(&t)), |c, o| check(ctx, c, o));
}

pub fn replay(ctx: &Ctx, part: &str, case: &J) -> Option<Result<CheckResult, String>> {
    Some(match part {
        "rule_set_splits" => ctx.replay_case(part, case, |c: &RCase, o: &mut Obs| check(ctx, c, o)),
        _ => return None,
    })
}
