//! C35 — ordered and paginated results are exact slices of the sorted answer; the reported total
//! is the full answer size; sorting never fails for any mix of value kinds.

use crate::common::gen::{tape_strategy, Tape};
use crate::common::store::{block_on, open_handler, result_tuples, Scratch, KG};
use crate::common::val::{f, from_tuple, to_tuple, V, VT};
use crate::common::{CheckResult, Ctx, Fail, Obs};
use proptest::prelude::*;
use serde::{Deserialize, Serialize};
use serde_json::{json, Value as J};
use std::cmp::Ordering;
use std::collections::BTreeSet;

#[derive(Clone, Debug, Serialize, Deserialize)]
pub struct SCase {
    pub arity: usize,
    pub rows: Vec<VT>,
    /// (column, descending) sort keys in priority order (order of appearance in the query)
    pub keys: Vec<(usize, bool)>,
    pub limit: Option<usize>,
    pub offset: Option<usize>,
}

fn gen_value(t: &mut Tape, kind: usize) -> V {
    match kind % 7 {
        0 => V::I64(t.range(-3, 6)),
        1 => V::I32(t.range(-3, 6) as i32),
        2 => [f(0.0), f(-0.0), f(1.5), f(-2.25), f(f64::NAN), f(f64::INFINITY), f(f64::NEG_INFINITY), f(3.0), f(1e300), f(7.125)][t.below(10)].clone(),
        3 => V::S(["", "a", "b", "ab", "B", "10", "9", "é"][t.below(8)].to_string()),
        4 => V::Null,
        5 => V::B(t.chance(8, 16)),
        _ => f([0.5, 1.0, 2.0, 2.5, -1.0, 4.0][t.below(6)]),
    }
}

fn decode(tape: &[u16]) -> SCase {
    let mut t = Tape::new(tape);
    let arity = 2 + t.below(2);
    // per column: homogeneous kind, or a mix of up to 3 kinds
    let mut col_kinds: Vec<Vec<usize>> = Vec::new();
    for _ in 0..arity {
        let homogeneous = t.chance(8, 16);
        let n = if homogeneous { 1 } else { 2 + t.below(2) };
        col_kinds.push((0..n).map(|_| t.below(7)).collect());
    }
    let big = t.chance(5, 16);
    let n_rows = if big { 21 + t.below(50) } else { t.below(13) };
    let mut rows: Vec<VT> = Vec::new();
    for _ in 0..n_rows {
        rows.push((0..arity).map(|c| {
            let ks = &col_kinds[c];
            let k = ks[t.below(ks.len())];
            gen_value(&mut t, k)
        }).collect());
    }
    let n_keys = t.below(arity + 1);
    let mut keys: Vec<(usize, bool)> = Vec::new();
    for _ in 0..n_keys {
        let c = t.below(arity);
        if !keys.iter().any(|k| k.0 == c) {
            keys.push((c, t.chance(8, 16)));
        }
    }
    // the query lists columns in order, so key priority = column order
    keys.sort_by_key(|k| k.0);
    let limit = if t.chance(12, 16) { Some(t.below(n_rows + 3)) } else { None };
    let offset = if limit.is_some() && t.chance(8, 16) { Some(t.below(n_rows + 2)) } else { None };
    SCase { arity, rows, keys, limit, offset }
}

fn query_text(c: &SCase) -> String {
    let args: Vec<String> = (0..c.arity)
        .map(|i| {
            let v = format!("X{i}");
            match c.keys.iter().find(|k| k.0 == i) {
                Some((_, true)) => format!("{v}:desc"),
                Some((_, false)) => format!("{v}:asc"),
                None => v,
            }
        })
        .collect();
    let mut q = format!("?srt({})", args.join(", "));
    match (c.limit, c.offset) {
        (Some(n), Some(o)) => q.push_str(&format!(", limit({n}, {o})")),
        (Some(n), None) => q.push_str(&format!(", limit({n})")),
        _ => {}
    }
    q
}

/// natural order inside one kind; None when the pair has no documented order (different kinds,
/// or a NaN)
fn natural(a: &V, b: &V) -> Option<Ordering> {
    match (a, b) {
        (V::I64(x), V::I64(y)) => Some(x.cmp(y)),
        (V::I32(x), V::I32(y)) => Some(x.cmp(y)),
        (V::S(x), V::S(y)) => Some(x.cmp(y)),
        (V::B(x), V::B(y)) => Some(x.cmp(y)),
        (V::Null, V::Null) => Some(Ordering::Equal),
        (V::F(x), V::F(y)) => {
            let (x, y) = (f64::from_bits(*x), f64::from_bits(*y));
            if x.is_nan() || y.is_nan() || (x == y && x.to_bits() != y.to_bits()) {
                // NaN, and 0.0 vs -0.0 (numerically equal, distinct values): no documented order
                None
            } else {
                x.partial_cmp(&y)
            }
        }
        _ => None,
    }
}

fn key_cmp(c: &SCase, a: &VT, b: &VT) -> Option<Ordering> {
    for (col, desc) in &c.keys {
        let o = natural(&a[*col], &b[*col])?;
        let o = if *desc { o.reverse() } else { o };
        if o != Ordering::Equal {
            return Some(o);
        }
    }
    Some(Ordering::Equal)
}

pub fn check(_ctx: &Ctx, c: &SCase, obs: &mut Obs) -> CheckResult {
    let sc = Scratch::new("c35");
    let h = open_handler(&sc.path, |_| {}).map_err(|e| Fail::new("open_failed", e))?;
    let answer: BTreeSet<VT> = c.rows.iter().cloned().collect();
    if !c.rows.is_empty() {
        h.get_storage().insert_tuples_into(KG, "srt", c.rows.iter().map(|r| to_tuple(r)).collect()).map_err(|e| Fail::new("insert_failed", e.to_string()))?;
    }
    let q = query_text(c);
    let total = answer.len();
    let key_cols: Vec<usize> = c.keys.iter().map(|k| k.0).collect();
    let kinds_in_keys = key_cols.iter().map(|k| answer.iter().map(|r| r[*k].kind()).collect::<BTreeSet<_>>().len()).max().unwrap_or(0);
    let nan_in_keys = answer.iter().any(|r| key_cols.iter().any(|k| matches!(&r[*k], V::F(b) if f64::from_bits(*b).is_nan())));
    let truncating = c.limit.is_some_and(|n| n < total);
    obs.nontrivial = !c.keys.is_empty() && (kinds_in_keys >= 2 || nan_in_keys) && truncating;
    obs.class_if(kinds_in_keys >= 2, "sort_column_with_mixed_kinds");
    obs.class_if(nan_in_keys, "nan_in_sort_column");
    obs.class_if(total > 20, "more_than_20_rows");
    obs.class_if(c.keys.is_empty(), "no_sort_annotation");
    obs.class_if(c.offset.is_some(), "offset");
    obs.sample = Some(json!({"query": q, "rows": total, "first_rows": answer.iter().take(3).collect::<Vec<_>>()}));
    let res = match block_on(h.query_program(Some(KG.to_string()), q.clone())) {
        Ok(r) => r,
        Err(e) => {
            if c.rows.is_empty() {
                // querying a relation that was never created may be rejected: not the property's business
                obs.discard = Some("empty relation".into());
                return Ok(());
            }
            return Err(Fail::new("sorted_query_failed", format!("query {q} over {total} rows failed: {e}\nrows: {:?}", answer.iter().take(30).collect::<Vec<_>>())));
        }
    };
    let got: Vec<VT> = result_tuples(&res).iter().map(from_tuple).collect();
    let ctx_txt = || format!("query {q}\nrelation ({total} rows): {:?}\nreturned {:?}", answer.iter().take(40).collect::<Vec<_>>(), got.iter().take(40).collect::<Vec<_>>());
    if res.total_count != total {
        return Err(Fail::new("total_count_wrong", format!("total_count {} but the full answer has {total} rows\n{}", res.total_count, ctx_txt())));
    }
    let off = c.offset.unwrap_or(0);
    let want_len = if off >= total { 0 } else { c.limit.map_or(total - off, |n| n.min(total - off)) };
    if got.len() != want_len {
        return Err(Fail::new("slice_length_wrong", format!("returned {} rows, the slice [off={off}, limit={:?}] of {total} rows has {want_len}\n{}", got.len(), c.limit, ctx_txt())));
    }
    let mut seen = BTreeSet::new();
    for r in &got {
        if !answer.contains(r) {
            return Err(Fail::new("row_not_in_answer", format!("row {r:?} is not in the relation\n{}", ctx_txt())));
        }
        if !seen.insert(r.clone()) {
            return Err(Fail::new("row_returned_twice", format!("row {r:?} returned twice\n{}", ctx_txt())));
        }
    }
    if c.keys.is_empty() {
        return Ok(());
    }
    // adjacent rows must be in order wherever the order of the two keys is defined
    for w in got.windows(2) {
        if key_cmp(c, &w[0], &w[1]) == Some(Ordering::Greater) {
            return Err(Fail::new("rows_out_of_order", format!("{:?} is returned before {:?}\n{}", w[0], w[1], ctx_txt())));
        }
    }
    // exact slice when every pair of keys is comparable (homogeneous key columns, no NaN):
    // the key sequence of the returned rows must be the key sequence of the sorted answer's slice
    let all: Vec<&VT> = answer.iter().collect();
    let total_order = all.iter().all(|a| all.iter().all(|b| key_cmp(c, a, b).is_some()));
    if total_order {
        let mut sorted: Vec<&VT> = all.clone();
        sorted.sort_by(|a, b| key_cmp(c, a, b).unwrap());
        let proj = |r: &VT| -> Vec<V> { c.keys.iter().map(|k| r[k.0].clone()).collect() };
        let want: Vec<Vec<V>> = sorted.iter().skip(off).take(want_len).map(|r| proj(r)).collect();
        let have: Vec<Vec<V>> = got.iter().map(proj).collect();
        // -0.0 and 0.0 compare equal: compare keys through the comparator, not by bits
        let same = want.len() == have.len()
            && want.iter().zip(&have).all(|(x, y)| x.iter().zip(y).all(|(a, b)| natural(a, b) == Some(Ordering::Equal)));
        if !same {
            return Err(Fail::new("not_the_sorted_slice", format!("sort keys of the returned rows {have:?} differ from the keys of the sorted answer's slice {want:?}\n{}", ctx_txt())));
        }
        obs.class("exact_slice_checked");
    }
    Ok(())
}

pub fn run(ctx: &Ctx) {
    ctx.set_rule(
        "Relations of arity 2-3 with 0-12 or 21-70 rows inserted through the StorageEngine so that every kind is reachable; each column is \
         homogeneous or mixes 2-3 of {Int64, Int32, Float64 incl. NaN/+-inf/-0.0, String, Null, Bool}; queries ?srt(X0:asc|desc, ..), \
         limit(n[, off]) with random keys, directions, limits and offsets through Handler::query_program. Oracle: the query never fails; \
         total_count = |relation|; exactly the slice length; rows are distinct members of the relation; adjacent rows are non-decreasing \
         wherever both keys have a defined order (same kind, no NaN); when all keys are mutually comparable the key sequence equals the \
         sorted answer's slice (ties in any order). Non-trivial = a sort column holds >=2 kinds or a NaN and the limit truncates. \
         Distinct = distinct case JSON.",
    );
    ctx.assume("no order between values of different kinds (or involving NaN) is documented, so such pairs are exempt from position checks but must still be present");
    ctx.run_part("sorted_paginated_queries", ctx.cases(12_000, 180_000), || tape_strategy(400).prop_map(|t| decode(&t)), |c, o| check(ctx, c, o));
}

pub fn replay(ctx: &Ctx, part: &str, case: &J) -> Option<Result<CheckResult, String>> {
    Some(match part {
        "sorted_paginated_queries" => ctx.replay_case(part, case, |c: &SCase, o: &mut Obs| check(ctx, c, o)),
        _ => return None,
    })
}
