//! C36 — probabilistic and hash indexes never lose keys: a bloom filter reports every inserted
//! key as possibly present; a hash index lookup returns exactly the stored tuples whose key
//! columns equal the probe key, across any history of inserts, removals and rebuilds.

use crate::common::val::{any_v, f, from_tuple, to_tuple, vecf, V, VT};
use crate::common::{CheckResult, Ctx, Fail, Obs};
use inputlayer::bloom_filter::{BloomFilter, BloomFilterBuilder};
use inputlayer::hash_index::{HashIndex, JoinKeySpec};
use inputlayer::value::Tuple;
use proptest::prelude::*;
use serde::{Deserialize, Serialize};
use serde_json::{json, Value as J};
use std::collections::BTreeSet;

// ------------------------------------------------------------------------------------------------
// part 1: bloom filter

#[derive(Clone, Debug, Serialize, Deserialize)]
pub enum Ctor {
    /// BloomFilter::new(expected_elements, false_positive_rate); documented to panic for
    /// expected = 0 or a rate outside (0,1)
    New { expected: usize, fp: f64 },
    /// BloomFilter::with_params(num_bits, num_hashes) (documented: bits rounded up to a multiple of 64)
    WithParams { bits: usize, hashes: usize },
    /// BloomFilterBuilder .. build_from(first `seed_keys` i64 keys 0..n)
    Builder { expected: usize, fp: f64, seed_keys: u8 },
}

/// keys of several `Hash` types (each is inserted and queried as its own Rust type)
#[derive(Clone, Debug, Serialize, Deserialize, PartialEq, Eq, PartialOrd, Ord)]
pub enum BKey {
    I64(i64),
    U8(u8),
    Str(String),
    Bytes(Vec<u8>),
    Pair(i64, String),
    /// inputlayer::value::Value
    Val(V),
    /// inputlayer::value::Tuple
    Tup(VT),
    Unit,
}

#[derive(Clone, Debug, Serialize, Deserialize)]
pub enum BOp {
    Insert(BKey),
    /// insert the i64 keys start .. start+n (fills small filters beyond their bit count)
    Bulk { start: i64, n: u16 },
    Clear,
    /// continue with a clone of the filter
    CloneSwap,
}

#[derive(Clone, Debug, Serialize, Deserialize)]
pub struct BloomCase {
    ctor: Ctor,
    ops: Vec<BOp>,
}

fn bloom_insert(b: &mut BloomFilter, k: &BKey) {
    match k {
        BKey::I64(x) => b.insert(x),
        BKey::U8(x) => b.insert(x),
        BKey::Str(s) => b.insert(s),
        BKey::Bytes(v) => b.insert(v),
        BKey::Pair(i, s) => b.insert(&(*i, s.clone())),
        BKey::Val(v) => b.insert(&v.to_value()),
        BKey::Tup(t) => b.insert(&to_tuple(t)),
        BKey::Unit => b.insert(&()),
    }
}

fn bloom_has(b: &BloomFilter, k: &BKey) -> bool {
    match k {
        BKey::I64(x) => b.might_contain(x),
        BKey::U8(x) => b.might_contain(x),
        // a freshly built equal String, not the inserted object
        BKey::Str(s) => b.might_contain(&s.to_string()),
        BKey::Bytes(v) => b.might_contain(&v.to_vec()),
        BKey::Pair(i, s) => b.might_contain(&(*i, s.clone())),
        BKey::Val(v) => b.might_contain(&v.to_value()),
        BKey::Tup(t) => b.might_contain(&to_tuple(t)),
        BKey::Unit => b.might_contain(&()),
    }
}

fn fp_strategy() -> impl Strategy<Value = f64> {
    prop_oneof![
        6 => proptest::sample::select(vec![1e-9f64, 1e-6, 0.001, 0.01, 0.1, 0.5, 0.9, 0.999]),
        3 => 1e-9f64..0.999,
        // documented panics (rejected input)
        1 => proptest::sample::select(vec![0.0f64, 1.0, -0.25, 1.5]),
    ]
}

fn expected_strategy() -> impl Strategy<Value = usize> {
    prop_oneof![4 => Just(1usize), 2 => 2usize..=10, 2 => 11usize..=1000, 1 => 1001usize..=5000, 1 => Just(0usize)]
}

fn ctor_strategy() -> impl Strategy<Value = Ctor> {
    let bits = prop_oneof![
        6 => proptest::sample::select(vec![0usize, 1, 63, 64, 65, 127, 128, 129]),
        2 => 0usize..=4096,
    ];
    let hashes = prop_oneof![8 => 1usize..=32, 1 => Just(0usize), 1 => Just(33usize), 1 => Just(1000usize)];
    prop_oneof![
        4 => (expected_strategy(), fp_strategy()).prop_map(|(expected, fp)| Ctor::New { expected, fp }),
        5 => (bits, hashes).prop_map(|(bits, hashes)| Ctor::WithParams { bits, hashes }),
        1 => (expected_strategy(), fp_strategy(), 0u8..40).prop_map(|(expected, fp, seed_keys)| Ctor::Builder { expected, fp, seed_keys }),
    ]
}

fn bkey_strategy() -> impl Strategy<Value = BKey> {
    prop_oneof![
        3 => prop_oneof![-4i64..4, any::<i64>(), Just(i64::MIN), Just(i64::MAX)].prop_map(BKey::I64),
        1 => any::<u8>().prop_map(BKey::U8),
        2 => prop_oneof![Just(String::new()), "[a-c]{1,3}", Just("naïve ☃".to_string())].prop_map(BKey::Str),
        1 => proptest::collection::vec(any::<u8>(), 0..5).prop_map(BKey::Bytes),
        1 => (-2i64..2, "[ab]{0,2}").prop_map(|(i, s)| BKey::Pair(i, s)),
        2 => any_v().prop_map(BKey::Val),
        3 => proptest::collection::vec(any_v(), 0..4).prop_map(BKey::Tup),
        1 => Just(BKey::Unit),
    ]
}

fn bloom_strategy() -> impl Strategy<Value = BloomCase> {
    let op = prop_oneof![
        10 => bkey_strategy().prop_map(BOp::Insert),
        3 => (-3i64..3, prop_oneof![3 => 1u16..40, 2 => 60u16..300]).prop_map(|(start, n)| BOp::Bulk { start: start * 100, n }),
        1 => Just(BOp::Clear),
        1 => Just(BOp::CloneSwap),
    ];
    (ctor_strategy(), proptest::collection::vec(op, 1..16)).prop_map(|(ctor, ops)| BloomCase { ctor, ops })
}

/// does the documentation of the constructor reject these parameters (documented panic)?
fn documented_reject(c: &Ctor) -> bool {
    match c {
        Ctor::New { expected, fp } | Ctor::Builder { expected, fp, .. } => *expected == 0 || !(*fp > 0.0 && *fp < 1.0),
        Ctor::WithParams { .. } => false,
    }
}

fn check_bloom(c: &BloomCase, obs: &mut Obs) -> CheckResult {
    let built = crate::common::runner::guarded(|| match &c.ctor {
        Ctor::New { expected, fp } => BloomFilter::new(*expected, *fp),
        Ctor::WithParams { bits, hashes } => BloomFilter::with_params(*bits, *hashes),
        Ctor::Builder { expected, fp, seed_keys } => BloomFilterBuilder::new().expected_elements(*expected).false_positive_rate(*fp).build_from(0..i64::from(*seed_keys)),
    });
    let mut b = match built {
        Ok(b) => b,
        Err(msg) => {
            if documented_reject(&c.ctor) {
                obs.discard = Some("constructor rejected parameters it documents as invalid".into());
                return Ok(());
            }
            return Err(Fail::new("constructor_panicked", format!("{:?} panicked for parameters the documentation allows: {msg}", c.ctor)));
        }
    };
    if documented_reject(&c.ctor) {
        // accepted although documented as a panic: not this property's concern
        obs.discard = Some("constructor accepted parameters it documents as invalid".into());
        return Ok(());
    }
    // model: the set of keys inserted since the last clear
    let mut model: BTreeSet<BKey> = BTreeSet::new();
    if let Ctor::Builder { seed_keys, .. } = &c.ctor {
        model.extend((0..i64::from(*seed_keys)).map(BKey::I64));
    }
    let mut max_keys = model.len();
    let lost = |b: &BloomFilter, k: &BKey, when: &str| {
        Fail::new(
            "inserted_key_reported_absent",
            format!("{:?} (num_bits {}, num_hashes {}): might_contain({k:?}) = false {when}; ops {:?}", c.ctor, b.num_bits(), b.num_hashes(), c.ops),
        )
    };
    for (step, op) in c.ops.iter().enumerate() {
        match op {
            BOp::Insert(k) => {
                bloom_insert(&mut b, k);
                model.insert(k.clone());
                if !bloom_has(&b, k) {
                    return Err(lost(&b, k, &format!("right after its insertion (step {step})")));
                }
            }
            BOp::Bulk { start, n } => {
                for x in *start..*start + i64::from(*n) {
                    b.insert(&x);
                    model.insert(BKey::I64(x));
                }
            }
            BOp::Clear => {
                b.clear();
                model.clear();
            }
            BOp::CloneSwap => b = b.clone(),
        }
        max_keys = max_keys.max(model.len());
        // every key inserted so far, after every step
        for k in &model {
            if !bloom_has(&b, k) {
                return Err(lost(&b, k, &format!("after step {step} ({op:?})")));
            }
        }
    }
    let bits = b.num_bits();
    obs.nontrivial = max_keys > bits;
    obs.class_if(max_keys > bits, "more_keys_than_bits");
    obs.class(match &c.ctor {
        Ctor::New { .. } => "ctor: new",
        Ctor::WithParams { .. } => "ctor: with_params",
        Ctor::Builder { .. } => "ctor: builder.build_from",
    });
    obs.class(&format!("bits: {}", if bits <= 64 { "64" } else if bits <= 128 { "128" } else if bits <= 1024 { "<=1024" } else { ">1024" }));
    if let Ctor::WithParams { bits: req, hashes } = &c.ctor {
        obs.class_if(*req < 64, "requested_bits_below_one_word");
        obs.class_if(*req % 64 != 0, "requested_bits_not_word_aligned");
        obs.class_if(*hashes == 0 || *hashes > 32, "requested_hashes_outside_1_32");
    }
    if let Ctor::New { expected, fp } | Ctor::Builder { expected, fp, .. } = &c.ctor {
        obs.class_if(*expected == 1, "expected_elements_1");
        obs.class_if(*fp >= 0.9, "fp_rate_>=0.9");
        obs.class_if(*fp <= 1e-6, "fp_rate_<=1e-6");
    }
    let kinds: BTreeSet<&str> = model
        .iter()
        .map(|k| match k {
            BKey::I64(_) => "i64",
            BKey::U8(_) => "u8",
            BKey::Str(_) => "String",
            BKey::Bytes(_) => "Vec<u8>",
            BKey::Pair(..) => "(i64,String)",
            BKey::Val(_) => "Value",
            BKey::Tup(_) => "Tuple",
            BKey::Unit => "()",
        })
        .collect();
    for k in &kinds {
        obs.class(&format!("key type: {k}"));
    }
    obs.class_if(c.ops.iter().any(|o| matches!(o, BOp::Clear)), "cleared");
    obs.count("keys_checked", model.len() as u64);
    obs.sample = Some(json!({"ctor": format!("{:?}", c.ctor), "num_bits": bits, "num_hashes": b.num_hashes(), "max_distinct_keys": max_keys,
        "ops": c.ops.iter().take(8).map(|o| format!("{o:?}")).collect::<Vec<_>>()}));
    Ok(())
}

// ------------------------------------------------------------------------------------------------
// part 2: hash index

#[derive(Clone, Debug, Serialize, Deserialize)]
pub enum IOp {
    /// insert pool[i]
    Insert(usize),
    /// remove pool[i] (one stored copy, if any)
    Remove(usize),
    /// build_from_tuples(pool[i] for i in list): replaces the contents
    Build(Vec<usize>),
    /// build_from_tuples(current contents)
    Rebuild,
    /// look the key of pool[i] up
    Lookup(usize),
    /// look an arbitrary key up
    LookupKey(VT),
}

#[derive(Clone, Debug, Serialize, Deserialize)]
pub struct IdxCase {
    arity: usize,
    key_cols: Vec<usize>,
    expected_keys: usize,
    pool: Vec<VT>,
    ops: Vec<IOp>,
}

/// small value domain so that keys collide, with the float / vector values whose equality is delicate
fn idx_value() -> impl Strategy<Value = V> {
    let dom = vec![
        V::I64(0),
        V::I64(1),
        V::I64(2),
        V::I32(1),
        f(0.0),
        f(-0.0),
        f(f64::NAN),
        f(1.5),
        V::Vec(vec![]),
        vecf(&[0.0]),
        vecf(&[-0.0]),
        vecf(&[f32::NAN]),
        vecf(&[1.0, 2.0]),
        V::VecI8(vec![1, -1]),
        V::S(String::new()),
        V::S("a".into()),
        V::Null,
        V::B(true),
        V::Ts(1),
    ];
    prop_oneof![6 => proptest::sample::select(dom), 1 => any_v()]
}

fn idx_strategy() -> impl Strategy<Value = IdxCase> {
    (1usize..=4)
        .prop_flat_map(|arity| {
            let cols = Just((0..arity).collect::<Vec<usize>>()).prop_shuffle();
            (Just(arity), cols, 1..=arity, proptest::collection::vec(proptest::collection::vec(idx_value(), arity..=arity), 1..=8), prop_oneof![Just(0usize), Just(1usize), 2usize..=200])
        })
        .prop_flat_map(|(arity, cols, nkey, pool, expected_keys)| {
            let n = pool.len();
            let op = prop_oneof![
                6 => (0..n).prop_map(IOp::Insert),
                4 => (0..n).prop_map(IOp::Remove),
                1 => proptest::collection::vec(0..n, 0..6).prop_map(IOp::Build),
                1 => Just(IOp::Rebuild),
                2 => (0..n).prop_map(IOp::Lookup),
                1 => proptest::collection::vec(idx_value(), nkey..=nkey).prop_map(IOp::LookupKey),
            ];
            (Just(arity), Just(cols[..nkey].to_vec()), Just(pool), Just(expected_keys), proptest::collection::vec(op, 1..=20))
        })
        .prop_map(|(arity, key_cols, pool, expected_keys, ops)| IdxCase { arity, key_cols, expected_keys, pool, ops })
}

fn sorted(mut v: Vec<VT>) -> Vec<VT> {
    v.sort();
    v
}

/// all three lookups for `key` against the model (a multiset of stored tuples)
fn check_lookup(idx: &HashIndex, model: &[VT], key_cols: &[usize], key: &VT, when: &str) -> CheckResult {
    let probe: Tuple = to_tuple(key);
    // model: stored tuples whose key columns equal the probe key by the engine's ==
    let want = sorted(model.iter().filter(|t| to_tuple(&key_cols.iter().map(|c| t[*c].clone()).collect::<VT>()) == probe).cloned().collect());
    let got_get = sorted(idx.get(&probe).map(|v| v.iter().map(from_tuple).collect()).unwrap_or_default());
    let got_bloom = sorted(idx.get_with_bloom(&probe).map(|v| v.iter().map(from_tuple).collect()).unwrap_or_default());
    let got_probe = sorted(idx.probe(&probe).map(from_tuple).collect());
    for (name, got) in [("get", &got_get), ("get_with_bloom", &got_bloom), ("probe", &got_probe)] {
        if *got != want {
            return Err(Fail::new(
                &format!("{name}_differs_from_model"),
                format!("{name}({key:?}) {when} returned {got:?}, stored tuples with that key are {want:?} (key columns {key_cols:?}, contents {model:?})"),
            ));
        }
    }
    if !want.is_empty() && !idx.might_contain_key(&probe) {
        return Err(Fail::new("might_contain_key_false_for_stored_key", format!("might_contain_key({key:?}) = false {when}, stored {want:?}")));
    }
    Ok(())
}

fn check_idx(c: &IdxCase, obs: &mut Obs) -> CheckResult {
    let mut idx = HashIndex::new(JoinKeySpec::new("r", c.key_cols.clone()), c.expected_keys);
    let mut model: Vec<VT> = Vec::new();
    let key_of = |t: &VT| -> VT { c.key_cols.iter().map(|k| t[*k].clone()).collect() };
    let (mut effective_removals, mut emptied_key, mut removed_duplicate, mut rebuilt_after_removal, mut absent_removals) = (0u64, false, false, false, 0u64);
    for (step, op) in c.ops.iter().enumerate() {
        let when = format!("after step {step} {op:?} of {:?}", c.ops);
        let touched: Option<VT> = match op {
            IOp::Insert(i) => {
                let t = &c.pool[*i];
                idx.insert(to_tuple(t));
                model.push(t.clone());
                Some(key_of(t))
            }
            IOp::Remove(i) => {
                let t = &c.pool[*i];
                let tt = to_tuple(t);
                let _ = idx.remove(&tt);
                // model: one stored copy equal (engine ==) to the tuple disappears
                if let Some(pos) = model.iter().position(|m| to_tuple(m) == tt) {
                    model.remove(pos);
                    effective_removals += 1;
                    let k = to_tuple(&key_of(t));
                    let left = model.iter().filter(|m| to_tuple(&key_of(m)) == k).count();
                    emptied_key |= left == 0;
                    removed_duplicate |= model.iter().any(|m| to_tuple(m) == tt);
                } else {
                    absent_removals += 1;
                }
                Some(key_of(t))
            }
            IOp::Build(list) => {
                model = list.iter().map(|i| c.pool[*i].clone()).collect();
                idx.build_from_tuples(model.iter().map(|t| to_tuple(t)));
                rebuilt_after_removal |= effective_removals > 0;
                None
            }
            IOp::Rebuild => {
                idx.build_from_tuples(model.iter().map(|t| to_tuple(t)));
                rebuilt_after_removal |= effective_removals > 0;
                None
            }
            IOp::Lookup(i) => Some(key_of(&c.pool[*i])),
            IOp::LookupKey(k) => Some(k.clone()),
        };
        if let Some(k) = touched {
            check_lookup(&idx, &model, &c.key_cols, &k, &when)?;
        }
    }
    // finally every key the pool can form
    let when = format!("at the end of {:?}", c.ops);
    let keys: BTreeSet<VT> = c.pool.iter().map(|t| key_of(t)).collect();
    for k in &keys {
        check_lookup(&idx, &model, &c.key_cols, k, &when)?;
    }
    let key_vals = || c.pool.iter().flat_map(|t| c.key_cols.iter().map(move |k| &t[*k]));
    let float_key = key_vals().any(|v| matches!(v, V::F(_)));
    let vector_key = key_vals().any(|v| matches!(v, V::Vec(_) | V::VecI8(_)));
    let special_key = key_vals().any(V::is_special_float);
    obs.nontrivial = effective_removals > 0;
    obs.class_if(effective_removals > 0, "removal_then_lookup_of_that_key");
    obs.class_if(emptied_key, "removed_last_tuple_of_a_key");
    obs.class_if(removed_duplicate, "removed_one_of_several_equal_tuples");
    obs.class_if(rebuilt_after_removal, "rebuild_after_removal");
    obs.class_if(absent_removals > 0, "removal_of_absent_tuple");
    obs.class_if(float_key, "float_key_column");
    obs.class_if(vector_key, "vector_key_column");
    obs.class_if(special_key, "nan_or_negative_zero_in_key");
    obs.class_if(c.key_cols.len() > 1, "multi_column_key");
    obs.class_if(c.key_cols.len() == c.arity, "key_is_whole_tuple");
    obs.count("lookups_checked", (c.ops.len() + keys.len()) as u64 * 3);
    obs.sample = Some(json!({"arity": c.arity, "key_cols": c.key_cols, "pool": c.pool.iter().take(4).collect::<Vec<_>>(),
        "ops": c.ops.iter().take(10).map(|o| format!("{o:?}")).collect::<Vec<_>>(), "final_size": model.len()}));
    Ok(())
}

pub fn run(ctx: &Ctx) {
    ctx.set_rule(
        "bloom: BloomFilter::new / BloomFilterBuilder.build_from (expected 1-5000, fp 1e-9..0.999) or with_params (bits 0/1/63/64/65/127/128/129 \
         or 0-4096, hashes 1-32 and 0/33/1000) followed by 1-15 ops: insert a key of type i64, u8, String, Vec<u8>, (i64,String), Value, Tuple \
         or (), bulk-insert 1-300 consecutive i64 (overfilling small filters), clear, clone; after every op every key inserted since the last \
         clear must have might_contain = true (queried through a freshly built equal key). Constructor parameters documented as panicking \
         (expected 0, rate outside (0,1)) are rejected input (discarded); a panic for any other parameters is a failure. hash_index: arity 1-4, \
         key = 1..arity distinct columns in any order, pool of 1-8 tuples over a small colliding domain incl. 0.0/-0.0/NaN floats, float and int8 \
         vectors (empty, [0.0], [-0.0], [NaN]), Null, strings; 1-20 ops insert / remove / build_from_tuples(list) / rebuild / lookup; after every \
         op the touched key, and at the end every key of the pool, is looked up with get, get_with_bloom and probe: each must return exactly the \
         model's multiset of stored tuples whose key columns == the probe key (engine ==), and might_contain_key must hold for a stored key. \
         Non-trivial = more distinct keys than filter bits [bloom]; a removal that removed a stored tuple, followed by a lookup of its key \
         [hash_index]. Distinct = distinct case JSON.",
    );
    ctx.assume("HashIndex::remove's return value is not judged (only the contents it leaves, through the lookups)");
    ctx.assume("tuples of one index share one arity and key columns are in range (out-of-range key columns are silently dropped by Tuple::project; not part of the property)");
    ctx.run_part("bloom", ctx.cases(120_000, 2_400_000), bloom_strategy, check_bloom);
    ctx.run_part("hash_index", ctx.cases(120_000, 2_400_000), idx_strategy, check_idx);
}

pub fn replay(ctx: &Ctx, part: &str, case: &J) -> Option<Result<CheckResult, String>> {
    Some(match part {
        "bloom" => ctx.replay_case(part, case, check_bloom),
        "hash_index" => ctx.replay_case(part, case, check_idx),
        _ => return None,
    })
}
