use crate::common::{CheckResult, Ctx};
use serde_json::Value as J;

pub type RunFn = fn(&Ctx);
pub type ReplayFn = fn(&Ctx, &str, &J) -> Option<Result<CheckResult, String>>;

macro_rules! props {
    ($($m:ident => $id:literal),* $(,)?) => {
        $(pub mod $m;)*
        pub fn lookup(id: &str) -> Option<(RunFn, ReplayFn)> {
            Some(match id {
                $($id => ($m::run, $m::replay),)*
                _ => return None,
            })
        }
        pub const ALL: &[&str] = &[$($id),*];
    };
}

props! {
    c01 => "C01",
    c02 => "C02",
    c03 => "C03",
    c04 => "C04",
    c05 => "C05",
    c06 => "C06",
    c07 => "C07",
    c08 => "C08",
    c09 => "C09",
    c10 => "C10",
    c11 => "C11",
    c12 => "C12",
    c13 => "C13",
    c14 => "C14",
    c15 => "C15",
    c16 => "C16",
    c17 => "C17",
    c18 => "C18",
    c19 => "C19",
    c20 => "C20",
    c21 => "C21",
    c22 => "C22",
    c23 => "C23",
    c24 => "C24",
    c25 => "C25",
    c26 => "C26",
    c27 => "C27",
    c28 => "C28",
    c29 => "C29",
    c30 => "C30",
    c31 => "C31",
    c32 => "C32",
    c33 => "C33",
    c34 => "C34",
    c35 => "C35",
    c36 => "C36",
}

pub mod c05syn;

/// Internal sub-commands (`check __xyz ...`), e.g. child-process workloads for the crash engine.
pub fn internal(cmd: &str, args: &[String]) -> i32 {
    match cmd {
        "__iql" => scratch_iql(&args[0]),
        "__c07" => c07::child_main(),
        "__c13work" => c13::child_main(),
        "__c16work" => c16::child_main(),
        "__c21" => c21::child_main(args),
        _ => {
            eprintln!("unknown internal command");
            2
        }
    }
}

/// Scratch tool: file with `# rel: 1 2; 3 4` EDB lines followed by program text; runs it under
/// optimizer masks 31 and 0 (and any in VERIF_MASKS) and prints the answers.
fn scratch_iql(path: &str) -> i32 {
    use inputlayer::value::{Tuple, Value};
    let text = std::fs::read_to_string(path).expect("read");
    let mut edb: Vec<(String, Vec<Tuple>)> = Vec::new();
    let mut prog = String::new();
    for l in text.lines() {
        if let Some(r) = l.strip_prefix("# ") {
            let (name, rows) = r.split_once(':').expect("# rel: rows");
            let rows: Vec<Tuple> = rows
                .split(';')
                .filter(|x| !x.trim().is_empty())
                .map(|row| Tuple::new(row.split_whitespace().map(|v| Value::Int64(v.parse().unwrap())).collect()))
                .collect();
            edb.push((name.trim().to_string(), rows));
        } else {
            prog.push_str(l);
            prog.push('\n');
        }
    }
    let masks: Vec<u8> = std::env::var("VERIF_MASKS").ok().map(|m| m.split(',').map(|x| x.parse().unwrap()).collect()).unwrap_or(vec![31, 0]);
    let workers: usize = std::env::var("VERIF_WORKERS").ok().and_then(|w| w.parse().ok()).unwrap_or(1);
    for m in masks {
        let mut e = inputlayer::IQLEngine::with_config(crate::common::eng::opt_config(m));
        e.set_num_workers(workers);
        if let Some(n) = std::env::var("VERIF_MAXROWS").ok().and_then(|w| w.parse().ok()) {
            e.set_max_result_rows(n);
        }
        for (r, rows) in &edb {
            e.add_tuples(r, rows.clone());
        }
        let (r, _) = crate::common::eng::with_watchdog(20, || e.execute_tuples(&prog));
        if std::env::var("VERIF_SHOW_IR").is_ok() {
            for n in e.ir_nodes() {
                println!("  IR: {n:?}");
            }
        }
        match r {
            Ok(mut ts) => {
                ts.sort();
                println!("mask {m}: {} rows: {}", ts.len(), ts.iter().map(|t| format!("{t}")).collect::<Vec<_>>().join(" "));
            }
            Err(e) => println!("mask {m}: ERR {e}"),
        }
    }
    0
}
