#!/bin/bash
# ./run.sh <ID> quick|thorough        run a check (rebuilds the harness against /repo's working tree first)
# ./run.sh <ID> replay <file>         replay a saved case
# exit 0 = held, 1 = VIOLATION line printed, 2 = inconclusive / infrastructure
set -u
cd /verif/harness || exit 2
export CARGO_NET_OFFLINE=true
ID="$1"; MODE="${2:-quick}"
[ -f Cargo.lock ] || cp /repo/Cargo.lock Cargo.lock
# a changed /repo/Cargo.lock (new dependency versions) invalidates ours
if [ /repo/Cargo.lock -nt Cargo.lock ]; then cp /repo/Cargo.lock Cargo.lock; fi
LOG=$(mktemp /verif/target/build.XXXXXX.log 2>/dev/null || mktemp)
mkdir -p /verif/target
# serialise builds (many checks may be started at once)
(
  flock 9
  cargo build --offline --bin check >"$LOG" 2>&1
) 9>/verif/target/.build.lock
RC=$?
if [ $RC -ne 0 ]; then
  echo "INCONCLUSIVE: harness build failed (exit 2)"; tail -40 "$LOG"; rm -f "$LOG"; exit 2
fi
rm -f "$LOG"
BIN=/verif/target/debug/check
# C09 thorough: coverage-guided campaign (libFuzzer over the grammar's choice tape, oracle inside the
# target) before the proptest campaign; its statistics go into the evidence file via VERIF_FUZZ_STATS.
# A crash artifact is the replay unit. If the nightly fuzz build is unavailable the tier falls back to
# the proptest campaign alone and says so in the evidence notes.
if [ "$ID" = "C09" ] && [ "$MODE" = "thorough" ]; then
  FZ=/verif/target/fuzz-c09; rm -rf "$FZ"; mkdir -p "$FZ/corpus" "$FZ/artifacts"
  SEED=${VERIF_SEED:-1}; [ "$SEED" = "0" ] && SEED=1
  # the fuzz crate resolves offline from the harness's lock file (plus libfuzzer-sys & co from the registry cache)
  [ -f /verif/harness/fuzz/Cargo.lock ] || cp /verif/harness/Cargo.lock /verif/harness/fuzz/Cargo.lock
  if (cd /verif/harness && cargo +nightly fuzz build -s none c09_roundtrip >"$FZ/build.log" 2>&1); then
    (cd /verif/harness && cargo +nightly fuzz run -s none c09_roundtrip "$FZ/corpus" -- -runs=${VERIF_FUZZ_RUNS:-3000000} -seed=$SEED -max_len=256 -len_control=0 -artifact_prefix="$FZ/artifacts/" >"$FZ/run.log" 2>&1)
    FRC=$?
    CRASH=$(ls "$FZ"/artifacts/crash-* 2>/dev/null | head -1)
    if [ -n "$CRASH" ]; then
      mkdir -p /verif/replays/C09; cp "$CRASH" /verif/replays/C09/
      grep -m1 "C09 violated" "$FZ/run.log" | cut -c1-600
      echo "VIOLATION property=C09 replay=/verif/replays/C09/$(basename "$CRASH")"
      FUZZ_VIOLATION=1
    fi
    python3 - "$FZ" "$FRC" <<'PY'
import sys,re,json,os
fz,frc=sys.argv[1],int(sys.argv[2])
log=open(fz+'/run.log',errors='replace').read()
m=re.findall(r'#(\d+)\s+\w+\s+cov: (\d+) ft: (\d+) corp: (\d+)',log)
done=re.search(r'Done (\d+) runs in (\d+) second',log)
st={'engine':'libFuzzer (cargo-fuzz, -s none)','target':'c09_roundtrip','exit':frc,
    'runs':int(done.group(1)) if done else (int(m[-1][0]) if m else 0),'seconds':int(done.group(2)) if done else None,
    'coverage_edges':int(m[-1][1]) if m else None,'features':int(m[-1][2]) if m else None,'corpus':int(m[-1][3]) if m else None,
    'crashes':len([f for f in os.listdir(fz+'/artifacts') if f.startswith('crash-')])}
json.dump(st,open(fz+'/stats.json','w'))
PY
    export VERIF_FUZZ_STATS="$FZ/stats.json"
  else
    echo '{"unavailable": "cargo +nightly fuzz build failed; see /verif/target/fuzz-c09/build.log"}' > "$FZ/stats.json"
    export VERIF_FUZZ_STATS="$FZ/stats.json"
  fi
fi
# the engine logs recovery chatter ("[persist] ...", hnsw_rs build lines) on stderr: drop it
case "$MODE" in
  quick|thorough) "$BIN" "$ID" --tier "$MODE" 2> >(grep -v -e '^\[persist\]' -e '^\[wal\]' >&2); RC=$?; [ "${FUZZ_VIOLATION:-0}" = "1" ] && [ $RC -eq 0 ] && RC=1; exit $RC ;;
  replay)
    # a libFuzzer crash artifact (not JSON) is replayed through the fuzz target
    if [ "$ID" = "C09" ] && ! head -c1 "$3" | grep -q '{'; then
      OUT=$(cd /verif/harness && cargo +nightly fuzz run -s none c09_roundtrip "$3" 2>&1 | grep -m1 "C09 violated" | cut -c1-800)
      if [ -n "$OUT" ]; then echo "$OUT"; echo "VIOLATION property=C09 replay=$3"; exit 1; fi
      echo "replay $3: property held on this input"; exit 0
    fi
    "$BIN" "$ID" --replay "$3" 2> >(grep -v -e '^\[persist\]' -e '^\[wal\]' >&2); exit $? ;;
  *) echo "unknown mode $MODE"; exit 2 ;;
esac
