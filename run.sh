#!/bin/bash
# ./run.sh <ID> quick|thorough        run a check (rebuilds the harness against /repo's working tree first)
# ./run.sh <ID> replay <file>         replay a saved case
# exit 0 = held, 1 = VIOLATION line printed, 2 = inconclusive / infrastructure
set -u
cd /verif/harness || exit 2
export CARGO_NET_OFFLINE=true
ID="$1"; MODE="${2:-quick}"
[ -f Cargo.lock ] || cp /repo/Cargo.lock Cargo.lock
# a changed /repo/Cargo.lock (new dependency versions) invalidates ours
if [ /repo/Cargo.lock -nt Cargo.lock ]; then cp /repo/Cargo.lock Cargo.lock; fi
LOG=$(mktemp /verif/target/build.XXXXXX.log 2>/dev/null || mktemp)
mkdir -p /verif/target
# serialise builds (many checks may be started at once)
(
  flock 9
  cargo build --offline --bin check >"$LOG" 2>&1
) 9>/verif/target/.build.lock
RC=$?
if [ $RC -ne 0 ]; then
  echo "INCONCLUSIVE: harness build failed (exit 2)"; tail -40 "$LOG"; rm -f "$LOG"; exit 2
fi
rm -f "$LOG"
BIN=/verif/target/debug/check
# the engine logs recovery chatter ("[persist] ...", hnsw_rs build lines) on stderr: drop it
case "$MODE" in
  quick|thorough) "$BIN" "$ID" --tier "$MODE" 2> >(grep -v -e '^\[persist\]' -e '^\[wal\]' >&2); exit $? ;;
  replay) "$BIN" "$ID" --replay "$3" 2> >(grep -v -e '^\[persist\]' -e '^\[wal\]' >&2); exit $? ;;
  *) echo "unknown mode $MODE"; exit 2 ;;
esac
