#!/bin/bash
# Build everything the checks need, offline, from files on disk.
set -e
cd /verif
export CARGO_NET_OFFLINE=true
mkdir -p target evidence replays
cp /repo/Cargo.lock harness/Cargo.lock
if [ -f shim/fsrec.c ]; then
  gcc -O2 -shared -fPIC -o shim/fsrec.so shim/fsrec.c -ldl
fi
(cd harness && cargo build --offline --bin check)
echo "setup ok"
