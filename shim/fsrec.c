// fsrec — LD_PRELOAD recorder of file-system mutations below FSREC_ROOT.
// Every successful mutating call on a path below the root is appended to FSREC_LOG as one text
// line; payloads are hex. The harness rebuilds directory images from prefixes of this log
// (crash-state enumeration). Paths starting with /__fsrec__/ are markers from the workload
// (ATTEMPT / ACK of an operation); they are logged and never reach the kernel.
//
// Record kinds (fields separated by one space, path last because it may contain spaces):
//   O <flags-hex> <existed 0|1> <path>      open with O_CREAT and/or O_TRUNC (creation / truncation)
//   W <offset> <hex> <path>                 write/pwrite/writev payload at offset
//   T <len> <path>                          ftruncate
//   R <oldpath>\t<newpath>                  rename
//   U <path>                                unlink
//   D <path>                                mkdir
//   X <path>                                rmdir
//   S <path>                                fsync / fdatasync of a file
//   Y <path>                                fsync of a directory
//   M <text>                                marker
#define _GNU_SOURCE
#include <dlfcn.h>
#include <errno.h>
#include <fcntl.h>
#include <limits.h>
#include <pthread.h>
#include <stdarg.h>
#include <stdio.h>
#include <stdlib.h>
#include <string.h>
#include <sys/stat.h>
#include <sys/types.h>
#include <sys/uio.h>
#include <unistd.h>

#define MAXFD 4096
static char *fd_path[MAXFD];
static int fd_isdir[MAXFD];
static int fd_append[MAXFD];
static pthread_mutex_t mu = PTHREAD_MUTEX_INITIALIZER;
static int log_fd = -1;
static const char *root = NULL;
static size_t root_len = 0;
static int inited = 0;

static int (*real_open)(const char *, int, ...);
static int (*real_open64)(const char *, int, ...);
static int (*real_openat)(int, const char *, int, ...);
static int (*real_openat64)(int, const char *, int, ...);
static int (*real_creat)(const char *, mode_t);
static ssize_t (*real_write)(int, const void *, size_t);
static ssize_t (*real_pwrite)(int, const void *, size_t, off_t);
static ssize_t (*real_pwrite64)(int, const void *, size_t, off_t);
static ssize_t (*real_writev)(int, const struct iovec *, int);
static int (*real_close)(int);
static int (*real_rename)(const char *, const char *);
static int (*real_renameat)(int, const char *, int, const char *);
static int (*real_renameat2)(int, const char *, int, const char *, unsigned int);
static int (*real_unlink)(const char *);
static int (*real_unlinkat)(int, const char *, int);
static int (*real_ftruncate)(int, off_t);
static int (*real_ftruncate64)(int, off_t);
static int (*real_fsync)(int);
static int (*real_fdatasync)(int);
static int (*real_mkdir)(const char *, mode_t);
static int (*real_mkdirat)(int, const char *, mode_t);
static int (*real_rmdir)(const char *);

static void init(void) {
    if (inited) return;
    inited = 1;
    real_open = dlsym(RTLD_NEXT, "open");
    real_open64 = dlsym(RTLD_NEXT, "open64");
    real_openat = dlsym(RTLD_NEXT, "openat");
    real_openat64 = dlsym(RTLD_NEXT, "openat64");
    real_creat = dlsym(RTLD_NEXT, "creat");
    real_write = dlsym(RTLD_NEXT, "write");
    real_pwrite = dlsym(RTLD_NEXT, "pwrite");
    real_pwrite64 = dlsym(RTLD_NEXT, "pwrite64");
    real_writev = dlsym(RTLD_NEXT, "writev");
    real_close = dlsym(RTLD_NEXT, "close");
    real_rename = dlsym(RTLD_NEXT, "rename");
    real_renameat = dlsym(RTLD_NEXT, "renameat");
    real_renameat2 = dlsym(RTLD_NEXT, "renameat2");
    real_unlink = dlsym(RTLD_NEXT, "unlink");
    real_unlinkat = dlsym(RTLD_NEXT, "unlinkat");
    real_ftruncate = dlsym(RTLD_NEXT, "ftruncate");
    real_ftruncate64 = dlsym(RTLD_NEXT, "ftruncate64");
    real_fsync = dlsym(RTLD_NEXT, "fsync");
    real_fdatasync = dlsym(RTLD_NEXT, "fdatasync");
    real_mkdir = dlsym(RTLD_NEXT, "mkdir");
    real_mkdirat = dlsym(RTLD_NEXT, "mkdirat");
    real_rmdir = dlsym(RTLD_NEXT, "rmdir");
    root = getenv("FSREC_ROOT");
    if (root) root_len = strlen(root);
    const char *lp = getenv("FSREC_LOG");
    if (lp && root) {
        log_fd = real_open64 ? real_open64(lp, O_WRONLY | O_CREAT | O_APPEND, 0644) : -1;
        if (log_fd >= 0 && log_fd < 1000) {
            // move the log descriptor out of the way of the application's descriptors
            int hi = fcntl(log_fd, F_DUPFD_CLOEXEC, 1000);
            if (hi >= 0) {
                real_close(log_fd);
                log_fd = hi;
            }
        }
    }
}

static int under_root(const char *p) { return root && p && strncmp(p, root, root_len) == 0; }
static int is_marker(const char *p) { return p && strncmp(p, "/__fsrec__/", 11) == 0; }

static void emit(const char *buf, size_t n) {
    if (log_fd < 0) return;
    size_t off = 0;
    while (off < n) {
        ssize_t w = real_write(log_fd, buf + off, n - off);
        if (w <= 0) break;
        off += (size_t)w;
    }
}

static void logf_(const char *fmt, ...) {
    char buf[PATH_MAX * 2 + 128];
    va_list ap;
    va_start(ap, fmt);
    int n = vsnprintf(buf, sizeof buf, fmt, ap);
    va_end(ap);
    if (n > 0) emit(buf, (size_t)(n < (int)sizeof buf ? n : (int)sizeof buf - 1));
}

static void abspath(int dirfd, const char *path, char *out, size_t cap) {
    if (path[0] == '/') {
        snprintf(out, cap, "%s", path);
    } else if (dirfd == AT_FDCWD) {
        char cwd[PATH_MAX];
        if (!getcwd(cwd, sizeof cwd)) cwd[0] = 0;
        snprintf(out, cap, "%s/%s", cwd, path);
    } else if (dirfd >= 0 && dirfd < MAXFD && fd_path[dirfd]) {
        snprintf(out, cap, "%s/%s", fd_path[dirfd], path);
    } else {
        char link[64], base[PATH_MAX];
        snprintf(link, sizeof link, "/proc/self/fd/%d", dirfd);
        ssize_t n = readlink(link, base, sizeof base - 1);
        if (n < 0) n = 0;
        base[n] = 0;
        snprintf(out, cap, "%s/%s", base, path);
    }
}

static void track_open(int fd, const char *abs, int flags, int existed) {
    if (fd < 0 || fd >= MAXFD) return;
    free(fd_path[fd]);
    fd_path[fd] = NULL;
    if (!under_root(abs)) return;
    fd_path[fd] = strdup(abs);
    struct stat st;
    fd_isdir[fd] = (fstat(fd, &st) == 0 && S_ISDIR(st.st_mode));
    fd_append[fd] = (flags & O_APPEND) != 0;
    if (!fd_isdir[fd] && (flags & (O_CREAT | O_TRUNC))) logf_("O %x %d %s\n", flags & (O_CREAT | O_TRUNC | O_EXCL | O_APPEND), existed, abs);
}

static int do_open(int kind, int dirfd, const char *path, int flags, mode_t mode) {
    init();
    char abs[PATH_MAX];
    abspath(dirfd, path, abs, sizeof abs);
    int tracked = under_root(abs);
    int existed = 0;
    if (tracked) {
        struct stat st;
        existed = (stat(abs, &st) == 0);
        pthread_mutex_lock(&mu);
    }
    int fd;
    switch (kind) {
        case 0: fd = real_open(path, flags, mode); break;
        case 1: fd = real_open64(path, flags, mode); break;
        case 2: fd = real_openat(dirfd, path, flags, mode); break;
        default: fd = real_openat64(dirfd, path, flags, mode); break;
    }
    if (tracked) {
        int e = errno;
        if (fd >= 0) track_open(fd, abs, flags, existed);
        pthread_mutex_unlock(&mu);
        errno = e;
    } else if (fd >= 0 && fd < MAXFD && fd_path[fd]) {
        pthread_mutex_lock(&mu);
        free(fd_path[fd]);
        fd_path[fd] = NULL;
        pthread_mutex_unlock(&mu);
    }
    return fd;
}

#define GET_MODE                              \
    mode_t mode = 0;                          \
    if (flags & (O_CREAT | O_TMPFILE)) {      \
        va_list ap;                           \
        va_start(ap, flags);                  \
        mode = va_arg(ap, mode_t);            \
        va_end(ap);                           \
    }

int open(const char *path, int flags, ...) { GET_MODE return do_open(0, AT_FDCWD, path, flags, mode); }
int open64(const char *path, int flags, ...) { GET_MODE return do_open(1, AT_FDCWD, path, flags, mode); }
int openat(int dirfd, const char *path, int flags, ...) { GET_MODE return do_open(2, dirfd, path, flags, mode); }
int openat64(int dirfd, const char *path, int flags, ...) { GET_MODE return do_open(3, dirfd, path, flags, mode); }
int creat(const char *path, mode_t mode) { return do_open(1, AT_FDCWD, path, O_CREAT | O_WRONLY | O_TRUNC, mode); }

static void log_write(int fd, const void *buf, size_t n, off_t off) {
    // caller holds mu
    static const char hexd[] = "0123456789abcdef";
    char head[64];
    int hn = snprintf(head, sizeof head, "W %lld ", (long long)off);
    size_t plen = strlen(fd_path[fd]);
    char *line = malloc((size_t)hn + n * 2 + plen + 3);
    if (!line) return;
    memcpy(line, head, (size_t)hn);
    const unsigned char *b = buf;
    for (size_t i = 0; i < n; i++) {
        line[hn + 2 * i] = hexd[b[i] >> 4];
        line[hn + 2 * i + 1] = hexd[b[i] & 15];
    }
    size_t p = (size_t)hn + 2 * n;
    line[p++] = ' ';
    memcpy(line + p, fd_path[fd], plen);
    p += plen;
    line[p++] = '\n';
    emit(line, p);
    free(line);
}

static off_t cur_offset(int fd) {
    if (fd_append[fd]) {
        struct stat st;
        if (fstat(fd, &st) == 0) return st.st_size;
    }
    return lseek(fd, 0, SEEK_CUR);
}

ssize_t write(int fd, const void *buf, size_t n) {
    init();
    if (fd >= 0 && fd < MAXFD && fd_path[fd] && !fd_isdir[fd]) {
        pthread_mutex_lock(&mu);
        off_t off = cur_offset(fd);
        ssize_t r = real_write(fd, buf, n);
        int e = errno;
        if (r > 0) log_write(fd, buf, (size_t)r, off);
        pthread_mutex_unlock(&mu);
        errno = e;
        return r;
    }
    return real_write(fd, buf, n);
}

static ssize_t do_pwrite(int k, int fd, const void *buf, size_t n, off_t off) {
    init();
    if (fd >= 0 && fd < MAXFD && fd_path[fd] && !fd_isdir[fd]) {
        pthread_mutex_lock(&mu);
        ssize_t r = k ? real_pwrite64(fd, buf, n, off) : real_pwrite(fd, buf, n, off);
        int e = errno;
        if (r > 0) log_write(fd, buf, (size_t)r, off);
        pthread_mutex_unlock(&mu);
        errno = e;
        return r;
    }
    return k ? real_pwrite64(fd, buf, n, off) : real_pwrite(fd, buf, n, off);
}
ssize_t pwrite(int fd, const void *buf, size_t n, off_t off) { return do_pwrite(0, fd, buf, n, off); }
ssize_t pwrite64(int fd, const void *buf, size_t n, off_t off) { return do_pwrite(1, fd, buf, n, off); }

ssize_t writev(int fd, const struct iovec *iov, int cnt) {
    init();
    if (fd >= 0 && fd < MAXFD && fd_path[fd] && !fd_isdir[fd]) {
        pthread_mutex_lock(&mu);
        off_t off = cur_offset(fd);
        ssize_t r = real_writev(fd, iov, cnt);
        int e = errno;
        if (r > 0) {
            char *tmp = malloc((size_t)r);
            if (tmp) {
                size_t left = (size_t)r, p = 0;
                for (int i = 0; i < cnt && left > 0; i++) {
                    size_t c = iov[i].iov_len < left ? iov[i].iov_len : left;
                    memcpy(tmp + p, iov[i].iov_base, c);
                    p += c;
                    left -= c;
                }
                log_write(fd, tmp, (size_t)r, off);
                free(tmp);
            }
        }
        pthread_mutex_unlock(&mu);
        errno = e;
        return r;
    }
    return real_writev(fd, iov, cnt);
}

int close(int fd) {
    init();
    if (fd == log_fd) {
        errno = EBADF;
        return -1;
    }
    if (fd >= 0 && fd < MAXFD && fd_path[fd]) {
        pthread_mutex_lock(&mu);
        free(fd_path[fd]);
        fd_path[fd] = NULL;
        pthread_mutex_unlock(&mu);
    }
    return real_close(fd);
}

static int do_rename(int k, int od, const char *o, int nd, const char *n, unsigned int fl) {
    init();
    char a[PATH_MAX], b[PATH_MAX];
    abspath(od, o, a, sizeof a);
    abspath(nd, n, b, sizeof b);
    int t = under_root(a) || under_root(b);
    if (t) pthread_mutex_lock(&mu);
    int r = k == 0 ? real_rename(o, n) : k == 1 ? real_renameat(od, o, nd, n) : real_renameat2(od, o, nd, n, fl);
    if (t) {
        int e = errno;
        if (r == 0) logf_("R %s\t%s\n", a, b);
        pthread_mutex_unlock(&mu);
        errno = e;
    }
    return r;
}
int rename(const char *o, const char *n) { return do_rename(0, AT_FDCWD, o, AT_FDCWD, n, 0); }
int renameat(int od, const char *o, int nd, const char *n) { return do_rename(1, od, o, nd, n, 0); }
int renameat2(int od, const char *o, int nd, const char *n, unsigned int fl) { return do_rename(2, od, o, nd, n, fl); }

int unlink(const char *p) {
    init();
    char a[PATH_MAX];
    abspath(AT_FDCWD, p, a, sizeof a);
    int t = under_root(a);
    if (t) pthread_mutex_lock(&mu);
    int r = real_unlink(p);
    if (t) {
        int e = errno;
        if (r == 0) logf_("U %s\n", a);
        pthread_mutex_unlock(&mu);
        errno = e;
    }
    return r;
}

int unlinkat(int d, const char *p, int fl) {
    init();
    char a[PATH_MAX];
    abspath(d, p, a, sizeof a);
    int t = under_root(a);
    if (t) pthread_mutex_lock(&mu);
    int r = real_unlinkat(d, p, fl);
    if (t) {
        int e = errno;
        if (r == 0) logf_("%c %s\n", (fl & AT_REMOVEDIR) ? 'X' : 'U', a);
        pthread_mutex_unlock(&mu);
        errno = e;
    }
    return r;
}

static int do_trunc(int k, int fd, off_t len) {
    init();
    if (fd >= 0 && fd < MAXFD && fd_path[fd]) {
        pthread_mutex_lock(&mu);
        int r = k ? real_ftruncate64(fd, len) : real_ftruncate(fd, len);
        int e = errno;
        if (r == 0) logf_("T %lld %s\n", (long long)len, fd_path[fd]);
        pthread_mutex_unlock(&mu);
        errno = e;
        return r;
    }
    return k ? real_ftruncate64(fd, len) : real_ftruncate(fd, len);
}
int ftruncate(int fd, off_t len) { return do_trunc(0, fd, len); }
int ftruncate64(int fd, off_t len) { return do_trunc(1, fd, len); }

static int do_sync(int k, int fd) {
    init();
    if (fd >= 0 && fd < MAXFD && fd_path[fd]) {
        pthread_mutex_lock(&mu);
        int r = k ? real_fdatasync(fd) : real_fsync(fd);
        int e = errno;
        if (r == 0) logf_("%c %s\n", fd_isdir[fd] ? 'Y' : 'S', fd_path[fd]);
        pthread_mutex_unlock(&mu);
        errno = e;
        return r;
    }
    return k ? real_fdatasync(fd) : real_fsync(fd);
}
int fsync(int fd) { return do_sync(0, fd); }
int fdatasync(int fd) { return do_sync(1, fd); }

int mkdir(const char *p, mode_t m) {
    init();
    if (is_marker(p)) {
        pthread_mutex_lock(&mu);
        logf_("M %s\n", p + 11);
        pthread_mutex_unlock(&mu);
        errno = ENOENT;
        return -1;
    }
    char a[PATH_MAX];
    abspath(AT_FDCWD, p, a, sizeof a);
    int t = under_root(a);
    if (t) pthread_mutex_lock(&mu);
    int r = real_mkdir(p, m);
    if (t) {
        int e = errno;
        if (r == 0) logf_("D %s\n", a);
        pthread_mutex_unlock(&mu);
        errno = e;
    }
    return r;
}

int mkdirat(int d, const char *p, mode_t m) {
    init();
    char a[PATH_MAX];
    abspath(d, p, a, sizeof a);
    int t = under_root(a);
    if (t) pthread_mutex_lock(&mu);
    int r = real_mkdirat(d, p, m);
    if (t) {
        int e = errno;
        if (r == 0) logf_("D %s\n", a);
        pthread_mutex_unlock(&mu);
        errno = e;
    }
    return r;
}

int rmdir(const char *p) {
    init();
    char a[PATH_MAX];
    abspath(AT_FDCWD, p, a, sizeof a);
    int t = under_root(a);
    if (t) pthread_mutex_lock(&mu);
    int r = real_rmdir(p);
    if (t) {
        int e = errno;
        if (r == 0) logf_("X %s\n", a);
        pthread_mutex_unlock(&mu);
        errno = e;
    }
    return r;
}
