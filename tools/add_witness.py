#!/usr/bin/env python3
"""add_witness.py <replay.json> <known-id>: store the replay's case as the witness of a known finding."""
import json, sys
rep = json.load(open(sys.argv[1]))
kid = sys.argv[2]
k = json.load(open('/verif/known_findings.json'))
for f in k['findings']:
    if f['id'] == kid:
        f['witness'] = {"part": rep['part'].split('#')[0], "case": rep['case']}
        break
else:
    sys.exit("unknown id")
json.dump(k, open('/verif/known_findings.json', 'w'), indent=1)
print("witness set for", kid)
