#!/usr/bin/env python3
"""Regenerates /verif/MANIFEST.json from tools/checks.json (per-property text) + properties.jsonl."""
import json, subprocess, os
root = os.path.dirname(os.path.dirname(os.path.abspath(__file__)))
props = [json.loads(l) for l in open(f"{root}/properties.jsonl")]
checks = json.load(open(f"{root}/tools/checks.json"))
hooks_commits = subprocess.run(["git", "-C", "/repo", "log", "--format=%h %s"], capture_output=True, text=True).stdout.splitlines()
hook_commits = [l.split()[0] for l in hooks_commits if l.split(" ", 1)[1].startswith("verif-hooks")]
m = {
    "version": 1,
    "setup_cmd": "./setup.sh",
    "hooks": {
        "guard": "cargo feature `verif-hooks` (off by default)",
        "enable": "the harness crate depends on inputlayer with features=[\"verif-hooks\"] (harness/Cargo.toml); cargo build in /verif/harness rebuilds /repo's working tree with the hooks on",
        "baseline_off_cmd": "cd /repo && (cargo nextest run --workspace --no-fail-fast --offline --test-threads 8 || cargo test --workspace --no-fail-fast --offline)",
        "source_commits": hook_commits,
        "add_only": True,
    },
    "engines": checks["engines"],
    "checks": [],
    "notes": checks.get("notes", ""),
    "not_applicable": [],
}
for p in props:
    pid = p["id"]
    c = checks["checks"].get(pid)
    if c is None:
        m["not_applicable"].append({"property_id": pid, "reason": checks["pending"].get(pid, "check not built yet in this round (planned, see DESIGN.md section 6); not claimed until it exists and is silent on the unchanged tree")})
        continue
    m["checks"].append({
        "property_id": pid,
        "quick_cmd": f"./run.sh {pid} quick",
        "thorough_cmd": f"./run.sh {pid} thorough",
        "evidence_file": f"/verif/evidence/{pid}.json",
        "replay_cmd_template": f"./run.sh {pid} replay {{path}}",
        "engine": c.get("engine", "E1"),
        "level_claimed": {"category": c.get("category", "exploration"), "text": c["text"], "design_ref": f"DESIGN.md section 6, {pid}"},
        "level_note": c["note"],
        "technique": c["technique"],
    })
json.dump(m, open(f"{root}/MANIFEST.json", "w"), indent=1)
print(f"claimed {len(m['checks'])}, not claimed {len(m['not_applicable'])}")
