#!/bin/bash
# tools/seeded_all.sh: re-run every stored seeded change against the checks listed in seeded/<id>/checks (default: the id itself)
cd /verif
for d in seeded/C[0-9][0-9]/; do
  id=$(basename $d)
  checks=$(cat $d/checks 2>/dev/null || echo $id)
  echo "== $id (checks: $checks)"
  tools/try_seeded.sh /verif/$d $checks 2>&1 | tail -n +1 | grep -E "DETECTED|missed|patch does not apply|uncommitted" | cut -c1-200
done
