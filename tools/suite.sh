#!/bin/bash
# Runs /repo's own test suite with the verif-hooks feature OFF; prints the summary and failures.
cd /repo || exit 2
LOG=${1:-/tmp/suite.log}
cargo nextest run --workspace --no-fail-fast --offline --test-threads 8 > "$LOG" 2>&1
RC=$?
grep -E "^\s+(FAIL|SIGABRT|SIGSEGV|TIMEOUT)|Summary|error\[|error:" "$LOG" | sort | uniq -c | head -60
echo "exit=$RC head=$(git rev-parse --short HEAD)"
