#!/bin/bash
# tools/sweep.sh [seed] [tier]: run every claimed check, print one line per check (exit code + summary)
cd /verif
SEED=${1:-1}; TIER=${2:-quick}
for id in $(python3 -c "import json;print(' '.join(c['property_id'] for c in json.load(open('MANIFEST.json'))['checks']))"); do
  out=$(VERIF_SEED=$SEED ./run.sh $id $TIER 2>/dev/null); rc=$?
  echo "rc=$rc $(echo "$out" | grep -E "^$id $TIER:" | tail -1) $(echo "$out" | grep -c '^VIOLATION') violation-lines"
  if [ $rc -ne 0 ]; then echo "$out" | grep -A12 "^VIOLATION" | head -40; fi
done
