#!/bin/bash
# tools/try_seeded.sh <seeded-dir> <check-id>...   apply the seeded change to /repo, run the given checks
# (quick tier, seeds 1..3, stop at the first detection), undo the change. Prints one line per check.
set -u
DIR="$1"; shift
cd /repo || exit 2
if ! git diff --quiet; then echo "/repo has uncommitted changes"; exit 2; fi
git apply "$DIR/patch.diff" || { echo "patch does not apply"; exit 2; }
# evidence written while the change is applied says nothing about /repo: keep the real files aside
EVSAVE=$(mktemp -d /verif/target/evidence.XXXXXX); cp -a /verif/evidence/. "$EVSAVE"/
trap 'git -C /repo checkout -- . ; rm -rf /verif/evidence; mkdir -p /verif/evidence; cp -a "$EVSAVE"/. /verif/evidence/; rm -rf "$EVSAVE"' EXIT
cd /verif
for id in "$@"; do
  found=""
  for seed in 1 2 3; do
    out=$(VERIF_SEED=$seed ./run.sh $id quick 2>/dev/null); rc=$?
    if [ $rc -eq 1 ]; then found="seed=$seed $(echo "$out" | grep -A1 '^VIOLATION' | sed -n 2p | cut -c1-260)"; break; fi
    if [ $rc -ne 0 ]; then found="rc=$rc (inconclusive) $(echo "$out" | tail -2 | tr '\n' ' ' | cut -c1-200)"; break; fi
  done
  if [ -n "$found" ]; then echo "$id: DETECTED $found"; else echo "$id: missed (quick, seeds 1-3) $(echo "$out" | grep "^$id quick" | cut -c1-160)"; fi
done
